(* C10 lemmas. *)
From CJ Require Import Common.Base C10.Model.
From Coq Require Import Lia ZifyN ZifyNat ZifyBool.

(* ------------------------------------------------------------------ addresses and their text *)
Lemma to4_len4 b : blen b = 4 -> to4 b = Some b.
Proof. intros H. unfold to4. rewrite H. reflexivity. Qed.

Lemma to4_some_len b q : to4 b = Some q -> ip_len_ok b = true.
Proof.
  unfold to4, ip_len_ok. destruct (blen b =? 4) eqn:E4; [reflexivity|].
  destruct (blen b =? 16) eqn:E16; cbn; [reflexivity|discriminate].
Qed.

(* For 4- and 16-byte values the text the station prints reads back, under any IP-literal parser
   that agrees with the text classes, as exactly the address the value denotes. *)
Lemma string_parses_to_value b :
  ip_len_ok b = true ->
  exists a, ip_value b = Some a /\ parse_ip (Some (ip_string b)) = Some a /\
            is_v4 a = is_some (to4 b).
Proof.
  unfold ip_len_ok, ip_value, ip_string. intros H.
  assert (E0 : (blen b =? 0) = false) by lia.
  assert (Ex : negb (blen b =? 4) && negb (blen b =? 16) = false) by lia.
  rewrite E0, Ex.
  destruct (to4 b) as [q|] eqn:T.
  - eexists; repeat split; reflexivity.
  - assert (E16 : (blen b =? 16) = true).
    { destruct (blen b =? 4) eqn:E4; [|lia]. apply N.eqb_eq in E4. rewrite (to4_len4 _ E4) in T. discriminate. }
    rewrite E16. eexists; repeat split; reflexivity.
Qed.

(* ... and for every other length the text is not an IP literal. *)
Lemma string_unparsable b : ip_len_ok b = false -> ip_string b = Unparsable.
Proof.
  unfold ip_len_ok, ip_string. intros H.
  destruct (blen b =? 0) eqn:E0; [reflexivity|].
  assert (Ex : negb (blen b =? 4) && negb (blen b =? 16) = true) by lia.
  rewrite Ex. reflexivity.
Qed.

Lemma ip_value_none b : ip_len_ok b = false -> ip_value b = None.
Proof.
  unfold ip_len_ok, ip_value. intros H.
  destruct (to4 b) eqn:T.
  - apply to4_some_len in T. unfold ip_len_ok in T. congruence.
  - destruct (blen b =? 16) eqn:E; [lia|reflexivity].
Qed.

(* ------------------------------------------------------------------ admission invariant *)
Definition nproto_of (p : proto) : option nproto :=
  match p with PTcp => Some NTcp | PUdp => Some NUdp | PUnk => None end.

(* what the detector needs of a registration *)
Definition reg_acceptable (r : reg) : bool :=
  ip_len_ok (r_phantom r) && ip_len_ok (r_addr r) &&
  (negb (is_some (to4 (r_phantom r))) || is_some (to4 (r_addr r))) &&
  is_some (nproto_of (r_proto r)).

Definition reg_ok (r : reg) : bool := reg_acceptable r && (r_port r <? 65536).

Definition derived_wf (d : derived) : Prop := ip_len_ok (d_ip d) = true /\ d_port d < 65536.
Definition sel_wf (s : sel) : Prop :=
  (forall d, sel4 s = Some d -> derived_wf d) /\ (forall d, sel6 s = Some d -> derived_wf d).

Lemma be4_len n : blen (be4 n) = 4.
Proof. reflexivity. Qed.

Lemma transport_proto_ok t : is_some (nproto_of (transport_proto t)) = true.
Proof. destruct t; reflexivity. Qed.

Lemma new_reg_ok w s addr v6 r :
  sel_wf s -> new_reg w s addr v6 = Some r -> reg_ok r = true /\ r_addr r = addr.
Proof.
  intros [W4 W6]. unfold new_reg.
  destruct (w_tr w) as [t|]; [|discriminate].
  destruct (if v6 then sel6 s else sel4 s) as [d|] eqn:D; [|discriminate].
  assert (WD : derived_wf d) by (destruct v6; auto).
  destruct WD as [WL WP].
  set (ov := if v6 then w_ov6 w else match w_ov4 w with
                                      | Some n => if n =? 0 then None else Some (be4 n)
                                      | None => None end).
  set (ov_ok := match ov with
                | Some o => if v6 then (blen o =? 16) && negb (is_some (to4 o)) else true
                | None => true
                end).
  set (ph := match ov with Some o => o | None => d_ip d end).
  destruct ov_ok eqn:OK; cbn [negb]; [|discriminate].
  destruct (ip_len_ok addr) eqn:LA; cbn [negb]; [|discriminate].
  destruct (is_some (to4 ph) && negb (is_some (to4 addr))) eqn:MIX; [discriminate|].
  intros H; inversion H; subst r; clear H. split; [|reflexivity].
  unfold reg_ok, reg_acceptable; cbn [r_phantom r_addr r_port r_proto].
  assert (LP : ip_len_ok ph = true).
  { unfold ph, ov_ok in *. destruct ov as [o|] eqn:OV; [|exact WL].
    destruct v6.
    - apply andb_true_iff in OK as [OK _]. unfold ip_len_ok. rewrite OK. apply orb_true_r.
    - unfold ov in OV. destruct (w_ov4 w) as [n|]; [|discriminate].
      destruct (n =? 0); [discriminate|]. inversion OV. reflexivity. }
  rewrite LP, LA, transport_proto_ok.
  assert (PORT : (match w_odst w with Some p => p mod 65536 | None => d_port d end <? 65536) = true).
  { destruct (w_odst w); [|lia]. apply N.ltb_lt. apply N.mod_lt. discriminate. }
  rewrite PORT.
  destruct (is_some (to4 ph)); destruct (is_some (to4 addr)); cbn in *; congruence.
Qed.

Lemma ingest_ok c w s r : sel_wf s -> In r (ingest c w s) -> reg_ok r = true.
Proof.
  intros W. unfold ingest.
  set (addr := match w_addr w with Some a => a | None => zeros16 end).
  destruct (w_v4 w && en4 c && is_some (to4 addr)).
  - destruct (new_reg w s addr false) as [r4|] eqn:R4; cbn [option_map]; [|intros []].
    destruct (w_v6 w && en6 c).
    + destruct (new_reg w s addr true) as [r6|] eqn:R6; cbn [option_map]; [|intros []].
      cbn. intros [<-|[<-|[]]]; eapply new_reg_ok; eauto.
    + cbn. intros [<-|[]]; eapply new_reg_ok; eauto.
  - destruct (w_v6 w && en6 c).
    + destruct (new_reg w s addr true) as [r6|] eqn:R6; cbn [option_map]; [|intros []].
      cbn. intros [<-|[]]; eapply new_reg_ok; eauto.
    + intros [].
Qed.

(* the rejection that makes the family rule hold: an IPv6 (or absent, or malformed) registrant
   never gets an IPv4 phantom *)
Lemma ingest_family_consistent c w s r :
  In r (ingest c w s) -> sel_wf s -> is_some (to4 (r_phantom r)) = true -> is_some (to4 (r_addr r)) = true.
Proof.
  intros I W. pose proof (ingest_ok _ _ _ _ W I) as H. unfold reg_ok, reg_acceptable in H.
  destruct (is_some (to4 (r_phantom r))); [|discriminate]. lia.
Qed.

(* ------------------------------------------------------------------ the detector on announcements *)
Definition expected_session (r : reg) (dur : N) (cl ph : ipaddr) (np : nproto) : session :=
  {| s_client := cl; s_phantom := ph; s_dst := r_port r; s_src := 0; s_proto := np; s_timeout := dur |}.

Lemma session_of_s2d_of r dur o :
  reg_ok r = true ->
  exists cl ph np,
    ip_value (r_addr r) = Some cl /\ ip_value (r_phantom r) = Some ph /\ nproto_of (r_proto r) = Some np /\
    session_of (s2d_of r dur o) = Ok (expected_session r dur cl ph np).
Proof.
  unfold reg_ok, reg_acceptable. intros H.
  assert (LP : ip_len_ok (r_phantom r) = true) by lia.
  assert (LA : ip_len_ok (r_addr r) = true) by lia.
  assert (FAM : negb (is_some (to4 (r_phantom r))) || is_some (to4 (r_addr r)) = true) by lia.
  assert (PR : is_some (nproto_of (r_proto r)) = true) by lia.
  assert (PORT : r_port r < 65536) by lia.
  destruct (string_parses_to_value _ LP) as (ph & VP & PP & FP).
  destruct (string_parses_to_value _ LA) as (cl & VC & PC & FC).
  destruct (nproto_of (r_proto r)) as [np|] eqn:NP; [|discriminate].
  exists cl, ph, np. repeat split; auto.
  unfold session_of, s2d_of; cbn [pr client_t phantom_t tmo src dst get].
  assert (U : u16 (r_port r) = r_port r) by (unfold u16; apply N.mod_small; exact PORT).
  assert (MIX : is_v4 ph && negb (is_v4 cl) = false).
  { rewrite FP, FC. destruct (is_some (to4 (r_phantom r))), (is_some (to4 (r_addr r))); cbn in *; congruence. }
  unfold session_new. rewrite PP, PC, MIX, U. unfold expected_session, u16.
  destruct (r_proto r); cbn in NP; inversion NP; reflexivity.
Qed.

Lemma handle_announce r o :
  reg_ok r = true -> (o = ONew \/ o = OUpdate) ->
  exists cl ph np,
    ip_value (r_addr r) = Some cl /\ ip_value (r_phantom r) = Some ph /\ nproto_of (r_proto r) = Some np /\
    handle_s2d (announce r o) = DAdd (expected_session r (station_lifetime (used_after o)) cl ph np).
Proof.
  intros OK [->| ->]; cbn [announce used_after station_lifetime].
  - destruct (session_of_s2d_of r timeout_unused ONew OK) as (cl & ph & np & A & B & C & D).
    exists cl, ph, np. repeat split; auto. unfold handle_s2d. rewrite D. reflexivity.
  - destruct (session_of_s2d_of r timeout_active OUpdate OK) as (cl & ph & np & A & B & C & D).
    exists cl, ph, np. repeat split; auto. unfold handle_s2d. rewrite D. reflexivity.
Qed.

Lemma accepted_and_faithful c w s r o :
  sel_wf s -> In r (ingest c w s) -> (o = ONew \/ o = OUpdate) ->
  exists cl ph np,
    ip_value (r_addr r) = Some cl /\ ip_value (r_phantom r) = Some ph /\ nproto_of (r_proto r) = Some np /\
    handle_s2d (announce r o) = DAdd (expected_session r (station_lifetime (used_after o)) cl ph np).
Proof. intros W I O. apply handle_announce; auto. eapply ingest_ok; eauto. Qed.

(* Necessity: a registration that misses any one of the conditions is announced in vain. *)
Lemma session_of_not_acceptable r dur o :
  reg_acceptable r = false -> exists e, session_of (s2d_of r dur o) = Err e.
Proof.
  unfold reg_acceptable. intros H.
  unfold session_of, s2d_of; cbn [pr client_t phantom_t tmo src dst get].
  destruct (r_proto r) eqn:P; [eexists; reflexivity| |].
  all: cbn [nproto_of is_some] in H.
  all: unfold session_new.
  all: destruct (ip_len_ok (r_phantom r)) eqn:LP;
       [|rewrite (string_unparsable _ LP); cbn; eexists; reflexivity].
  all: destruct (string_parses_to_value _ LP) as (ph & VP & PP & FP); rewrite PP.
  all: destruct (ip_len_ok (r_addr r)) eqn:LA;
       [|rewrite (string_unparsable _ LA); cbn; eexists; reflexivity].
  all: destruct (string_parses_to_value _ LA) as (cl & VC & PC & FC); rewrite PC.
  all: rewrite FP, FC.
  all: destruct (is_some (to4 (r_phantom r))), (is_some (to4 (r_addr r))); cbn in *; try discriminate.
  all: eexists; reflexivity.
Qed.

Lemma announce_in_vain r o :
  reg_acceptable r = false -> handle_s2d (announce r o) = DNothing.
Proof.
  intros H. destruct o; cbn [announce].
  all: match goal with |- handle_s2d (s2d_of ?r0 ?d ?o) = _ =>
         destruct (session_of_not_acceptable r0 d o H) as [e E]; unfold handle_s2d; cbn [op s2d_of get]; rewrite E; reflexivity end.
Qed.

(* ------------------------------------------------------------------ the session table *)
Lemma ipaddr_eqb_eq a b : ipaddr_eqb a b = true <-> a = b.
Proof.
  destruct a, b; cbn; split; intros H; try discriminate; try (apply N.eqb_eq in H; congruence);
    inversion H; apply N.eqb_refl.
Qed.
Lemma nproto_eqb_eq a b : nproto_eqb a b = true <-> a = b.
Proof. destruct a, b; cbn; split; congruence. Qed.

Lemma dkey_eqb_eq a b : dkey_eqb a b = true <-> a = b.
Proof.
  destruct a as [p c ph po|x], b as [p' c' ph' po'|y]; cbn; split; intros H; try discriminate.
  - repeat (apply andb_true_iff in H as [H ?]).
    apply nproto_eqb_eq in H. apply ipaddr_eqb_eq in H1. apply N.eqb_eq in H0. subst.
    destruct c, c'; cbn in H2; try discriminate; [apply ipaddr_eqb_eq in H2; subst|]; reflexivity.
  - inversion H; subst. rewrite N.eqb_refl.
    assert (nproto_eqb p' p' = true) by (apply nproto_eqb_eq; reflexivity).
    assert (ipaddr_eqb ph' ph' = true) by (apply ipaddr_eqb_eq; reflexivity).
    assert (option_eqb ipaddr_eqb c' c' = true) by (destruct c'; cbn; [apply ipaddr_eqb_eq|]; reflexivity).
    rewrite H0, H1, H2. reflexivity.
  - apply N.eqb_eq in H. congruence.
  - inversion H. apply N.eqb_refl.
Qed.

Lemma dkey_eqb_refl k : dkey_eqb k k = true.
Proof. apply dkey_eqb_eq. reflexivity. Qed.

Lemma lookup_add_same k e m :
  exists e', lookup k (add_or_update k e m) = Some e' /\ e <= e' /\
             (forall v, lookup k m = Some v -> v <= e') /\
             (e' = e \/ lookup k m = Some e').
Proof.
  induction m as [|[k' v] m IH]; cbn.
  - rewrite dkey_eqb_refl. exists e. split; [reflexivity|]. split; [lia|]. split; [discriminate|auto].
  - destruct (dkey_eqb k' k) eqn:E; cbn; rewrite E.
    + exists (N.max v e). split; [reflexivity|]. split; [lia|]. split.
      * intros v0 H; inversion H; lia.
      * destruct (N.max_spec v e) as [[? ->]|[? ->]]; auto.
    + exact IH.
Qed.

Lemma lookup_add_other k k' e m : k' <> k -> lookup k' (add_or_update k e m) = lookup k' m.
Proof.
  intros NE. induction m as [|[k'' v] m IH]; cbn.
  - destruct (dkey_eqb k k') eqn:E; [apply dkey_eqb_eq in E; congruence|reflexivity].
  - destruct (dkey_eqb k'' k) eqn:E; cbn.
    + apply dkey_eqb_eq in E. subst k''.
      destruct (dkey_eqb k k') eqn:E2; [apply dkey_eqb_eq in E2; congruence|reflexivity].
    + rewrite IH. reflexivity.
Qed.

(* A session announced at `now` is forwarded until at least now + the requested lifetime, whatever
   the detector knew before; nothing else in the table changes. *)
Lemma step_add now m msg s :
  handle_s2d msg = DAdd s ->
  (exists e, lookup (tag s) (detector_step now m msg) = Some e /\ now + s_timeout s <= e) /\
  (forall k, k <> tag s -> lookup k (detector_step now m msg) = lookup k m).
Proof.
  intros H. unfold detector_step. rewrite H. cbn [apply_effect]. split.
  - destruct (lookup_add_same (tag s) (now + s_timeout s) m) as (e' & L & G & _). eauto.
  - intros k NE. apply lookup_add_other. exact NE.
Qed.

Lemma forwarded_for_station_lifetime c w s r o now t_reg m :
  sel_wf s -> In r (ingest c w s) -> (o = ONew \/ o = OUpdate) -> t_reg <= now ->
  exists sess e,
    handle_s2d (announce r o) = DAdd sess /\
    lookup (tag sess) (detector_step now m (announce r o)) = Some e /\
    t_reg + station_lifetime (used_after o) <= e.
Proof.
  intros W I O T.
  destruct (accepted_and_faithful c w s r o W I O) as (cl & ph & np & _ & _ & _ & H).
  destruct (step_add now m _ _ H) as [(e & L & G) _].
  eexists _, e. repeat split; eauto. cbn [s_timeout expected_session] in G. lia.
Qed.

(* ------------------------------------------------------------------ clear *)
Lemma clear_handled : handle_s2d clear_msg = DClear.
Proof. reflexivity. Qed.

Lemma clear_any_details m : op m = Some OClear -> handle_s2d m = DClear.
Proof. intros H. unfold handle_s2d. rewrite H. reflexivity. Qed.

Lemma clear_empties now m : detector_step now m clear_msg = [].
Proof. reflexivity. Qed.

Lemma clear_forgets_everything now m k : lookup k (detector_step now m clear_msg) = None.
Proof. reflexivity. Qed.

(* the detector never does anything for a message without a known operation *)
Lemma unknown_op_ignored m : get OUnknown (op m) = OUnknown -> handle_s2d m = DNothing.
Proof. intros H. unfold handle_s2d. rewrite H. reflexivity. Qed.

(* the pinned order of the two steps and the present one differ only on Clear messages that do
   not convert *)
Lemma conversion_first_differs_only_on_clear m :
  handle_s2d_conversion_first m <> handle_s2d m ->
  get OUnknown (op m) = OClear /\ forall s, session_of m <> Ok s.
Proof.
  unfold handle_s2d_conversion_first, handle_s2d.
  destruct (get OUnknown (op m)); destruct (session_of m) as [s|e|]; intros H; try congruence.
  all: split; [reflexivity|congruence].
Qed.

(* ------------------------------------------------------------------ statements used by Props.v *)
Lemma lifetimes_agree c w s r o sess :
  sel_wf s -> In r (ingest c w s) -> (o = ONew \/ o = OUpdate) ->
  handle_s2d (announce r o) = DAdd sess ->
  s_timeout sess = station_lifetime (used_after o) /\
  tmo (announce r o) = Some (station_lifetime (used_after o)).
Proof.
  intros W I O H.
  destruct (accepted_and_faithful c w s r o W I O) as (cl & ph & np & _ & _ & _ & H').
  rewrite H' in H. inversion H; subst sess. split; [reflexivity|].
  destruct O as [-> | ->]; reflexivity.
Qed.

Lemma lifetime_values :
  station_lifetime false = 600 * 1000000000 /\ station_lifetime true = 21600 * 1000000000.
Proof. split; reflexivity. Qed.

Lemma clear_is_acted_on :
  handle_s2d clear_msg = DClear /\
  forall now m, detector_step now m clear_msg = [] /\ forall k, lookup k (detector_step now m clear_msg) = None.
Proof. split; [reflexivity|]. intros; split; reflexivity. Qed.

(* the same for the constructor called directly (util/station-debug does), on any registrant bytes *)
Lemma constructor_accepted_and_faithful w s addr v6 r o :
  sel_wf s -> new_reg w s addr v6 = Some r -> (o = ONew \/ o = OUpdate) ->
  exists cl ph np,
    ip_value (r_addr r) = Some cl /\ ip_value (r_phantom r) = Some ph /\ nproto_of (r_proto r) = Some np /\
    handle_s2d (announce r o) = DAdd (expected_session r (station_lifetime (used_after o)) cl ph np).
Proof. intros W N O. apply handle_announce; auto. eapply new_reg_ok; eauto. Qed.

(* ================================================================== the table over time *)
Lemma drun_app st a b : drun st (a ++ b) = drun (drun st a) b.
Proof. revert st; induction a as [|[t e] a IH]; intros st; cbn; auto. Qed.

Lemma lookup_refresh_same k e m v :
  lookup k m = Some v -> lookup k (refresh k e m) = Some (N.max v e).
Proof.
  induction m as [|[k' v'] m IH]; cbn; [discriminate|].
  destruct (dkey_eqb k' k) eqn:E; cbn; rewrite E.
  - intros H; inversion H; reflexivity.
  - exact IH.
Qed.

Lemma lookup_refresh_other k k' e m : k' <> k -> lookup k' (refresh k e m) = lookup k' m.
Proof.
  intros NE. induction m as [|[k'' v] m IH]; cbn; [reflexivity|].
  destruct (dkey_eqb k'' k) eqn:E; cbn.
  - apply dkey_eqb_eq in E. subst k''.
    destruct (dkey_eqb k k') eqn:E2; [apply dkey_eqb_eq in E2; congruence|reflexivity].
  - rewrite IH. reflexivity.
Qed.

Lemma lookup_sweep_keeps k now m v : lookup k m = Some v -> now < v -> lookup k (sweep now m) = Some v.
Proof.
  unfold sweep. induction m as [|[k' v'] m IH]; cbn; [discriminate|].
  destruct (dkey_eqb k' k) eqn:E.
  - intros H L; inversion H; subst v'. assert (X : (now <? v) = true) by lia. rewrite X. cbn. rewrite E. reflexivity.
  - intros H L. destruct (now <? v'); cbn; [rewrite E|]; auto.
Qed.

Definition not_clear (e : devent) : Prop := forall m, e = EMsg m -> handle_s2d m <> DClear.

(* one event before E keeps a session whose expiry is at least E *)
Lemma dstep_keeps now st e k v E :
  lookup k st = Some v -> E <= v -> now < E -> not_clear e ->
  exists v', lookup k (dstep now st e) = Some v' /\ E <= v'.
Proof.
  intros L G T NC.
  assert (ADD : forall s, exists v', lookup k (add_or_update (tag s) (now + s_timeout s) st) = Some v' /\ E <= v').
  { intros s. destruct (dkey_eqb (tag s) k) eqn:EQ.
    - apply dkey_eqb_eq in EQ. subst k.
      destruct (lookup_add_same (tag s) (now + s_timeout s) st) as (e' & L' & _ & UP & _).
      exists e'. split; [exact L'|]. specialize (UP _ L). lia.
    - exists v. split; [|exact G]. rewrite lookup_add_other; [exact L|].
      intros ->. rewrite dkey_eqb_refl in EQ. discriminate. }
  destruct e as [m|m|m|m|]; cbn [dstep].
  - unfold detector_step. destruct (handle_s2d m) as [s| |] eqn:H; cbn [apply_effect].
    + apply ADD.
    + exfalso. exact (NC m eq_refl H).
    + eauto.
  - destruct (session_of m) as [s|?|]; [apply ADD|eauto|eauto].
  - destruct (session_of m) as [s|?|]; [|eauto|eauto].
    destruct (dkey_eqb (tag s) k) eqn:EQ.
    + apply dkey_eqb_eq in EQ. subst k. rewrite (lookup_refresh_same _ _ _ _ L).
      eexists; split; [reflexivity|lia].
    + exists v. split; [|exact G]. rewrite lookup_refresh_other; [exact L|].
      intros ->. rewrite dkey_eqb_refl in EQ. discriminate.
  - eauto.
  - exists v. split; [|exact G]. apply lookup_sweep_keeps; [exact L|lia].
Qed.

Lemma drun_keeps h : forall st k v E,
  lookup k st = Some v -> E <= v ->
  (forall t e, In (t, e) h -> t < E /\ not_clear e) ->
  exists v', lookup k (drun st h) = Some v' /\ E <= v'.
Proof.
  induction h as [|[t e] h IH]; intros st k v E L G A; cbn; [eauto|].
  destruct (A t e (or_introl eq_refl)) as [T NC].
  destruct (dstep_keeps t st e k v E L G T NC) as (v' & L' & G').
  eapply IH; eauto. intros t0 e0 I. apply A. right; exact I.
Qed.

(* Whatever the detector knew before (p1) and whatever else happens afterwards (p2: other
   announcements, sweeps, packets, lookups -- anything but a Clear), a session announced at ta is
   in the table, with an expiry of at least ta + lifetime, after every event that happens before
   ta + lifetime. *)
Lemma held_after_announcement st0 p1 p2 ta r o :
  reg_ok r = true -> (o = ONew \/ o = OUpdate) ->
  (forall t e, In (t, e) p2 -> t < ta + station_lifetime (used_after o) /\ not_clear e) ->
  exists sess v,
    handle_s2d (announce r o) = DAdd sess /\
    lookup (tag sess) (drun st0 (p1 ++ (ta, EMsg (announce r o)) :: p2)) = Some v /\
    ta + station_lifetime (used_after o) <= v /\ tracked (tag sess) (drun st0 (p1 ++ (ta, EMsg (announce r o)) :: p2)) = true.
Proof.
  intros OK O A.
  destruct (handle_announce r o OK O) as (cl & ph & np & _ & _ & _ & H).
  set (sess := expected_session r (station_lifetime (used_after o)) cl ph np) in *.
  rewrite drun_app. cbn [drun dstep].
  destruct (step_add ta (drun st0 p1) _ _ H) as [(e & L & G) _].
  cbn [s_timeout sess expected_session] in G.
  destruct (drun_keeps p2 _ _ _ _ L G A) as (v' & L' & G').
  exists sess, v'. repeat split; auto. unfold tracked. rewrite L'. reflexivity.
Qed.

(* the station's own acceptance rule for a registration made at t_reg (C08: kept while age <= 10 min,
   or used and age <= 6 h), and the theorem in its terms: New is announced at validation
   (t_reg <= t_new), Update when the registration is first used *)
Lemma forwarded_while_station_accepts c w s r o st0 p1 p2 t_reg ta :
  sel_wf s -> In r (ingest c w s) -> (o = ONew \/ o = OUpdate) -> t_reg <= ta ->
  (forall t e, In (t, e) p2 -> t < t_reg + station_lifetime (used_after o) /\ not_clear e) ->
  exists sess,
    handle_s2d (announce r o) = DAdd sess /\
    tracked (tag sess) (drun st0 (p1 ++ (ta, EMsg (announce r o)) :: p2)) = true.
Proof.
  intros W I O T A.
  destruct (held_after_announcement st0 p1 p2 ta r o (ingest_ok _ _ _ _ W I) O) as (sess & v & H & _ & _ & TR).
  - intros t e IN. destruct (A t e IN). split; [lia|auto].
  - eauto.
Qed.

(* ---- the converse: nothing is forwarded beyond the requested lifetimes plus one sweep period ---- *)
Definition bounded_k (k : dkey) (E : N) (st : dmap) : Prop := forall k' v, In (k', v) st -> k' = k -> v <= E.
Definition absent_k (k : dkey) (st : dmap) : Prop := forall v, ~ In (k, v) st.

(* what an event may contribute to key k stays below E *)
Definition adds_le (k : dkey) (E now : N) (e : devent) : Prop :=
  match e with
  | EMsg m => forall s, handle_s2d m = DAdd s -> tag s = k -> now + s_timeout s <= E
  | EAdd m => forall s, session_of m = Ok s -> tag s = k -> now + s_timeout s <= E
  | EPacket m => forall s, session_of m = Ok s -> tag s = k -> now + timeout_phantoms <= E
  | _ => True
  end.
(* the event does not (re)introduce key k *)
Definition quiet (k : dkey) (e : devent) : Prop :=
  match e with
  | EMsg m => forall s, handle_s2d m = DAdd s -> tag s <> k
  | EAdd m => forall s, session_of m = Ok s -> tag s <> k
  | _ => True
  end.

Lemma bounded_add k E k1 e st : bounded_k k E st -> (k1 = k -> e <= E) -> bounded_k k E (add_or_update k1 e st).
Proof.
  intros B LE. induction st as [|[k' v] st IH]; cbn.
  - intros k2 v2 [H|[]] ->. inversion H; subst. auto.
  - assert (B' : bounded_k k E st) by (intros a b I; apply B; right; exact I).
    destruct (dkey_eqb k' k1) eqn:EQ.
    + apply dkey_eqb_eq in EQ. subst k'. intros k2 v2 [H|I] ->.
      * inversion H; subst. specialize (B k v (or_introl eq_refl) eq_refl). specialize (LE eq_refl). lia.
      * apply (B k v2); [right; exact I|reflexivity].
    + intros k2 v2 [H|I] ->.
      * inversion H; subst. apply (B k v2); [left; reflexivity|reflexivity].
      * apply (IH B' k v2 I eq_refl).
Qed.

Lemma bounded_refresh k E k1 e st : bounded_k k E st -> (k1 = k -> e <= E) -> bounded_k k E (refresh k1 e st).
Proof.
  intros B LE. induction st as [|[k' v] st IH]; cbn; [intros ? ? []|].
  assert (B' : bounded_k k E st) by (intros a b I; apply B; right; exact I).
  destruct (dkey_eqb k' k1) eqn:EQ.
  - apply dkey_eqb_eq in EQ. subst k'. intros k2 v2 [H|I] ->.
    + inversion H; subst. specialize (B k v (or_introl eq_refl) eq_refl). specialize (LE eq_refl). lia.
    + apply (B k v2); [right; exact I|reflexivity].
  - intros k2 v2 [H|I] ->.
    + inversion H; subst. apply (B k v2); [left; reflexivity|reflexivity].
    + apply (IH B' k v2 I eq_refl).
Qed.

Lemma bounded_sweep k E now st : bounded_k k E st -> bounded_k k E (sweep now st).
Proof. intros B k' v I. apply B. unfold sweep in I. apply filter_In in I. tauto. Qed.

Lemma dstep_bounded k E now st e : bounded_k k E st -> adds_le k E now e -> bounded_k k E (dstep now st e).
Proof.
  intros B A. destruct e as [m|m|m|m|]; cbn [dstep adds_le] in *.
  - unfold detector_step. destruct (handle_s2d m) as [s| |]; cbn [apply_effect].
    + apply bounded_add; [exact B|]. intros EQ. exact (A s eq_refl EQ).
    + intros ? ? [].
    + exact B.
  - destruct (session_of m) as [s|?|]; [|exact B|exact B].
    apply bounded_add; [exact B|]. intros EQ. exact (A s eq_refl EQ).
  - destruct (session_of m) as [s|?|]; [|exact B|exact B].
    apply bounded_refresh; [exact B|]. intros EQ. exact (A s eq_refl EQ).
  - exact B.
  - apply bounded_sweep; exact B.
Qed.

Lemma drun_bounded k E h : forall st, bounded_k k E st -> (forall t e, In (t, e) h -> adds_le k E t e) ->
  bounded_k k E (drun st h).
Proof.
  induction h as [|[t e] h IH]; intros st B A; cbn; [exact B|].
  apply IH; [apply dstep_bounded; [exact B|apply A; left; reflexivity]|].
  intros t0 e0 I; apply A; right; exact I.
Qed.

Lemma sweep_removes k E now st : bounded_k k E st -> E <= now -> absent_k k (sweep now st).
Proof.
  intros B LE v I. unfold sweep in I. apply filter_In in I as [I L].
  specialize (B k v I eq_refl). cbn in L. lia.
Qed.

Lemma absent_add k k1 e st : absent_k k st -> k1 <> k -> absent_k k (add_or_update k1 e st).
Proof.
  intros A NE. induction st as [|[k' v] st IH]; cbn.
  - intros v0 [H|[]]. inversion H. congruence.
  - assert (A' : absent_k k st) by (intros b I; apply (A b); right; exact I).
    destruct (dkey_eqb k' k1) eqn:EQ.
    + apply dkey_eqb_eq in EQ. subst k'. intros v0 [H|I]; [inversion H; congruence|apply (A v0); right; exact I].
    + intros v0 [H|I]; [inversion H; subst; apply (A v0); left; reflexivity|apply (IH A' v0 I)].
Qed.

Lemma absent_refresh k k1 e st : absent_k k st -> absent_k k (refresh k1 e st).
Proof.
  intros A. induction st as [|[k' v] st IH]; cbn; [intros ? []|].
  assert (A' : absent_k k st) by (intros b I; apply (A b); right; exact I).
  destruct (dkey_eqb k' k1) eqn:EQ.
  - intros v0 [H|I]; [inversion H; subst; apply (A v); left; reflexivity|apply (A v0); right; exact I].
  - intros v0 [H|I]; [inversion H; subst; apply (A v0); left; reflexivity|apply (IH A' v0 I)].
Qed.

Lemma dstep_absent k now st e : absent_k k st -> quiet k e -> absent_k k (dstep now st e).
Proof.
  intros A Q. destruct e as [m|m|m|m|]; cbn [dstep quiet] in *.
  - unfold detector_step. destruct (handle_s2d m) as [s| |]; cbn [apply_effect].
    + apply absent_add; [exact A|]. exact (Q s eq_refl).
    + intros ? [].
    + exact A.
  - destruct (session_of m) as [s|?|]; [|exact A|exact A].
    apply absent_add; [exact A|]. exact (Q s eq_refl).
  - destruct (session_of m) as [s|?|]; [|exact A|exact A]. apply absent_refresh; exact A.
  - exact A.
  - intros v I. unfold sweep in I. apply filter_In in I as [I _]. exact (A v I).
Qed.

Lemma drun_absent k h : forall st, absent_k k st -> (forall t e, In (t, e) h -> quiet k e) -> absent_k k (drun st h).
Proof.
  induction h as [|[t e] h IH]; intros st A Q; cbn; [exact A|].
  apply IH; [apply dstep_absent; [exact A|apply (Q t); left; reflexivity]|].
  intros t0 e0 I; apply (Q t0); right; exact I.
Qed.

Lemma absent_lookup k st : absent_k k st -> lookup k st = None.
Proof.
  intros A. induction st as [|[k' v] st IH]; cbn; [reflexivity|].
  destruct (dkey_eqb k' k) eqn:EQ.
  - apply dkey_eqb_eq in EQ. subst k'. exfalso. apply (A v). left; reflexivity.
  - apply IH. intros b I. apply (A b). right; exact I.
Qed.

(* If everything that ever asked for key k (announcements: now + requested lifetime; packets:
   now + 5 min) stays below E, the first sweep at or after E removes the session, and it stays
   removed until somebody announces it again.  With sweeps every P the session is therefore gone
   no later than E + P. *)
Lemma dropped_at_first_sweep_after_expiry k E st0 h1 s h2 :
  bounded_k k E st0 ->
  (forall t e, In (t, e) h1 -> adds_le k E t e) ->
  E <= s ->
  (forall t e, In (t, e) h2 -> quiet k e) ->
  lookup k (drun st0 (h1 ++ (s, ESweep) :: h2)) = None /\
  tracked k (drun st0 (h1 ++ (s, ESweep) :: h2)) = false.
Proof.
  intros B A LE Q. rewrite drun_app. cbn [drun dstep].
  assert (X : absent_k k (drun (sweep s (drun st0 h1)) h2)).
  { apply drun_absent; [|exact Q]. eapply sweep_removes; [|exact LE]. apply drun_bounded; assumption. }
  unfold tracked. rewrite (absent_lookup _ _ X). split; reflexivity.
Qed.

(* the announcements of a registration ask for exactly its lifetime *)
Lemma announce_adds_le r o ta k :
  adds_le k (ta + station_lifetime (used_after o)) ta (EMsg (announce r o)).
Proof.
  cbn [adds_le]. intros s H _.
  destruct (reg_acceptable r) eqn:ACC.
  - assert (T : s_timeout s = station_lifetime (used_after o)).
    { unfold handle_s2d in H. destruct o; cbn [announce s2d_of op get] in H.
      all: match type of H with context [session_of ?m] => destruct (session_of m) as [s'|?|] eqn:SO end; try discriminate.
      all: inversion H; subst s'.
      all: unfold session_of, s2d_of in SO; cbn [pr client_t phantom_t tmo src dst get] in SO.
      all: destruct (r_proto r); try discriminate.
      all: unfold session_new in SO.
      all: repeat match type of SO with context [match ?x with _ => _ end] => destruct x; try discriminate end.
      all: inversion SO; reflexivity. }
    rewrite T. lia.
  - rewrite (announce_in_vain r o ACC) in H. discriminate.
Qed.

(* ---- the pubsub loop ---- *)
Definition pmsgs (h : list (N * pevent)) : list (N * devent) :=
  flat_map (fun te => match snd te with PMsg m => [(fst te, EMsg m)] | _ => [] end) h.

Lemma pubsub_loop_is_handler h : forall st, prun st h = drun st (pmsgs h).
Proof.
  induction h as [|[t e] h IH]; intros st; cbn; [reflexivity|].
  destruct e; cbn; apply IH.
Qed.

(* ---- publication failures ---- *)
Lemma usable_implies_announced_partial :
  forall publish_ok, publish_ok = true ->
  fst (register_outcome publish_ok) = true -> snd (register_outcome publish_ok) = true.
Proof. intros ? -> _. reflexivity. Qed.

(* ---- shutdown ---- *)
Lemma shutdown_clears_detector cancelled st h t :
  drun st (h ++ map (fun m => (t, EMsg m)) (cleanup cancelled)) = [] /\
  forall k, tracked k (drun st (h ++ map (fun m => (t, EMsg m)) (cleanup cancelled))) = false.
Proof. rewrite drun_app. cbn. split; reflexivity. Qed.

(* ================================================================== publication over a connection that may break *)
Lemma publish_only_copies a : forall sc m x, In x (publish a sc m) -> x = m.
Proof.
  induction a as [|a IH]; intros sc m x; cbn [publish]; [intros []|].
  destruct sc as [|[] r]; cbn [In]; intros H.
  - destruct H as [H|[]]; auto.
  - eauto.
  - destruct H as [H|H]; [auto|eauto].
  - destruct H.
Qed.

Lemma publish_survivable a : forall sc m, survivable a sc = true -> In m (publish a sc m).
Proof.
  induction a as [|a IH]; intros sc m; cbn [publish survivable]; [discriminate|].
  destruct sc as [|[] r]; intros H; try discriminate.
  - left; reflexivity.
  - apply IH; exact H.
  - left; reflexivity.
Qed.

(* with as many connection losses as the client makes attempts nothing is delivered *)
Lemma publish_lost a : forall sc m,
  Forall (fun f => f = FLostBefore) sc -> (a <= length sc)%nat -> publish a sc m = [].
Proof.
  induction a as [|a IH]; intros sc m F L; cbn [publish]; [reflexivity|].
  destruct sc as [|f r]; [cbn in L; lia|]. inversion F; subst. apply IH; [assumption|]. cbn in L. lia.
Qed.

Lemma add_or_update_idem k e m : add_or_update k e (add_or_update k e m) = add_or_update k e m.
Proof.
  induction m as [|[k' v] m IH]; cbn [add_or_update].
  - rewrite dkey_eqb_refl. rewrite N.max_id. reflexivity.
  - destruct (dkey_eqb k' k) eqn:E; cbn [add_or_update]; rewrite E.
    + assert (X : N.max (N.max v e) e = N.max v e) by lia. rewrite X. reflexivity.
    + rewrite IH. reflexivity.
Qed.

(* New, Update, Clear (and everything the detector ignores) are idempotent: a second copy of a message
   processed at the same clock reading changes nothing *)
Lemma detector_step_idem now st m : detector_step now (detector_step now st m) m = detector_step now st m.
Proof.
  unfold detector_step. destruct (handle_s2d m); cbn [apply_effect];
    [apply add_or_update_idem|reflexivity|reflexivity].
Qed.

Lemma deliver_copies now m : forall l st, l <> [] -> (forall x, In x l -> x = m) ->
  deliver now st l = detector_step now st m.
Proof.
  induction l as [|x r IH]; intros st NE A; [congruence|].
  assert (x = m) by (apply A; left; reflexivity). subst x.
  unfold deliver. cbn [fold_left]. destruct r as [|y r'] eqn:R; [reflexivity|].
  change (fold_left (detector_step now) (y :: r') (detector_step now st m))
    with (deliver now (detector_step now st m) (y :: r')).
  rewrite IH; [apply detector_step_idem|discriminate|intros z I; apply A; right; exact I].
Qed.

(* a publication hit by fewer transient faults than the client makes attempts leaves the detector exactly
   where a fault-free publication leaves it *)
Lemma faulty_publication_equals_clean a sc m now st :
  survivable a sc = true -> deliver now st (publish a sc m) = detector_step now st m.
Proof.
  intros H. apply deliver_copies.
  - intros E. pose proof (publish_survivable a sc m H) as I. rewrite E in I. destruct I.
  - apply publish_only_copies.
Qed.

Lemma clear_survives_faults attempts sc cancelled now st :
  survivable attempts sc = true ->
  deliver now st (flat_map (publish attempts sc) (cleanup cancelled)) = [].
Proof.
  intros H. unfold cleanup. cbn [flat_map]. rewrite app_nil_r.
  rewrite (faulty_publication_equals_clean _ _ _ _ _ H). reflexivity.
Qed.

(* the pubsub loop goes on after errors: whatever was received before (errors included), the next decoded message
   is handled *)
Lemma prun_app st a b : prun st (a ++ b) = prun (prun st a) b.
Proof. revert st; induction a as [|[t e] a IH]; intros st; cbn; auto. Qed.

Lemma pubsub_goes_on st h t m : prun st (h ++ [(t, PMsg m)]) = detector_step t (prun st h) m.
Proof. rewrite prun_app. reflexivity. Qed.
