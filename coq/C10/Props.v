(* C10 property theorems: statements + `exact lemma` only. *)
From CJ Require Import Common.Base C10.Model C10.Proofs.

(* Every registration the ingest path can produce -- any station configuration, any message
   (every transport, either family, registrant address absent / IPv4 / IPv6 / v4-mapped / malformed,
   default and registrar-overridden phantoms and ports), any well-formed outcome of phantom
   selection -- is announced, when validated (New) and when first used (Update), by a message the
   detector converts and acts on, and the session it stores carries exactly the registration's
   registrant address, phantom address, destination port and protocol and the station's own
   lifetime for that state. *)
Theorem C10_announcement_accepted_and_faithful :
  forall c w s r o, sel_wf s -> In r (ingest c w s) -> (o = ONew \/ o = OUpdate) ->
  exists cl ph np,
    ip_value (r_addr r) = Some cl /\ ip_value (r_phantom r) = Some ph /\ nproto_of (r_proto r) = Some np /\
    handle_s2d (announce r o) =
      DAdd {| s_client := cl; s_phantom := ph; s_dst := r_port r; s_src := 0; s_proto := np;
              s_timeout := station_lifetime (used_after o) |}.
Proof. exact accepted_and_faithful. Qed.
Print Assumptions C10_announcement_accepted_and_faithful.

(* The lifetime the detector is asked for is the station's own expiry threshold for the state the
   registration is in after the announcement ... *)
Theorem C10_lifetimes_agree :
  forall c w s r o sess, sel_wf s -> In r (ingest c w s) -> (o = ONew \/ o = OUpdate) ->
  handle_s2d (announce r o) = DAdd sess ->
  s_timeout sess = station_lifetime (used_after o) /\
  tmo (announce r o) = Some (station_lifetime (used_after o)).
Proof. exact lifetimes_agree. Qed.
Print Assumptions C10_lifetimes_agree.

Theorem C10_lifetime_values :
  station_lifetime false = 600 * 1000000000 /\ station_lifetime true = 21600 * 1000000000.
Proof. exact lifetime_values. Qed.
Print Assumptions C10_lifetime_values.

(* ... so, whatever the detector's table held, after an announcement processed at time `now` of a
   registration made at t_reg <= now the session is forwarded at least until the station itself
   would drop the registration. *)
Theorem C10_forwarded_for_station_lifetime :
  forall c w s r o now t_reg m,
  sel_wf s -> In r (ingest c w s) -> (o = ONew \/ o = OUpdate) -> t_reg <= now ->
  exists sess e,
    handle_s2d (announce r o) = DAdd sess /\
    lookup (tag sess) (detector_step now m (announce r o)) = Some e /\
    t_reg + station_lifetime (used_after o) <= e.
Proof. exact forwarded_for_station_lifetime. Qed.
Print Assumptions C10_forwarded_for_station_lifetime.

(* The message built at shutdown reaches pubsub_clear, and nothing survives it. *)
Theorem C10_clear_is_acted_on :
  handle_s2d clear_msg = DClear /\
  forall now m, detector_step now m clear_msg = [] /\ forall k, lookup k (detector_step now m clear_msg) = None.
Proof. exact clear_is_acted_on. Qed.
Print Assumptions C10_clear_is_acted_on.

(* Necessity of the admission conditions: a registration that misses any one of them (address
   lengths, family consistency, a TCP/UDP transport) is announced in vain. *)
Theorem C10_unacceptable_announced_in_vain :
  forall r o, reg_acceptable r = false -> handle_s2d (announce r o) = DNothing.
Proof. exact announce_in_vain. Qed.
Print Assumptions C10_unacceptable_announced_in_vain.

(* The ingest path never pairs an IPv4 phantom with a registrant that is not IPv4. *)
Theorem C10_ingest_family_consistent :
  forall c w s r, In r (ingest c w s) -> sel_wf s ->
  is_some (to4 (r_phantom r)) = true -> is_some (to4 (r_addr r)) = true.
Proof. exact ingest_family_consistent. Qed.
Print Assumptions C10_ingest_family_consistent.

(* An announcement touches no other session of the detector. *)
Theorem C10_announcement_touches_only_its_session :
  forall now m msg s, handle_s2d msg = DAdd s ->
  (exists e, lookup (tag s) (detector_step now m msg) = Some e /\ now + s_timeout s <= e) /\
  (forall k, k <> tag s -> lookup k (detector_step now m msg) = lookup k m).
Proof. exact step_add. Qed.
Print Assumptions C10_announcement_touches_only_its_session.

(* The same guarantee for every registration the public constructor NewRegistrationC2SWrapper
   returns, whoever calls it and with whatever registrant bytes (the ingest path is one caller). *)
Theorem C10_constructor_accepted_and_faithful :
  forall w s addr v6 r o, sel_wf s -> new_reg w s addr v6 = Some r -> (o = ONew \/ o = OUpdate) ->
  exists cl ph np,
    ip_value (r_addr r) = Some cl /\ ip_value (r_phantom r) = Some ph /\ nproto_of (r_proto r) = Some np /\
    handle_s2d (announce r o) =
      DAdd {| s_client := cl; s_phantom := ph; s_dst := r_port r; s_src := 0; s_proto := np;
              s_timeout := station_lifetime (used_after o) |}.
Proof. exact constructor_accepted_and_faithful. Qed.
Print Assumptions C10_constructor_accepted_and_faithful.

(* ---------------- the detector's table over time (drop_stale_sessions, update_session, the pubsub loop) ---------------- *)

(* "The detector forwards a session for as long as the station would accept it."  The station's
   rule (C08; constants pinned by C10_lifetime_values) keeps a registration made at t_reg while
   t <= t_reg + 10 min, and once used while t <= t_reg + 6 h.  New is announced when the registration
   is validated (t_reg <= ta), Update when it is first used.  Whatever the detector's table held
   before (st0, p1) and whatever happens afterwards (p2: other announcements, direct inserts, packets,
   lookups, sweeps at any times -- anything but a Clear, which the station only sends when it stops
   accepting everything), after every event that happens before t_reg + lifetime the session is
   tracked.  (Boundary: the instant t_reg + lifetime itself is excluded -- a sweep at exactly
   ta + lifetime drops the entry, `v > now`.  The station additionally keeps an expired
   registration until its own next 3-minute sweep; in that window, at most 3 min minus (ta - t_reg),
   the station may still accept while the detector may already have dropped: see notes.) *)
Theorem C10_forwarded_while_station_accepts :
  forall c w s r o st0 p1 p2 t_reg ta,
  sel_wf s -> In r (ingest c w s) -> (o = ONew \/ o = OUpdate) -> t_reg <= ta ->
  (forall t e, In (t, e) p2 -> t < t_reg + station_lifetime (used_after o) /\ not_clear e) ->
  exists sess,
    handle_s2d (announce r o) = DAdd sess /\
    tracked (tag sess) (drun st0 (p1 ++ (ta, EMsg (announce r o)) :: p2)) = true.
Proof. exact forwarded_while_station_accepts. Qed.
Print Assumptions C10_forwarded_while_station_accepts.

(* the same with the expiry made explicit, for any acceptable registration *)
Theorem C10_held_after_announcement :
  forall st0 p1 p2 ta r o,
  reg_ok r = true -> (o = ONew \/ o = OUpdate) ->
  (forall t e, In (t, e) p2 -> t < ta + station_lifetime (used_after o) /\ not_clear e) ->
  exists sess v,
    handle_s2d (announce r o) = DAdd sess /\
    lookup (tag sess) (drun st0 (p1 ++ (ta, EMsg (announce r o)) :: p2)) = Some v /\
    ta + station_lifetime (used_after o) <= v /\
    tracked (tag sess) (drun st0 (p1 ++ (ta, EMsg (announce r o)) :: p2)) = true.
Proof. exact held_after_announcement. Qed.
Print Assumptions C10_held_after_announcement.

(* Conversely: if everything that asked for key k stays below E (an announcement asks for
   now + its lifetime, a packet of the flow for now + 5 min), the first sweep at or after E removes
   the session and it stays removed until it is announced again; with a sweep every P the detector
   therefore stops forwarding no later than E + P. *)
Theorem C10_dropped_at_first_sweep_after_expiry :
  forall k E st0 h1 s h2,
  bounded_k k E st0 ->
  (forall t e, In (t, e) h1 -> adds_le k E t e) ->
  E <= s ->
  (forall t e, In (t, e) h2 -> quiet k e) ->
  lookup k (drun st0 (h1 ++ (s, ESweep) :: h2)) = None /\
  tracked k (drun st0 (h1 ++ (s, ESweep) :: h2)) = false.
Proof. exact dropped_at_first_sweep_after_expiry. Qed.
Print Assumptions C10_dropped_at_first_sweep_after_expiry.

(* ... and a registration's announcements ask for exactly its lifetime, never more *)
Theorem C10_announcement_asks_exactly_lifetime :
  forall r o ta k, adds_le k (ta + station_lifetime (used_after o)) ta (EMsg (announce r o)).
Proof. exact announce_adds_le. Qed.
Print Assumptions C10_announcement_asks_exactly_lifetime.

(* ingest_from_pubsub adds nothing of its own: receive / payload / decode errors are skipped and
   the table is exactly what the handler makes of the decoded messages *)
Theorem C10_pubsub_loop_is_handler : forall h st, prun st h = drun st (pmsgs h).
Proof. exact pubsub_loop_is_handler. Qed.
Print Assumptions C10_pubsub_loop_is_handler.

(* ---------------- publication failures (open known finding, witness in Refuted.v) ---------------- *)
(* full statement: whatever Redis does with the PUBLISH, a registration usable by the station is known to the detector *)
Definition C10_usable_implies_announced_full_statement : Prop :=
  forall publish_ok, fst (register_outcome publish_ok) = true -> snd (register_outcome publish_ok) = true.
(* proved part: it holds whenever the publication succeeds (all other theorems of this file are about that case) *)
Theorem C10_usable_implies_announced_partial :
  forall publish_ok, publish_ok = true ->
  fst (register_outcome publish_ok) = true -> snd (register_outcome publish_ok) = true.
Proof. exact usable_implies_announced_partial. Qed.
Print Assumptions C10_usable_implies_announced_partial.

(* ---------------- shutdown ---------------- *)
(* The station's shutdown sequence ends with Cleanup(), after the pipeline's context was cancelled;
   what Cleanup publishes then (exactly the Clear message, whatever the state of that context) empties
   the detector's table whatever it held and whatever happened before: a restarted station inherits nothing. *)
Theorem C10_shutdown_clears_detector :
  forall cancelled st h t,
  drun st (h ++ map (fun m => (t, EMsg m)) (cleanup cancelled)) = [] /\
  forall k, tracked k (drun st (h ++ map (fun m => (t, EMsg m)) (cleanup cancelled))) = false.
Proof. exact shutdown_clears_detector. Qed.
Print Assumptions C10_shutdown_clears_detector.

(* ---------------------------------------------------------------- publication over a connection that may break *)
(* client.Publish makes MaxRetries + 1 attempts.  If the connections of fewer attempts than that break while the
   command is in flight (before or after the server processed it) and no attempt is refused outright, the
   announcement -- New, Update or Clear alike -- is delivered, and nothing but copies of it is. *)
Theorem C10_publication_survives_transient_faults :
  forall attempts sc m, survivable attempts sc = true ->
  In m (publish attempts sc m) /\ forall x, In x (publish attempts sc m) -> x = m.
Proof. intros a sc m H. split; [exact (publish_survivable a sc m H)|exact (publish_only_copies a sc m)]. Qed.
Print Assumptions C10_publication_survives_transient_faults.

(* duplicates are harmless: the detector ends up exactly where a fault-free publication leaves it ... *)
Theorem C10_faulty_publication_equals_clean :
  forall attempts sc m now st, survivable attempts sc = true ->
  deliver now st (publish attempts sc m) = detector_step now st m.
Proof. exact faulty_publication_equals_clean. Qed.
Print Assumptions C10_faulty_publication_equals_clean.

(* ... because every operation of the detector is idempotent *)
Theorem C10_detector_operations_idempotent :
  forall now st m, detector_step now (detector_step now st m) m = detector_step now st m.
Proof. exact detector_step_idem. Qed.
Print Assumptions C10_detector_operations_idempotent.

(* the budget is what makes the difference: when as many connections break as the client makes attempts the
   announcement is lost (a client configured for a single attempt loses it to one fault) *)
Theorem C10_publication_lost_beyond_budget :
  forall attempts sc m, Forall (fun f => f = FLostBefore) sc -> (attempts <= length sc)%nat ->
  publish attempts sc m = [].
Proof. exact publish_lost. Qed.
Print Assumptions C10_publication_lost_beyond_budget.

(* the shutdown Clear under the same faults: the table is emptied all the same *)
Theorem C10_clear_survives_transient_faults :
  forall attempts sc cancelled now st, survivable attempts sc = true ->
  deliver now st (flat_map (publish attempts sc) (cleanup cancelled)) = [].
Proof. exact clear_survives_faults. Qed.
Print Assumptions C10_clear_survives_transient_faults.

(* the pubsub loop does not stop at an error: after any sequence of received messages, receive errors, unreadable
   and undecodable payloads, the next decoded message is handled -- an announcement stored, the shutdown Clear acted on *)
Theorem C10_pubsub_loop_goes_on_after_errors :
  forall st h t m, prun st (h ++ [(t, PMsg m)]) = detector_step t (prun st h) m.
Proof. exact pubsub_goes_on. Qed.
Print Assumptions C10_pubsub_loop_goes_on_after_errors.
