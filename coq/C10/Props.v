(* C10 property theorems: statements + `exact lemma` only. *)
From CJ Require Import Common.Base C10.Model C10.Proofs.

(* Every registration the ingest path can produce -- any station configuration, any message
   (every transport, either family, registrant address absent / IPv4 / IPv6 / v4-mapped / malformed,
   default and registrar-overridden phantoms and ports), any well-formed outcome of phantom
   selection -- is announced, when validated (New) and when first used (Update), by a message the
   detector converts and acts on, and the session it stores carries exactly the registration's
   registrant address, phantom address, destination port and protocol and the station's own
   lifetime for that state. *)
Theorem C10_announcement_accepted_and_faithful :
  forall c w s r o, sel_wf s -> In r (ingest c w s) -> (o = ONew \/ o = OUpdate) ->
  exists cl ph np,
    ip_value (r_addr r) = Some cl /\ ip_value (r_phantom r) = Some ph /\ nproto_of (r_proto r) = Some np /\
    handle_s2d (announce r o) =
      DAdd {| s_client := cl; s_phantom := ph; s_dst := r_port r; s_src := 0; s_proto := np;
              s_timeout := station_lifetime (used_after o) |}.
Proof. exact accepted_and_faithful. Qed.
Print Assumptions C10_announcement_accepted_and_faithful.

(* The lifetime the detector is asked for is the station's own expiry threshold for the state the
   registration is in after the announcement ... *)
Theorem C10_lifetimes_agree :
  forall c w s r o sess, sel_wf s -> In r (ingest c w s) -> (o = ONew \/ o = OUpdate) ->
  handle_s2d (announce r o) = DAdd sess ->
  s_timeout sess = station_lifetime (used_after o) /\
  tmo (announce r o) = Some (station_lifetime (used_after o)).
Proof. exact lifetimes_agree. Qed.
Print Assumptions C10_lifetimes_agree.

Theorem C10_lifetime_values :
  station_lifetime false = 600 * 1000000000 /\ station_lifetime true = 21600 * 1000000000.
Proof. exact lifetime_values. Qed.
Print Assumptions C10_lifetime_values.

(* ... so, whatever the detector's table held, after an announcement processed at time `now` of a
   registration made at t_reg <= now the session is forwarded at least until the station itself
   would drop the registration. *)
Theorem C10_forwarded_for_station_lifetime :
  forall c w s r o now t_reg m,
  sel_wf s -> In r (ingest c w s) -> (o = ONew \/ o = OUpdate) -> t_reg <= now ->
  exists sess e,
    handle_s2d (announce r o) = DAdd sess /\
    lookup (tag sess) (detector_step now m (announce r o)) = Some e /\
    t_reg + station_lifetime (used_after o) <= e.
Proof. exact forwarded_for_station_lifetime. Qed.
Print Assumptions C10_forwarded_for_station_lifetime.

(* The message built at shutdown reaches pubsub_clear, and nothing survives it. *)
Theorem C10_clear_is_acted_on :
  handle_s2d clear_msg = DClear /\
  forall now m, detector_step now m clear_msg = [] /\ forall k, lookup k (detector_step now m clear_msg) = None.
Proof. exact clear_is_acted_on. Qed.
Print Assumptions C10_clear_is_acted_on.

(* Necessity of the admission conditions: a registration that misses any one of them (address
   lengths, family consistency, a TCP/UDP transport) is announced in vain. *)
Theorem C10_unacceptable_announced_in_vain :
  forall r o, reg_acceptable r = false -> handle_s2d (announce r o) = DNothing.
Proof. exact announce_in_vain. Qed.
Print Assumptions C10_unacceptable_announced_in_vain.

(* The ingest path never pairs an IPv4 phantom with a registrant that is not IPv4. *)
Theorem C10_ingest_family_consistent :
  forall c w s r, In r (ingest c w s) -> sel_wf s ->
  is_some (to4 (r_phantom r)) = true -> is_some (to4 (r_addr r)) = true.
Proof. exact ingest_family_consistent. Qed.
Print Assumptions C10_ingest_family_consistent.

(* An announcement touches no other session of the detector. *)
Theorem C10_announcement_touches_only_its_session :
  forall now m msg s, handle_s2d msg = DAdd s ->
  (exists e, lookup (tag s) (detector_step now m msg) = Some e /\ now + s_timeout s <= e) /\
  (forall k, k <> tag s -> lookup k (detector_step now m msg) = lookup k m).
Proof. exact step_add. Qed.
Print Assumptions C10_announcement_touches_only_its_session.

(* The same guarantee for every registration the public constructor NewRegistrationC2SWrapper
   returns, whoever calls it and with whatever registrant bytes (the ingest path is one caller). *)
Theorem C10_constructor_accepted_and_faithful :
  forall w s addr v6 r o, sel_wf s -> new_reg w s addr v6 = Some r -> (o = ONew \/ o = OUpdate) ->
  exists cl ph np,
    ip_value (r_addr r) = Some cl /\ ip_value (r_phantom r) = Some ph /\ nproto_of (r_proto r) = Some np /\
    handle_s2d (announce r o) =
      DAdd {| s_client := cl; s_phantom := ph; s_dst := r_port r; s_src := 0; s_proto := np;
              s_timeout := station_lifetime (used_after o) |}.
Proof. exact constructor_accepted_and_faithful. Qed.
Print Assumptions C10_constructor_accepted_and_faithful.
