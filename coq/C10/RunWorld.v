(* C10: evaluation of the world model (station table + publication + detector table) on recorded histories. *)
From CJ Require Import Common.Base C10.Model C10.ModelWorld C10.Run.

(* what the driver does in one step *)
Inductive mevent :=
| MRecv (ks : list S.regkey) (sc : list fault)   (* parseRegMessage + ingestRegistration of every registration of one message *)
| MSt (os : list S.rop) (sc : list fault)        (* TrackRegistration / AddRegistration (another object) of every registration of one message,
                                                    MarkActive, the clock, RemoveOldRegistrations; the script applies to the first operation *)
| MDet (e : devent)                              (* at the detector only *)
| MCleanup (sc : list fault).                    (* RegistrationManager.Cleanup *)

Definition default_reg : reg := {| r_phantom := []; r_addr := []; r_port := 0; r_proto := PUnk |}.
Fixpoint fields_of (keys : list (S.regkey * reg)) (k : S.regkey) : reg :=
  match keys with
  | [] => default_reg
  | (k', r) :: rest => if S.regkey_eqb k k' then r else fields_of rest k
  end.

Definition expand (s : S.st) (e : mevent) : list wevent :=
  match e with
  | MRecv ks sc => recv_events s ks sc
  | MSt os sc => match os with [] => [] | o :: r => WSt o sc :: map (fun o' => WSt o' []) r end
  | MDet d => [WDet d]
  | MCleanup sc => [WCleanup sc]
  end.

Definition obs1 := (bool * option N)%type.
Definition obs1_eqb (a b : obs1) : bool := Bool.eqb (fst a) (fst b) && option_eqb N.eqb (snd a) (snd b).

Section Chk.
  Variable keys : list (S.regkey * reg).
  Variable att : nat.

  Definition mstep (w : world) (e : mevent) : world :=
    fold_left (wstep (fields_of keys) att) (expand (fst w) e) w.

  Definition observe (w : world) : list obs1 * N :=
    (map (fun kr => (S.matches (fst w) (fst kr),
                     match reg_dkey (snd kr) with Some dk => lookup dk (snd w) | None => None end)) keys,
     N.of_nat (length (snd w))).

  Fixpoint wmatches (w : world) (evs : list mevent) (obs : list (list obs1 * N)) : bool :=
    match evs, obs with
    | [], [] => true
    | e :: evs', o :: obs' =>
        let w' := mstep w e in
        let m := observe w' in
        list_eqb obs1_eqb (fst m) (fst o) && (snd m =? snd o) && wmatches w' evs' obs'
    | _, _ => false
    end.
End Chk.

Inductive wcase :=
(* keys with the fields the real registrations carried, the client's MaxRetries, the steps, and after every step:
   per key (GetRegistrations finds it, expiry of its session in the real SessionTracker) and the tracker's size *)
| CWorld (keys : list (S.regkey * reg)) (retries : N) (evs : list mevent) (obs : list (list obs1 * N))
(* one Publish against the stand-in with a fault script: PUBLISH commands seen, copies processed *)
| CPublish (retries : N) (sc : list fault) (seen delivered : N).

Definition chkw (c : wcase) : bool :=
  match c with
  | CWorld keys retries evs obs => wmatches keys (client_attempts retries) (S.init, []) evs obs
  | CPublish retries sc seen delivered =>
      (N.of_nat (attempts_used (client_attempts retries) sc) =? seen) &&
      (N.of_nat (length (publish (client_attempts retries) sc clear_msg)) =? delivered)
  end.
