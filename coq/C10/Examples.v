(* C10 non-vacuity: concrete inputs meeting each theorem's hypotheses, evaluated. *)
From CJ Require Import Common.Base C10.Model C10.Proofs.
From Coq Require Import Lia.

Definition ex_cfg : stcfg := {| en4 := true; en6 := true |}.
Definition ex_sel : sel :=
  {| sel4 := Some {| d_ip := [192; 122; 190; 7]; d_port := 443 |};
     sel6 := Some {| d_ip := unhex "200148a8687f00010000000000000abc"; d_port := 50123 |} |}.

Lemma ex_sel_wf : sel_wf ex_sel.
Proof.
  split; intros d H; inversion H; subst d; split; try reflexivity; cbn; lia.
Qed.

(* an IPv4 registrant (sent v4-mapped), both families, min transport, registrar overrides the
   IPv6 phantom and the port *)
Definition ex_w : c2sw :=
  {| w_addr := Some (unhex "00000000000000000000ffff01020304"); w_v4 := true; w_v6 := true;
     w_tr := Some TMin; w_ov4 := None;
     w_ov6 := Some (unhex "20010db8000000000000000000000005"); w_odst := Some 8443 |}.

Example ex_ingest_two :
  ingest ex_cfg ex_w ex_sel =
  [ {| r_phantom := [192; 122; 190; 7]; r_addr := unhex "00000000000000000000ffff01020304";
       r_port := 8443; r_proto := PTcp |};
    {| r_phantom := unhex "20010db8000000000000000000000005"; r_addr := unhex "00000000000000000000ffff01020304";
       r_port := 8443; r_proto := PTcp |} ].
Proof. vm_compute. reflexivity. Qed.

(* the headline theorem is not vacuous: both registrations are in its domain, and its conclusion
   computes to the concrete sessions *)
Example ex_new_v4 :
  handle_s2d (announce (nth 0 (ingest ex_cfg ex_w ex_sel) (Build_reg [] [] 0 PUnk)) ONew) =
  DAdd {| s_client := A4 16909060; s_phantom := A4 3229269511; s_dst := 8443; s_src := 0;
          s_proto := NTcp; s_timeout := 600000000000 |}.
Proof. vm_compute. reflexivity. Qed.

Example ex_update_v6 :
  handle_s2d (announce (nth 1 (ingest ex_cfg ex_w ex_sel) (Build_reg [] [] 0 PUnk)) OUpdate) =
  DAdd {| s_client := A4 16909060; s_phantom := A6 42540766411282592856903984951653826565; s_dst := 8443;
          s_src := 0; s_proto := NTcp; s_timeout := 21600000000000 |}.
Proof. vm_compute. reflexivity. Qed.

Example ex_theorem_instance :
  exists cl ph np, handle_s2d (announce (nth 1 (ingest ex_cfg ex_w ex_sel) (Build_reg [] [] 0 PUnk)) OUpdate) =
    DAdd (expected_session (nth 1 (ingest ex_cfg ex_w ex_sel) (Build_reg [] [] 0 PUnk)) (station_lifetime true) cl ph np).
Proof.
  destruct (accepted_and_faithful ex_cfg ex_w ex_sel
              (nth 1 (ingest ex_cfg ex_w ex_sel) (Build_reg [] [] 0 PUnk)) OUpdate ex_sel_wf) as (cl & ph & np & _ & _ & _ & H).
  - vm_compute. auto.
  - auto.
  - eauto.
Qed.

(* registrant absent, DTLS: one IPv6 registration, client "::", UDP *)
Definition ex_w_absent : c2sw :=
  {| w_addr := None; w_v4 := true; w_v6 := true; w_tr := Some TDtls; w_ov4 := None; w_ov6 := None; w_odst := None |}.
Example ex_absent :
  map (fun r => handle_s2d (announce r ONew)) (ingest ex_cfg ex_w_absent ex_sel) =
  [ DAdd {| s_client := A6 0; s_phantom := A6 42541961838138582696187285469050964668; s_dst := 50123; s_src := 0;
            s_proto := NUdp; s_timeout := 600000000000 |} ].
Proof. vm_compute. reflexivity. Qed.

(* the three rejections that keep the domain well-formed *)
Example ex_bad_override_rejected :
  ingest ex_cfg {| w_addr := Some [1; 2; 3; 4]; w_v4 := true; w_v6 := true; w_tr := Some TMin; w_ov4 := None;
                   w_ov6 := Some [1; 2; 3; 4; 5]; w_odst := None |} ex_sel = [].
Proof. vm_compute. reflexivity. Qed.
Example ex_bad_registrant_rejected :
  ingest ex_cfg {| w_addr := Some [1; 2; 3; 4; 5]; w_v4 := true; w_v6 := true; w_tr := Some TMin; w_ov4 := None;
                   w_ov6 := None; w_odst := None |} ex_sel = [].
Proof. vm_compute. reflexivity. Qed.
Example ex_mapped_override_rejected :    (* v4-mapped override of the IPv6 phantom *)
  ingest ex_cfg {| w_addr := Some (unhex "20010db8000000000000000000000099"); w_v4 := true; w_v6 := true;
                   w_tr := Some TMin; w_ov4 := None; w_ov6 := Some (unhex "00000000000000000000ffff0a000001");
                   w_odst := None |} ex_sel = [].
Proof. vm_compute. reflexivity. Qed.

Example ex_v6_client_v4_phantom_rejected :    (* selection for the IPv6 twin yields an IPv4 phantom, IPv6 registrant *)
  ingest ex_cfg {| w_addr := Some (unhex "20010db8000000000000000000000099"); w_v4 := true; w_v6 := true;
                   w_tr := Some TMin; w_ov4 := None; w_ov6 := None; w_odst := None |}
         {| sel4 := sel4 ex_sel; sel6 := Some {| d_ip := [10; 0; 0; 1]; d_port := 443 |} |} = [].
Proof. vm_compute. reflexivity. Qed.

(* what those rejections prevent: such registrations would be announced in vain *)
Example ex_in_vain_phantom :
  reg_acceptable (Build_reg [1; 2; 3; 4; 5] [1; 2; 3; 4] 443 PTcp) = false /\
  handle_s2d (announce (Build_reg [1; 2; 3; 4; 5] [1; 2; 3; 4] 443 PTcp) ONew) = DNothing.
Proof. split; vm_compute; reflexivity. Qed.
Example ex_in_vain_mixed :
  session_of (announce (Build_reg [10; 0; 0; 1] (unhex "20010db8000000000000000000000099") 443 PTcp) ONew) = Err MixedV4V6Error.
Proof. vm_compute. reflexivity. Qed.
Example ex_in_vain_proto :
  session_of (announce (Build_reg [10; 0; 0; 1] [1; 2; 3; 4] 443 PUnk) ONew) = Err UnrecognizedProto.
Proof. vm_compute. reflexivity. Qed.

(* the session table: an announcement extends, never shortens; clear removes everything *)
Definition ex_sess : session :=
  {| s_client := A4 16909060; s_phantom := A4 3229269511; s_dst := 8443; s_src := 0; s_proto := NTcp; s_timeout := 600000000000 |}.
Example ex_table :
  let r := nth 0 (ingest ex_cfg ex_w ex_sel) (Build_reg [] [] 0 PUnk) in
  detector_step 1000 [(KOther 0, 7); (tag ex_sess, 5)] (announce r ONew) = [(KOther 0, 7); (tag ex_sess, 600000001000)] /\
  detector_step 1000 [(KOther 0, 7); (tag ex_sess, 900000000000)] (announce r ONew) = [(KOther 0, 7); (tag ex_sess, 900000000000)] /\
  detector_step 1000 [(KOther 0, 7); (tag ex_sess, 900000000000)] clear_msg = [].
Proof. vm_compute. repeat split; reflexivity. Qed.

(* finding #6 as it was in the pinned tree: with the conversion first, the station's clear
   message did nothing (fixed in /repo 1fdd331; handle_s2d is the present code) *)
Example pinned_detector_ignored_clear :
  handle_s2d_conversion_first clear_msg = DNothing /\ handle_s2d clear_msg = DClear.
Proof. split; reflexivity. Qed.

(* ---- the table over time ---- *)
Definition ex_r0 : reg := nth 0 (ingest ex_cfg ex_w ex_sel) (Build_reg [] [] 0 PUnk).
Definition ex_hist_before : list (N * devent) :=
  [ (1000, EMsg (announce ex_r0 ONew));
    (300000000000, ESweep);
    (300000000001, EPacket (announce ex_r0 ONew));           (* a packet of the flow: 5 min from now, shorter than what is left *)
    (400000000000, EMsg (announce (nth 1 (ingest ex_cfg ex_w ex_sel) ex_r0) ONew));   (* somebody else's announcement *)
    (600000000999, ESweep) ].
Example ex_tracked_until_lifetime :
  tracked (tag ex_sess) (drun [(KOther 0, 7)] ex_hist_before) = true /\
  lookup (tag ex_sess) (drun [(KOther 0, 7)] ex_hist_before) = Some 600000001000.
Proof. vm_compute. split; reflexivity. Qed.
(* the hypotheses of C10_held_after_announcement hold for this history *)
Example ex_held_hypotheses :
  forall t e, In (t, e) (tl ex_hist_before) -> t < 1000 + station_lifetime (used_after ONew) /\ not_clear e.
Proof.
  intros t e [H|[H|[H|[H|[]]]]]; inversion H; subst; split; try (vm_compute; reflexivity);
    intros m E; inversion E; subst; vm_compute; discriminate.
Qed.
(* the sweep at the expiry instant drops it (`v > now`), and it stays dropped *)
Example ex_dropped_at_expiry :
  tracked (tag ex_sess) (drun [(KOther 0, 7)] (ex_hist_before ++ [(600000001000, ESweep); (600000002000, EPacket (announce ex_r0 ONew))])) = false.
Proof. vm_compute. reflexivity. Qed.
(* used in time: Update keeps it for 6 h from then, a later New or a packet does not shorten that *)
Example ex_update_extends :
  lookup (tag ex_sess) (drun [] [ (1000, EMsg (announce ex_r0 ONew)); (5000, EMsg (announce ex_r0 OUpdate));
                                   (6000, EMsg (announce ex_r0 ONew)); (7000, EPacket (announce ex_r0 ONew));
                                   (21600000004999, ESweep) ]) = Some 21600000005000.
Proof. vm_compute. reflexivity. Qed.
(* a Clear in between is the one thing that ends forwarding early (it is excluded by not_clear) *)
Example ex_clear_ends_it :
  tracked (tag ex_sess) (drun [] [ (1000, EMsg (announce ex_r0 ONew)); (2000, EMsg clear_msg) ]) = false.
Proof. vm_compute. reflexivity. Qed.
(* the pubsub loop with errors in between *)
Example ex_pubsub :
  prun [] [ (1000, PRecvErr); (1000, PMsg (announce ex_r0 ONew)); (1500, PDecodeErr); (1600, PPayloadErr) ] =
  [(tag ex_sess, 600000001000)].
Proof. vm_compute. reflexivity. Qed.
