(* C10 property theorems about sequences: the station's registration table (coq/C08's model of
   RegisteredDecoys, tied to the code there and again by C10's own world lane) and the detector's session
   table side by side, connected by what the station publishes.  Statements + `exact lemma` only. *)
From CJ Require Import Common.Base C10.Model C10.Proofs C10.ModelWorld C10.ProofsWorld.

(* "The lifetime it requests is the station's own lifetime for that state ..., so the detector forwards a
   session for as long as the station would accept it" -- over every history.

   Take any assignment of (acceptable) announced fields to registrations, any attempt budget of the redis
   client, any initial detector table, and any history of
     - operations on the station's table: a registration tracked through either ingest entry point (new or a
       DUPLICATE of a tracked one, at any time), validated (AddRegistration, announces New), used (MarkActive,
       announces Update), the clock advancing, the station's sweep (RemoveOldRegistrations), lookups -- each
       publication possibly hit by connection faults, fewer than the client makes attempts;
     - events at the detector: its own sweep, packets of flows, lookups, direct inserts, other messages -- anything
       but a Clear.
   Then for every registration k that is alive in the station's table at age a in state u (unused / used), has been
   validated (a connection to its phantom finds it) or used, and is younger than the station's lifetime for that
   state, the detector holds k's session with an expiry e no earlier than (the instant k was tracked) + (that
   lifetime):  now + lifetime u <= e + a. *)
Theorem C10_held_over_histories :
  forall fields attempts D0 ws k a u,
  (forall k, reg_ok (fields k) = true) -> Forall (wok attempts) ws ->
  life_of (fst (wrun fields attempts D0 ws)) k = Some (a, u) ->
  (u = true \/ S.matches (fst (wrun fields attempts D0 ws)) k = true) ->
  a < station_lifetime u ->
  exists sess e, handle_s2d (announce (fields k) ONew) = DAdd sess /\
                 lookup (tag sess) (snd (wrun fields attempts D0 ws)) = Some e /\
                 S.now (fst (wrun fields attempts D0 ws)) + station_lifetime u <= e + a.
Proof. exact held_over_histories. Qed.
Print Assumptions C10_held_over_histories.

(* In the property's own words: whenever the station accepts a registration (a lookup on its phantom returns it
   and the station's expiry test, the one its sweep applies, keeps it), the detector forwards its session.
   The one instant excluded is age = lifetime exactly, where the station's test (age > lifetime) still keeps the
   registration while a detector sweep at that very nanosecond (expiry > now) may drop a session announced in the
   same nanosecond the registration was tracked. *)
Theorem C10_forwarded_while_station_accepts_over_histories :
  forall fields attempts D0 ws k,
  (forall k, reg_ok (fields k) = true) -> Forall (wok attempts) ws ->
  station_accepts (fst (wrun fields attempts D0 ws)) k = true ->
  (forall u, life_of (fst (wrun fields attempts D0 ws)) k <> Some (station_lifetime u, u)) ->
  detector_forwards (fields k) (snd (wrun fields attempts D0 ws)) = true.
Proof. exact forwarded_over_histories. Qed.
Print Assumptions C10_forwarded_while_station_accepts_over_histories.

(* What makes this true of duplicates: a registration that is already tracked and arrives again, through either
   entry point, leaves the table exactly as it was -- in particular its expiry clock -- and announces nothing.
   (A station that restarted the clock on a duplicate would accept for longer than it asked the detector to forward.) *)
Theorem C10_duplicate_changes_nothing :
  forall s k, S.tracked s k = true ->
  S.step s (S.TrackNX k) = s /\ S.step s (S.Track k) = s /\
  S.emits s (S.TrackNX k) = [] /\ S.emits s (S.Track k) = [].
Proof. exact duplicate_is_noop. Qed.
Print Assumptions C10_duplicate_changes_nothing.

(* a registration the station accepts is alive, validated and no older than 10 min (6 h once used) *)
Theorem C10_station_accepts_within_lifetime :
  forall h k, station_accepts (S.run h) k = true ->
  exists a u, life_of (S.run h) k = Some (a, u) /\ a <= station_lifetime u /\ S.gvalid h k = true.
Proof. exact station_accepts_life. Qed.
Print Assumptions C10_station_accepts_within_lifetime.

(* Shutdown after any history: the Clear that Cleanup() publishes, hit by fewer transient connection faults than the
   client makes attempts, leaves the detector with nothing. *)
Theorem C10_shutdown_clears_after_any_history :
  forall fields attempts D0 ws sc, survivable attempts sc = true ->
  snd (wstep fields attempts (wrun fields attempts D0 ws) (WCleanup sc)) = [].
Proof. exact cleanup_over_histories. Qed.
Print Assumptions C10_shutdown_clears_after_any_history.

(* The converse bound the property supports: the detector never holds a session further ahead than one active
   lifetime.  From a table within that bound, under this station's announcements (whatever the faults), packets,
   lookups, sweeps and shutdowns, every expiry is at most now + 6 h; with C10_dropped_at_first_sweep_after_expiry
   a session is gone at the first detector sweep 6 h after the last announcement or 5 min after the last packet. *)
Theorem C10_detector_at_most_active_lifetime_ahead :
  forall fields attempts D0 ws,
  within timeout_active D0 -> Forall wlocal ws ->
  within (S.now (fst (wrun fields attempts D0 ws)) + timeout_active) (snd (wrun fields attempts D0 ws)).
Proof. exact within_wrun. Qed.
Print Assumptions C10_detector_at_most_active_lifetime_ahead.

(* The hypotheses discharged for the concrete functions: the announced fields of every registration come out of the
   ingest path (parseRegMessage / NewRegistrationC2SWrapper on any message, any configuration, any well-formed
   selection), and the ingest worker's own steps for one message (TrackRegIfNotExists, then AddRegistration only for a
   registration that was not tracked) are histories the theorem covers. *)
Theorem C10_forwarded_while_station_accepts_ingested :
  forall fields attempts D0 ws k,
  (forall k, exists c w s, sel_wf s /\ In (fields k) (ingest c w s)) -> Forall (wok attempts) ws ->
  station_accepts (fst (wrun fields attempts D0 ws)) k = true ->
  (forall u, life_of (fst (wrun fields attempts D0 ws)) k <> Some (station_lifetime u, u)) ->
  detector_forwards (fields k) (snd (wrun fields attempts D0 ws)) = true.
Proof. exact forwarded_over_histories_ingested. Qed.
Print Assumptions C10_forwarded_while_station_accepts_ingested.

Theorem C10_ingest_worker_steps_in_scope :
  forall attempts s sc ks, survivable attempts sc = true -> Forall (wok attempts) (recv_events s ks sc).
Proof. intros a s sc ks. exact (recv_events_wok a s sc ks). Qed.
Print Assumptions C10_ingest_worker_steps_in_scope.
