(* C10: refutation witness for the OPEN known finding `publish-error:valid-but-unannounced`. *)
From CJ Require Import Common.Base C10.Model.

(* "a registration the station accepts connections for has been announced to the detector" *)
Definition usable_implies_announced : Prop :=
  forall publish_ok, fst (register_outcome publish_ok) = true -> snd (register_outcome publish_ok) = true.

Lemma usable_implies_announced_refuted : exists publish_ok,
  fst (register_outcome publish_ok) = true /\ snd (register_outcome publish_ok) = false.
Proof. exists false. vm_compute. split; reflexivity. Qed.

Lemma usable_implies_announced_false : ~ usable_implies_announced.
Proof. intros H. specialize (H false eq_refl). discriminate. Qed.
