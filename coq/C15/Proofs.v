From CJ Require Import Common.Base Common.BaseProofs C15.Model.
From Coq Require Import Lia ZifyN ZifyNat ZifyBool.
Ltac Zify.zify_post_hook ::= Z.div_mod_to_equations.

Lemma take_all n (l : bytes) : blen l <= n -> take n l = l.
Proof. unfold take, blen. intros H. apply firstn_all2. lia. Qed.

Lemma take_app_exact n (a b : bytes) : blen a = n -> take n (a ++ b) = a.
Proof.
  unfold take, blen. intros H.
  replace (N.to_nat n) with (length a + 0)%nat by lia.
  rewrite firstn_app_2. cbn. apply app_nil_r.
Qed.

Lemma drop_app_exact n (a b : bytes) : blen a = n -> drop n (a ++ b) = b.
Proof.
  unfold drop, blen. intros H.
  replace (N.to_nat n) with (length a + 0)%nat by lia.
  rewrite skipn_app, Nat.add_comm, Nat.add_sub. cbn.
  rewrite skipn_all2 by lia. reflexivity.
Qed.

Lemma blen_take n (l : bytes) : n <= blen l -> blen (take n l) = n.
Proof. unfold take, blen. intros H. rewrite firstn_length. lia. Qed.

Lemma blen_drop n (l : bytes) : blen (drop n l) = blen l - n.
Proof. unfold drop, blen. rewrite skipn_length. lia. Qed.

Lemma take_drop n (l : bytes) : take n l ++ drop n l = l.
Proof. apply firstn_skipn. Qed.

(* ---- request format ---- *)
Lemma request_roundtrip p e :
  add_request_format p = Some e -> remove_request_format e = Some p.
Proof.
  unfold add_request_format. destruct (blen p <=? 255) eqn:Hl; [|discriminate].
  intros [= <-]. cbn. destruct (blen p <? blen p) eqn:H2; [lia|].
  rewrite take_all by lia. reflexivity.
Qed.

Lemma request_rejects p : 255 < blen p -> add_request_format p = None.
Proof. unfold add_request_format. intros H. destruct (blen p <=? 255) eqn:Hl; [lia|reflexivity]. Qed.

Lemma request_accepts p : blen p <= 255 -> exists e, add_request_format p = Some e.
Proof. unfold add_request_format. intros H. destruct (blen p <=? 255) eqn:Hl; [eauto|lia]. Qed.

(* ---- response format ---- *)
Lemma response_roundtrip p e :
  add_response_format p = Some e -> remove_response_format e = Some p.
Proof.
  unfold add_response_format. destruct (blen p <=? 65535) eqn:Hl; [|discriminate].
  intros [= <-]. cbn [remove_response_format].
  assert (E : 256 * (blen p / 256) + blen p mod 256 = blen p) by lia.
  rewrite E. destruct (blen p <? blen p) eqn:H2; [lia|].
  rewrite take_all by lia. reflexivity.
Qed.

Lemma response_rejects p : 65535 < blen p -> add_response_format p = None.
Proof. unfold add_response_format. intros H. destruct (blen p <=? 65535) eqn:Hl; [lia|reflexivity]. Qed.

(* ---- TXT ---- *)
Lemma enc_txt_fuel_nonempty f p : (0 < f)%nat -> enc_txt_fuel f p <> [].
Proof. destruct f; [lia|]. intros _. cbn. destruct (255 <? blen p); discriminate. Qed.

Lemma txt_roundtrip_gen g : forall p acc f,
  (length p < g)%nat -> (length (enc_txt_fuel g p) < f)%nat ->
  dec_txt_fuel f (enc_txt_fuel g p) acc = Some (acc ++ p).
Proof.
  induction g as [|g IH]; intros p acc f Hg Hf; [lia|].
  cbn [enc_txt_fuel] in *. destruct (255 <? blen p) eqn:Hbig.
  - destruct f as [|f]; [cbn in Hf; lia|]. cbn [dec_txt_fuel].
    assert (Ht : blen (take 255 p) = 255) by (apply blen_take; lia).
    set (E := enc_txt_fuel g (drop 255 p)) in *.
    destruct (blen (take 255 p ++ E) <? 255) eqn:H1.
    { rewrite blen_app in H1. lia. }
    rewrite take_app_exact, drop_app_exact by assumption.
    assert (HE : E <> []). { apply enc_txt_fuel_nonempty. unfold blen in Hbig. clear - Hg Hbig. apply N.ltb_lt in Hbig. lia. }
    destruct E as [|e0 E'] eqn:HEq; [congruence|]. rewrite <- HEq.
    subst E. rewrite IH.
    + rewrite <- app_assoc, take_drop. reflexivity.
    + pose proof (blen_drop 255 p) as Hd. unfold blen in Hd, Hbig. lia.
    + rewrite HEq. cbn [length] in Hf |- *. rewrite app_length in Hf. cbn [length] in Hf. lia.
  - destruct f as [|f]; [cbn in Hf; lia|]. cbn [dec_txt_fuel].
    destruct (blen p <? blen p) eqn:H1; [lia|].
    rewrite take_all by lia.
    replace (drop (blen p) p) with (@nil byte).
    + reflexivity.
    + symmetry. unfold drop, blen. apply skipn_all2. lia.
Qed.

Lemma txt_roundtrip p : dec_txt (enc_txt p) = Some p.
Proof.
  unfold dec_txt, enc_txt. rewrite txt_roundtrip_gen; [reflexivity| lia | lia].
Qed.
