(* C15 model, part 2: DNS names (pkg/registrars/dns-registrar/dns/dns.go:
   NewName, messageBuilder.WriteName, readName, Name.TrimSuffix) and the
   requester's label chunking (requester/dns.go: chunks, send).
   Definitions only; executable. *)
From CJ Require Export Common.Base.

Definition label := bytes.
Definition name := list label.

Fixpoint name_eqb (a b : name) : bool :=
  match a, b with
  | [], [] => true
  | x :: a', y :: b' => bytes_eqb x y && name_eqb a' b'
  | _, _ => false
  end.

(* ---- NewName ---- *)
Inductive name_err := EZeroLabel | ELabelTooLong | ENameTooLong.

Fixpoint labels_check (n : name) : option name_err :=
  match n with
  | [] => None
  | l :: r => if blen l =? 0 then Some EZeroLabel
              else if 63 <? blen l then Some ELabelTooLong
              else labels_check r
  end.

(* length of the uncompressed wire form: one length octet per label, the labels, the root octet *)
Fixpoint name_wire_len (n : name) : N :=
  match n with
  | [] => 1
  | l :: r => 1 + blen l + name_wire_len r
  end.

Definition new_name (n : name) : result name_err name :=
  match labels_check n with
  | Some e => Err e
  | None => if 255 <? name_wire_len n then Err ENameTooLong else Ok n
  end.

Definition name_ok (n : name) : bool :=
  match new_name n with Ok _ => true | _ => false end.

(* ---- messageBuilder.WriteName with the suffix cache ----
   The cache maps a suffix (Go: Name.String() of it, an injective rendering of
   the label list) to the offset where it was written and to the number of
   compression pointers a reader follows when it decodes the name stored at
   that offset.  A pointer is emitted only to offsets that fit 14 bits and
   whose chain stays within the reader's limit (compressionPointerLimit). *)
Definition ptr_limit : N := 10.

Record centry := { ce_key : name; ce_off : N; ce_depth : N }.
Definition cache := list centry.     (* newest entry first: a later write overrides *)

Fixpoint cache_find (c : cache) (k : name) : option (N * N) :=
  match c with
  | [] => None
  | e :: r => if name_eqb (ce_key e) k then Some (ce_off e, ce_depth e) else cache_find r k
  end.

Definition ptr_usable (off depth : N) : bool := (off <=? 16383) && (depth <? ptr_limit).

(* bytes written, (suffix, offset) of the labels written verbatim, pointers a reader will follow.
   None = the Go code panics (a label of length 0 or above 63 is about to be written). *)
Fixpoint write_name_aux (c : cache) (off : N) (n : name) : option (bytes * list (name * N) * N) :=
  match n with
  | [] => Some ([0], [], 0)
  | l :: rest =>
    let verbatim :=
      if (blen l =? 0) || (63 <? blen l) then None
      else match write_name_aux c (off + 1 + blen l) rest with
           | None => None
           | Some (bs, ents, d) => Some (blen l :: l ++ bs, (n, off) :: ents, d)
           end in
    match cache_find c n with
    | Some (p, d) =>
      if ptr_usable p d then Some ([192 + p / 256; p mod 256], [], d + 1) else verbatim
    | None => verbatim
    end
  end.

Definition mk_entries (ents : list (name * N)) (d : N) : cache :=
  map (fun e => {| ce_key := fst e; ce_off := snd e; ce_depth := d |}) ents.

Definition write_name (c : cache) (off : N) (n : name) : option (bytes * cache) :=
  match write_name_aux c off n with
  | None => None
  | Some (bs, ents, d) => Some (bs, mk_entries ents d ++ c)
  end.

(* the uncompressed form (what a fresh builder writes for a single name) *)
Fixpoint name_wire (n : name) : bytes :=
  match n with
  | [] => [0]
  | l :: r => blen l :: l ++ name_wire r
  end.

(* ---- readName ---- *)
Inductive rd_err := EEof | EReserved | ETooManyPtr | ERdNameTooLong | ETrailing.

Inductive seg :=
| SegEnd (acc : name) (pos : N)            (* root octet read; pos = just after it *)
| SegPtr (acc : name) (target pos : N)     (* pointer read; pos = just after its two octets *)
| SegErr (e : rd_err).

(* s = the buffer from position pos on; acc = labels so far, in reverse *)
Fixpoint read_seg (fuel : nat) (s : bytes) (pos : N) (acc : name) : seg :=
  match fuel with
  | O => SegErr EEof
  | S f =>
    match s with
    | [] => SegErr EEof
    | b :: s1 =>
      if b <? 64 then
        if b =? 0 then SegEnd acc (pos + 1)
        else if blen s1 <? b then SegErr EEof
        else read_seg f (drop b s1) (pos + 1 + b) (take b s1 :: acc)
      else if 192 <=? b then
        match s1 with
        | [] => SegErr EEof
        | lo :: _ => SegPtr acc (256 * (b - 192) + lo) (pos + 2)
        end
      else SegErr EReserved
    end
  end.

Definition seg_at (buf : bytes) (pos : N) (acc : name) : seg :=
  read_seg (S (length buf)) (drop pos buf) pos acc.

(* follow pointers; budget = how many more may be followed *)
Fixpoint read_follow (budget : nat) (buf : bytes) (target : N) (acc : name) : result rd_err name :=
  match budget with
  | O => Err ETooManyPtr
  | S b =>
    match seg_at buf target acc with
    | SegEnd acc' _ => Ok acc'
    | SegPtr acc' t _ => read_follow b buf t acc'
    | SegErr e => Err e
    end
  end.

Definition finish_name (racc : name) (pos : N) : result rd_err (name * N) :=
  let n := rev racc in
  if 255 <? name_wire_len n then Err ERdNameTooLong else Ok (n, pos).

(* readName: the labels and the position the reader is left at *)
Definition read_name (buf : bytes) (pos : N) : result rd_err (name * N) :=
  match seg_at buf pos [] with
  | SegEnd acc p => finish_name acc p
  | SegPtr acc t p =>
    match read_follow (N.to_nat ptr_limit) buf t acc with
    | Ok acc' => finish_name acc' p
    | Err e => Err e
    | Panic => Panic
    end
  | SegErr e => Err e
  end.

(* ---- Name.TrimSuffix (ASCII case-insensitive on the suffix labels) ---- *)
Definition lower_byte (b : byte) : byte := if (65 <=? b) && (b <=? 90) then b + 32 else b.
Definition upper_byte (b : byte) : byte := if (97 <=? b) && (b <=? 122) then b - 32 else b.
Definition lower (l : bytes) : bytes := map lower_byte l.
Definition upper (l : bytes) : bytes := map upper_byte l.

Definition trim_suffix (n suffix : name) : option name :=
  if (length n <? length suffix)%nat then None
  else let split := (length n - length suffix)%nat in
       if name_eqb (map lower (skipn split n)) (map lower suffix) then Some (firstn split n) else None.

(* ---- requester: chunks ---- *)
Fixpoint chunks_fuel (fuel : nat) (n : N) (p : bytes) : list bytes :=
  match fuel with
  | O => []
  | S f => match p with
           | [] => []
           | _ => take n p :: chunks_fuel f n (drop n p)
           end
  end.
Definition chunks (n : N) (p : bytes) : list bytes := chunks_fuel (length p) n p.

(* requester.send: payload -> query name (coding = lower-cased unpadded base32, abstract) *)
Definition request_name (enc32 : bytes -> bytes) (domain : name) (p : bytes) : result name_err name :=
  new_name (chunks 63 (enc32 p) ++ domain).

(* responder.responseFor: query name -> payload *)
Definition name_payload (dec32 : bytes -> option bytes) (domain : name) (n : name) : option bytes :=
  match trim_suffix n domain with
  | None => None
  | Some prefix => dec32 (upper (concat prefix))
  end.

(* ---- Name.String: the key of the builder's name cache in the Go code ----
   Labels separated by dots; bytes outside [0-9A-Za-z-] are written as \xXX (lower-case hex). *)
Definition is_plain (b : byte) : bool :=
  (b =? 45) || ((48 <=? b) && (b <=? 57)) || ((65 <=? b) && (b <=? 90)) || ((97 <=? b) && (b <=? 122)).
Definition hexdigit (v : N) : byte := if v <? 10 then 48 + v else 87 + v.
Definition esc_byte (b : byte) : bytes :=
  if is_plain b then [b] else [92; 120; hexdigit (b / 16); hexdigit (b mod 16)].
Definition esc_label (l : label) : bytes := flat_map esc_byte l.
Definition dotted (r : name) : bytes := flat_map (fun l => 46 :: esc_label l) r.
Definition name_string (n : name) : bytes :=
  match n with
  | [] => [46]
  | l :: r => esc_label l ++ dotted r
  end.

(* the cache lookup as the Go code performs it: comparing the rendered strings *)
Fixpoint cache_find_str (c : cache) (k : name) : option (N * N) :=
  match c with
  | [] => None
  | e :: r => if bytes_eqb (name_string (ce_key e)) (name_string k) then Some (ce_off e, ce_depth e) else cache_find_str r k
  end.

(* TrimSuffix with the case folding left open: Go uses bytes.ToLower, which lower-cases ASCII letters only when
   every byte is ASCII and otherwise maps the string rune by rune (UTF-8 aware; invalid bytes become U+FFFD).
   `trim_suffix` above is the instance with the ASCII folding `lower`. *)
Definition trim_suffix_gen (lw : bytes -> bytes) (n suffix : name) : option name :=
  if (length n <? length suffix)%nat then None
  else let split := (length n - length suffix)%nat in
       if name_eqb (map lw (skipn split n)) (map lw suffix) then Some (firstn split n) else None.
Definition ascii_label (l : label) : bool := forallb (fun c => c <? 128) l.
Definition ascii_name (n : name) : bool := forallb ascii_label n.
