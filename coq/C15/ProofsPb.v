(* C15 proofs, part 7: protobuf wire codec round trips. *)
From CJ Require Import Common.Base Common.BaseProofs C15.Model C15.Proofs C15.ModelAny C15.ModelPb.
From Coq Require Import Lia ZifyN ZifyNat ZifyBool.
Ltac Zify.zify_post_hook ::= Z.div_mod_to_equations.

(* ---- varint ---- *)
Lemma varint_roundtrip_gen k : forall n shift acc rest,
  (1 <= k)%nat -> n < 2 * 128 ^ N.of_nat (k - 1) ->
  varint_dec_aux k shift acc (varint_enc_fuel k n ++ rest) = Some (acc + n * 2 ^ shift, rest).
Proof.
  induction k as [|k IH]; intros n shift acc rest Hk Hn; [lia|].
  cbn [varint_enc_fuel]. destruct (n <? 128) eqn:E.
  - cbn [app varint_dec_aux]. rewrite E. destruct k; [|reflexivity].
    cbn in Hn. destruct (1 <? n) eqn:E1; [lia|reflexivity].
  - assert (Hk1 : (1 <= k)%nat) by (destruct k; [cbn in Hn; lia|lia]).
    cbn [app varint_dec_aux].
    destruct (128 + n mod 128 <? 128) eqn:E2; [lia|].
    rewrite IH; [|exact Hk1|].
    + f_equal. f_equal. replace (128 + n mod 128 - 128) with (n mod 128) by lia.
      rewrite N.pow_add_r. change (2 ^ 7) with 128.
      assert (H : n = 128 * (n / 128) + n mod 128) by (apply N.div_mod; lia).
      rewrite H at 3. ring.
    + replace (N.of_nat (S k - 1)) with (N.succ (N.of_nat (k - 1))) in Hn by lia.
      rewrite N.pow_succ_r' in Hn. apply N.div_lt_upper_bound; lia.
Qed.

Lemma varint_roundtrip n rest : n < two64 -> varint_dec (varint_enc n ++ rest) = Some (n, rest).
Proof.
  intros H. unfold varint_dec, varint_enc. rewrite varint_roundtrip_gen; [|lia|exact H].
  rewrite N.pow_0_r, N.mul_1_r, N.add_0_l. reflexivity.
Qed.

Lemma varint_enc_nonempty n : varint_enc n <> [].
Proof. unfold varint_enc. cbn [varint_enc_fuel]. destruct (n <? 128); discriminate. Qed.

(* ---- raw fields ---- *)
Lemma enc_field_nonempty f : enc_field f <> [].
Proof.
  unfold enc_field. pose proof (varint_enc_nonempty (fst f * 8 + wtype (snd f))).
  destruct (varint_enc (fst f * 8 + wtype (snd f))); [congruence|discriminate].
Qed.

Lemma enc_field_length f : (1 <= length (enc_field f))%nat.
Proof. pose proof (enc_field_nonempty f). destruct (enc_field f); [congruence|cbn; lia]. Qed.

Lemma dec_one_roundtrip num v rest :
  field_wf (num, v) -> dec_one (enc_field (num, v) ++ rest) = Ok ((num, v), rest).
Proof.
  intros [Hnum Hv]. cbn [fst snd] in *. unfold dec_one, enc_field. cbn [fst snd]. rewrite <- app_assoc.
  assert (Ht : num * 8 + wtype v < two64) by (unfold max_fnum, two64 in *; destruct v; cbn; lia).
  rewrite varint_roundtrip by exact Ht.
  assert (Hdiv : (num * 8 + wtype v) / 8 = num) by (destruct v; cbn; lia).
  assert (Hmod : (num * 8 + wtype v) mod 8 = wtype v) by (destruct v; cbn; lia).
  rewrite Hdiv, Hmod.
  destruct ((num =? 0) || (max_fnum <? num)) eqn:Hb; [lia|].
  destruct v as [n|b|b|b]; cbn [wtype enc_wval wval_wf] in *.
  - rewrite varint_roundtrip by exact Hv. reflexivity.
  - destruct (blen (b ++ rest) <? 8) eqn:E; [rewrite blen_app in E; lia|].
    rewrite take_app_exact, drop_app_exact by exact Hv. reflexivity.
  - rewrite <- app_assoc. rewrite varint_roundtrip by exact Hv.
    destruct (blen (b ++ rest) <? blen b) eqn:E; [rewrite blen_app in E; lia|].
    rewrite take_app_exact, drop_app_exact by reflexivity. reflexivity.
  - destruct (blen (b ++ rest) <? 4) eqn:E; [rewrite blen_app in E; lia|].
    rewrite take_app_exact, drop_app_exact by exact Hv. reflexivity.
Qed.

Lemma dec_fields_fuel_step fuel s : s <> [] ->
  dec_fields_fuel (S fuel) s =
  match dec_one s with
  | Ok (fld, rest) => match dec_fields_fuel fuel rest with Ok fs => Ok (fld :: fs) | e => e end
  | Err e => Err e
  | Panic => Panic
  end.
Proof. destruct s; [congruence|reflexivity]. Qed.

Lemma dec_fields_fuel_roundtrip fs : forall fuel,
  Forall field_wf fs -> (length (enc_fields fs) <= fuel)%nat ->
  dec_fields_fuel fuel (enc_fields fs) = Ok fs.
Proof.
  induction fs as [|[num v] fs IH]; intros fuel Hwf Hf.
  - destruct fuel; reflexivity.
  - inversion Hwf as [|? ? Hfw Hrest]; subst.
    unfold enc_fields in *. cbn [flat_map] in *. fold (enc_fields fs) in *.
    pose proof (enc_field_length (num, v)) as L1. rewrite app_length in Hf.
    destruct fuel as [|fuel]; [lia|].
    rewrite dec_fields_fuel_step.
    2:{ intros E. apply app_eq_nil in E as [E _]. eapply enc_field_nonempty; eauto. }
    rewrite dec_one_roundtrip by exact Hfw.
    unfold enc_fields in *. rewrite IH; [reflexivity|exact Hrest|]. lia.
Qed.

Lemma dec_fields_roundtrip fs : Forall field_wf fs -> dec_fields (enc_fields fs) = Ok fs.
Proof. intros H. apply dec_fields_fuel_roundtrip; [exact H|lia]. Qed.

(* ---- scalars ---- *)
Lemma int32_roundtrip z : int32_ok z -> int32_of_varint (varint_of_int32 z) = z.
Proof.
  unfold int32_ok, int32_of_varint, varint_of_int32, two64. intros H.
  destruct (z <? 0)%Z eqn:E.
  - replace ((18446744073709551616 - Z.to_N (- z)) mod 4294967296) with (4294967296 - Z.to_N (- z)) by lia.
    destruct (4294967296 - Z.to_N (- z) <? 2147483648) eqn:E2; lia.
  - replace (Z.to_N z mod 4294967296) with (Z.to_N z) by lia.
    destruct (Z.to_N z <? 2147483648) eqn:E2; lia.
Qed.

Lemma varint_of_int32_lt z : int32_ok z -> varint_of_int32 z < two64.
Proof. unfold int32_ok, varint_of_int32, two64. intros H. destruct (z <? 0)%Z eqn:E; lia. Qed.

Lemma bool_roundtrip b : bool_of_varint (varint_of_bool b) = b.
Proof. destruct b; reflexivity. Qed.

(* ---- typed layer ---- *)
Lemma opt_field_wf {A} num (f : A -> wval) (P : A -> Prop) o :
  1 <= num <= max_fnum -> (forall a, P a -> wval_wf (f a)) -> opt_ok P o -> Forall field_wf (opt_field num f o).
Proof.
  intros Hn Hf Ho. destruct o as [a|]; [|constructor]. cbn. constructor; [|constructor].
  split; [exact Hn|apply Hf; exact Ho].
Qed.

Lemma bool_varint_wf b : wval_wf (WVarint (varint_of_bool b)).
Proof. destruct b; cbn; unfold two64; lia. Qed.

Ltac fw H := unfold is_fw in H; cbn [fst snd wtype] in H.

(* GenericTransportParams *)
Lemma generic_unknown_fold u : forall m, Forall unknown_for_generic u ->
  fold_left step_generic u m = {| g_rand := g_rand m; g_unk := g_unk m ++ u |}.
Proof.
  induction u as [|[num v] u IH]; intros m H; cbn [fold_left].
  - rewrite app_nil_r. destruct m; reflexivity.
  - inversion H as [|? ? Hf Hr]; subst. rewrite IH by exact Hr. unfold unknown_for_generic in Hf. fw Hf.
    unfold step_generic. cbn [fst snd]. destruct v; cbn [wtype] in Hf;
      try (cbn [g_rand g_unk]; rewrite <- app_assoc; reflexivity).
    destruct (num =? 13) eqn:E; [cbn in Hf; discriminate|]. cbn [g_rand g_unk]. rewrite <- app_assoc. reflexivity.
Qed.

Definition generic_wf (m : generic_tp) : Prop := Forall field_wf (g_unk m) /\ Forall unknown_for_generic (g_unk m).

Lemma generic_roundtrip m : generic_wf m -> unmarshal_generic (marshal_generic m) = Ok m.
Proof.
  intros [Hw Hu]. unfold unmarshal_generic, marshal_generic.
  rewrite dec_fields_roundtrip.
  2:{ apply Forall_app. split; [|exact Hw]. apply (opt_field_wf 13 _ (fun _ => True)); [unfold max_fnum; lia| |destruct (g_rand m); exact I].
      intros a _. apply bool_varint_wf. }
  rewrite fold_left_app, generic_unknown_fold by exact Hu.
  destruct m as [[b|] u]; cbn; [rewrite bool_roundtrip|]; reflexivity.
Qed.

(* PrefixTransportParams *)
Lemma prefix_unknown_fold u : forall m, Forall unknown_for_prefix u ->
  fold_left step_prefix u m = {| p_id := p_id m; p_prefix := p_prefix m; p_flush := p_flush m; p_rand := p_rand m; p_unk := p_unk m ++ u |}.
Proof.
  induction u as [|[num v] u IH]; intros m H; cbn [fold_left].
  - rewrite app_nil_r. destruct m; reflexivity.
  - inversion H as [|? ? Hf Hr]; subst. rewrite IH by exact Hr. destruct Hf as (H1 & H2 & H3 & H4). fw H1. fw H2. fw H3. fw H4.
    unfold step_prefix. cbn [fst snd]. destruct v; cbn [wtype] in *;
      try (cbn [p_id p_prefix p_flush p_rand p_unk]; rewrite <- app_assoc; reflexivity).
    + destruct (num =? 1) eqn:E1; [cbn in H1; discriminate|]. destruct (num =? 3) eqn:E3; [cbn in H3; discriminate|].
      destruct (num =? 13) eqn:E13; [cbn in H4; discriminate|]. cbn [p_id p_prefix p_flush p_rand p_unk]. rewrite <- app_assoc. reflexivity.
    + destruct (num =? 2) eqn:E2; [cbn in H2; discriminate|]. cbn [p_id p_prefix p_flush p_rand p_unk]. rewrite <- app_assoc. reflexivity.
Qed.

Definition prefix_wf (m : prefix_tp) : Prop :=
  opt_ok int32_ok (p_id m) /\ opt_ok (fun b => blen b < two64) (p_prefix m) /\ opt_ok int32_ok (p_flush m) /\
  Forall field_wf (p_unk m) /\ Forall unknown_for_prefix (p_unk m).

Lemma prefix_roundtrip m : prefix_wf m -> unmarshal_prefix (marshal_prefix m) = Ok m.
Proof.
  intros (Hi & Hp & Hfl & Hw & Hu). unfold unmarshal_prefix, marshal_prefix.
  rewrite dec_fields_roundtrip.
  2:{ repeat (apply Forall_app; split); try exact Hw.
      - apply (opt_field_wf 1 _ int32_ok); [unfold max_fnum; lia| |exact Hi]. intros a Ha. cbn. apply varint_of_int32_lt. exact Ha.
      - apply (opt_field_wf 2 _ (fun b => blen b < two64)); [unfold max_fnum; lia| |exact Hp]. intros a Ha. exact Ha.
      - apply (opt_field_wf 3 _ int32_ok); [unfold max_fnum; lia| |exact Hfl]. intros a Ha. cbn. apply varint_of_int32_lt. exact Ha.
      - apply (opt_field_wf 13 _ (fun _ => True)); [unfold max_fnum; lia| |destruct (p_rand m); exact I]. intros a _. apply bool_varint_wf. }
  rewrite !fold_left_app, prefix_unknown_fold by exact Hu.
  destruct m as [[i|] [p|] [f|] [r|] u]; cbn in Hi, Hfl |- *;
    repeat rewrite int32_roundtrip by assumption; repeat rewrite bool_roundtrip; reflexivity.
Qed.

(* Addr *)
Lemma addr_unknown_fold u : forall m, Forall unknown_for_addr u ->
  fold_left step_addr u m = {| a_ip := a_ip m; a_port := a_port m; a_unk := a_unk m ++ u |}.
Proof.
  induction u as [|[num v] u IH]; intros m H; cbn [fold_left].
  - rewrite app_nil_r. destruct m; reflexivity.
  - inversion H as [|? ? Hf Hr]; subst. rewrite IH by exact Hr. destruct Hf as (H1 & H2). fw H1. fw H2.
    unfold step_addr. cbn [fst snd]. destruct v; cbn [wtype] in *;
      try (cbn [a_ip a_port a_unk]; rewrite <- app_assoc; reflexivity).
    + destruct (num =? 2) eqn:E; [cbn in H2; discriminate|]. cbn [a_ip a_port a_unk]. rewrite <- app_assoc. reflexivity.
    + destruct (num =? 1) eqn:E; [cbn in H1; discriminate|]. cbn [a_ip a_port a_unk]. rewrite <- app_assoc. reflexivity.
Qed.

Definition addr_wf (m : addr_pb) : Prop :=
  opt_ok (fun b => blen b < two64) (a_ip m) /\ opt_ok (fun n => n < 4294967296) (a_port m) /\
  Forall field_wf (a_unk m) /\ Forall unknown_for_addr (a_unk m).

Lemma addr_fields_wf m : addr_wf m ->
  Forall field_wf (opt_field 1 WBytes (a_ip m) ++ opt_field 2 WVarint (a_port m) ++ a_unk m).
Proof.
  intros (Hi & Hp & Hw & Hu). repeat (apply Forall_app; split); try exact Hw.
  - apply (opt_field_wf 1 _ (fun b => blen b < two64)); [unfold max_fnum; lia| |exact Hi]. intros a Ha. exact Ha.
  - apply (opt_field_wf 2 _ (fun n => n < 4294967296)); [unfold max_fnum; lia| |exact Hp]. intros a Ha. cbn. unfold two64. lia.
Qed.

Lemma addr_roundtrip m : addr_wf m -> merge_addr None (marshal_addr m) = Ok m.
Proof.
  intros H. pose proof (addr_fields_wf m H) as Hfw. destruct H as (Hi & Hp & Hw & Hu).
  unfold merge_addr, marshal_addr. rewrite dec_fields_roundtrip by exact Hfw.
  rewrite !fold_left_app, addr_unknown_fold by exact Hu.
  destruct m as [[i|] [p|] u]; cbn in Hp |- *; try reflexivity;
    unfold uint32_of_varint; rewrite N.mod_small by exact Hp; reflexivity.
Qed.

(* DTLSTransportParams *)
Lemma dtls_unknown_fold u : forall m, Forall unknown_for_dtls u ->
  fold_left step_dtls u (Ok m) =
  Ok {| d_src4 := d_src4 m; d_src6 := d_src6 m; d_rand := d_rand m; d_unordered := d_unordered m; d_unk := d_unk m ++ u |}.
Proof.
  induction u as [|[num v] u IH]; intros m H; cbn [fold_left].
  - rewrite app_nil_r. destruct m; reflexivity.
  - inversion H as [|? ? Hf Hr]; subst. destruct Hf as (H1 & H2 & H3 & H4). fw H1. fw H2. fw H3. fw H4.
    assert (E : step_dtls (Ok m) (num, v) =
                Ok {| d_src4 := d_src4 m; d_src6 := d_src6 m; d_rand := d_rand m; d_unordered := d_unordered m; d_unk := d_unk m ++ [(num, v)] |}).
    { unfold step_dtls. cbn [fst snd]. destruct v; cbn [wtype] in *; try reflexivity.
      - destruct (num =? 3) eqn:E3; [cbn in H3; discriminate|]. destruct (num =? 4) eqn:E4; [cbn in H4; discriminate|]. reflexivity.
      - destruct (num =? 1) eqn:E1; [cbn in H1; discriminate|]. destruct (num =? 2) eqn:E2; [cbn in H2; discriminate|]. reflexivity. }
    rewrite E, IH by exact Hr. cbn [d_src4 d_src6 d_rand d_unordered d_unk]. rewrite <- app_assoc. reflexivity.
Qed.

Definition addr_field_ok (a : addr_pb) : Prop := addr_wf a /\ blen (marshal_addr a) < two64.
Definition dtls_wf (m : dtls_tp) : Prop :=
  opt_ok addr_field_ok (d_src4 m) /\ opt_ok addr_field_ok (d_src6 m) /\ Forall field_wf (d_unk m) /\ Forall unknown_for_dtls (d_unk m).

Lemma step_dtls_src4 m a : d_src4 m = None -> addr_wf a ->
  step_dtls (Ok m) (1, WBytes (marshal_addr a)) =
  Ok {| d_src4 := Some a; d_src6 := d_src6 m; d_rand := d_rand m; d_unordered := d_unordered m; d_unk := d_unk m |}.
Proof. intros E H. unfold step_dtls. cbn [fst snd N.eqb Pos.eqb]. rewrite E, (addr_roundtrip a H). reflexivity. Qed.
Lemma step_dtls_src6 m a : d_src6 m = None -> addr_wf a ->
  step_dtls (Ok m) (2, WBytes (marshal_addr a)) =
  Ok {| d_src4 := d_src4 m; d_src6 := Some a; d_rand := d_rand m; d_unordered := d_unordered m; d_unk := d_unk m |}.
Proof. intros E H. unfold step_dtls. cbn [fst snd N.eqb Pos.eqb]. rewrite E, (addr_roundtrip a H). reflexivity. Qed.
Lemma step_dtls_rand m b :
  step_dtls (Ok m) (3, WVarint (varint_of_bool b)) =
  Ok {| d_src4 := d_src4 m; d_src6 := d_src6 m; d_rand := Some b; d_unordered := d_unordered m; d_unk := d_unk m |}.
Proof. unfold step_dtls. cbn [fst snd N.eqb Pos.eqb]. rewrite bool_roundtrip. reflexivity. Qed.
Lemma step_dtls_unordered m b :
  step_dtls (Ok m) (4, WVarint (varint_of_bool b)) =
  Ok {| d_src4 := d_src4 m; d_src6 := d_src6 m; d_rand := d_rand m; d_unordered := Some b; d_unk := d_unk m |}.
Proof. unfold step_dtls. cbn [fst snd N.eqb Pos.eqb]. rewrite bool_roundtrip. reflexivity. Qed.

Lemma dtls_roundtrip m : dtls_wf m -> unmarshal_dtls (marshal_dtls m) = Ok m.
Proof.
  intros (H4 & H6 & Hw & Hu). unfold unmarshal_dtls, marshal_dtls.
  rewrite dec_fields_roundtrip.
  2:{ repeat (apply Forall_app; split); try exact Hw.
      - apply (opt_field_wf 1 _ addr_field_ok); [unfold max_fnum; lia| |exact H4]. intros a [_ Ha]. exact Ha.
      - apply (opt_field_wf 2 _ addr_field_ok); [unfold max_fnum; lia| |exact H6]. intros a [_ Ha]. exact Ha.
      - apply (opt_field_wf 3 _ (fun _ => True)); [unfold max_fnum; lia| |destruct (d_rand m); exact I]. intros a _. apply bool_varint_wf.
      - apply (opt_field_wf 4 _ (fun _ => True)); [unfold max_fnum; lia| |destruct (d_unordered m); exact I]. intros a _. apply bool_varint_wf. }
  rewrite !fold_left_app.
  destruct m as [[a4|] [a6|] [r|] [un|] u]; cbn [opt_field fold_left d_src4 d_src6 d_rand d_unordered d_unk opt_ok] in *;
    try (rewrite step_dtls_src4 by (try reflexivity; apply H4));
    try (rewrite step_dtls_src6 by (try reflexivity; apply H6));
    try rewrite step_dtls_rand; try rewrite step_dtls_unordered;
    rewrite dtls_unknown_fold by exact Hu; reflexivity.
Qed.

(* Any *)
Lemma any_unknown_fold u : forall m, Forall unknown_for_any u ->
  fold_left step_any u (Ok m) = Ok {| y_url := y_url m; y_value := y_value m; y_unk := y_unk m ++ u |}.
Proof.
  induction u as [|[num v] u IH]; intros m H; cbn [fold_left].
  - rewrite app_nil_r. destruct m; reflexivity.
  - inversion H as [|? ? Hf Hr]; subst. destruct Hf as (H1 & H2). fw H1. fw H2.
    assert (E : step_any (Ok m) (num, v) = Ok {| y_url := y_url m; y_value := y_value m; y_unk := y_unk m ++ [(num, v)] |}).
    { unfold step_any. cbn [fst snd]. destruct v; cbn [wtype] in *; try reflexivity.
      destruct (num =? 1) eqn:E1; [cbn in H1; discriminate|]. destruct (num =? 2) eqn:E2; [cbn in H2; discriminate|]. reflexivity. }
    rewrite E, IH by exact Hr. cbn [y_url y_value y_unk]. rewrite <- app_assoc. reflexivity.
Qed.

Definition any_wf (m : any_pb) : Prop :=
  ascii (y_url m) = true /\ blen (y_url m) < two64 /\ blen (y_value m) < two64 /\
  Forall field_wf (y_unk m) /\ Forall unknown_for_any (y_unk m).

Lemma ne_field_wf num b : 1 <= num <= max_fnum -> blen b < two64 -> Forall field_wf (ne_field num b).
Proof. intros Hn Hb. destruct b; [constructor|]. cbn [ne_field]. constructor; [split; [exact Hn|exact Hb]|constructor]. Qed.

Lemma any_roundtrip m : any_wf m -> unmarshal_any (marshal_any m) = Ok m.
Proof.
  intros (Ha & Hl & Hv & Hw & Hu). unfold unmarshal_any, marshal_any.
  rewrite dec_fields_roundtrip.
  2:{ repeat (apply Forall_app; split); try exact Hw; apply ne_field_wf; try assumption; unfold max_fnum; lia. }
  rewrite !fold_left_app.
  destruct m as [url val u]. cbn [y_url y_value y_unk] in *.
  destruct url as [|c url], val as [|d val]; cbn [ne_field fold_left];
    unfold step_any; cbn [fst snd N.eqb Pos.eqb any_pb_empty y_url y_value y_unk]; try rewrite Ha;
    fold step_any; rewrite any_unknown_fold by exact Hu; reflexivity.
Qed.

(* ---- URL-less Any packing, over bytes ---- *)
Definition pbmsg_wf (m : pbmsg) : Prop :=
  match m with MGeneric x => generic_wf x | MPrefix x => prefix_wf x | MDtls x => dtls_wf x end.

Lemma pb_unmarshal_marshal m : pbmsg_wf m -> pb_unmarshal (pb_type_of m) (pb_marshal m) = Some m.
Proof.
  destruct m as [x|x|x]; cbn [pbmsg_wf pb_unmarshal pb_type_of pb_marshal]; intros H.
  - rewrite generic_roundtrip by exact H. reflexivity.
  - rewrite prefix_roundtrip by exact H. reflexivity.
  - rewrite dtls_roundtrip by exact H. reflexivity.
Qed.

Lemma anypb_nourl_bytes_roundtrip m :
  pbmsg_wf m -> blen (pb_marshal m) < two64 ->
  station_unpack (client_pack_nourl m) (pb_type_of m) = Ok (Some m).
Proof.
  intros Hm Hl. unfold station_unpack, client_pack_nourl.
  rewrite any_roundtrip.
  2:{ unfold any_wf. cbn [y_url y_value y_unk]. split; [reflexivity|]. split; [unfold two64; cbn; lia|]. split; [exact Hl|]. split; constructor. }
  cbn [y_url y_value]. unfold unmarshal_anypb_to. cbn [any_url any_value string_of_bytes map string_of_list_ascii].
  change (fix_legacy_url "") with ""%string. cbn [String.eqb negb andb].
  rewrite pb_unmarshal_marshal by exact Hm. reflexivity.
Qed.
