(* C15 proofs: the number of labels a payload is cut into (requester.send's chunking loop). *)
From CJ Require Import Common.Base Common.BaseProofs C15.Model C15.Proofs C15.ModelName C15.ProofsName.
From Coq Require Import Lia ZifyN ZifyNat ZifyBool.

Lemma chunks_fuel_nil f n : chunks_fuel f n [] = [].
Proof. destruct f; reflexivity. Qed.

Lemma blen_drop_count n (p : bytes) : blen (drop n p) = blen p - n.
Proof. unfold blen, drop. rewrite skipn_length. lia. Qed.

Lemma chunks_fuel_count f : forall n p, 0 < n -> (length p <= f)%nat ->
  N.of_nat (length (chunks_fuel f n p)) = (blen p + n - 1) / n.
Proof.
  induction f as [|f IH]; intros n p Hn Hf.
  - destruct p as [|x p]; [|cbn in Hf; lia]. cbn [chunks_fuel length blen]. 
    symmetry. apply N.div_small. cbn. lia.
  - destruct p as [|x p].
    + cbn [chunks_fuel length blen]. symmetry. apply N.div_small. cbn. lia.
    + cbn [chunks_fuel]. cbn [length]. rewrite Nat2N.inj_succ.
      destruct (N.le_gt_cases (blen (x :: p)) n) as [Hc|Hc].
      * assert (E : drop n (x :: p) = []).
        { unfold drop. apply skipn_all2. unfold blen in Hc. lia. }
        rewrite E, chunks_fuel_nil. cbn [length]. 
        replace (blen (x :: p) + n - 1) with ((blen (x :: p) - 1) + 1 * n) by (unfold blen in *; cbn [length] in *; lia).
        rewrite N.div_add by lia. rewrite N.div_small; [reflexivity|]. unfold blen in *; cbn [length] in *; lia.
      * rewrite IH; [|assumption|].
        2:{ unfold drop. rewrite skipn_length. cbn [length] in *. unfold blen in Hc. cbn [length] in Hc. lia. }
        rewrite blen_drop_count.
        replace (blen (x :: p) + n - 1) with ((blen (x :: p) - n + n - 1) + 1 * n) by lia.
        rewrite N.div_add by lia. lia.
Qed.

Lemma chunks_count n p : 0 < n -> N.of_nat (length (chunks n p)) = (blen p + n - 1) / n.
Proof. intros Hn. apply chunks_fuel_count; [assumption|lia]. Qed.

(* a name built from a payload has exactly ceil(len/63) payload labels in front of the domain *)
Lemma chunks63_count p : N.of_nat (length (chunks 63 p)) = (blen p + 62) / 63.
Proof. rewrite chunks_count by lia. f_equal. lia. Qed.

(* and no label is empty, so an empty payload gives no label at all *)
Lemma chunks_nil_iff n p : 0 < n -> (chunks n p = [] <-> p = []).
Proof.
  intros Hn. split; [|intros ->; reflexivity].
  intros E. pose proof (chunks_concat n p Hn) as C. rewrite E in C. cbn in C. congruence.
Qed.
