(* C15 proofs: the concrete base32 of ModelB32 satisfies the law assumed by the name / exchange theorems:
   decode (upper (lower (encode p))) = Some p for every well-formed p. *)
From CJ Require Import Common.Base Common.BaseProofs C15.ModelName C15.ModelB32.
From Coq Require Import Lia ZifyN ZifyNat ZifyBool.
Ltac Zify.zify_post_hook ::= Z.div_mod_to_equations.

Lemma b32_val_char v : v < 32 -> b32_val (b32_char v) = Some v.
Proof.
  intros H. unfold b32_val, b32_char. destruct (v <? 26) eqn:E.
  - destruct ((65 <=? 65 + v) && (65 + v <=? 90)) eqn:E1; [f_equal; lia|lia].
  - destruct ((65 <=? 24 + v) && (24 + v <=? 90)) eqn:E1; [lia|].
    destruct ((50 <=? 24 + v) && (24 + v <=? 55)) eqn:E2; [f_equal; lia|lia].
Qed.

Lemma upper_lower_char v : v < 32 -> upper_byte (lower_byte (b32_char v)) = b32_char v.
Proof.
  intros H. unfold upper_byte, lower_byte, b32_char. destruct (v <? 26) eqn:E.
  - destruct ((65 <=? 65 + v) && (65 + v <=? 90)) eqn:E1; [|lia].
    destruct ((97 <=? 65 + v + 32) && (65 + v + 32 <=? 122)) eqn:E2; lia.
  - destruct ((65 <=? 24 + v) && (24 + v <=? 90)) eqn:E1; [lia|].
    destruct ((97 <=? 24 + v) && (24 + v <=? 122)) eqn:E2; lia.
Qed.

(* the 5-bit values of one group *)
Definition group_vals (g : bytes) : list N :=
  let b i := nth i g 0 in
  [ b 0%nat / 8; (b 0%nat mod 8) * 4 + b 1%nat / 64; (b 1%nat / 2) mod 32; (b 1%nat mod 2) * 16 + b 2%nat / 16;
    (b 2%nat mod 16) * 2 + b 3%nat / 128; (b 3%nat / 4) mod 32; (b 3%nat mod 4) * 8 + b 4%nat / 32; b 4%nat mod 32 ].
Definition group_n (g : bytes) : nat := match length g with 1 => 2 | 2 => 4 | 3 => 5 | 4 => 7 | _ => 8 end%nat.

Lemma enc_quantum_vals g : enc_quantum g = map b32_char (firstn (group_n g) (group_vals g)).
Proof. reflexivity. Qed.

Lemma group_vals_small g : wf_bytes g = true -> Forall (fun v => v < 32) (group_vals g).
Proof.
  intros W. assert (B : forall i, nth i g 0 < 256).
  { intros i. destruct (nth_in_or_default i g 0) as [Hin | E]; [|rewrite E; lia].
    unfold wf_bytes in W. rewrite forallb_forall in W. specialize (W _ Hin). unfold wf_byte in W. lia. }
  unfold group_vals. pose proof (B 0%nat). pose proof (B 1%nat). pose proof (B 2%nat). pose proof (B 3%nat). pose proof (B 4%nat).
  repeat constructor; lia.
Qed.

Lemma vals_map_char vs : Forall (fun v => v < 32) vs -> vals (map b32_char vs) = Some vs.
Proof.
  induction 1 as [|v vs Hv _ IH]; [reflexivity|]. cbn [map vals]. rewrite b32_val_char by exact Hv. rewrite IH. reflexivity.
Qed.

Lemma vals_app a b va vb : vals a = Some va -> vals b = Some vb -> vals (a ++ b) = Some (va ++ vb).
Proof.
  revert va; induction a as [|c a IH]; intros va Ha Hb; cbn [vals app] in *.
  - injection Ha as <-. exact Hb.
  - destruct (b32_val c) as [v|]; [|discriminate]. destruct (vals a) as [va'|]; [|discriminate].
    injection Ha as <-. rewrite (IH va' eq_refl Hb). reflexivity.
Qed.

Lemma upper_lower_map vs : Forall (fun v => v < 32) vs -> upper (lower (map b32_char vs)) = map b32_char vs.
Proof.
  induction 1 as [|v vs Hv _ IH]; [reflexivity|]. unfold upper, lower in *. cbn [map]. rewrite upper_lower_char by exact Hv.
  f_equal. exact IH.
Qed.

Lemma Forall_firstn {A} (P : A -> Prop) n l : Forall P l -> Forall P (firstn n l).
Proof. revert l; induction n as [|n IH]; intros [|x l] H; cbn; try constructor; inversion H; subst; auto. Qed.

(* one group decodes to itself *)
Lemma dec_group (g : bytes) : wf_bytes g = true -> (1 <= length g <= 5)%nat ->
  dec_quantum (firstn (group_n g) (group_vals g)) = g.
Proof.
  intros W L.
  destruct g as [|b0 [|b1 [|b2 [|b3 [|b4 [|b5 g]]]]]]; cbn [length] in L; try lia;
    cbn [wf_bytes forallb] in W; repeat (apply andb_true_iff in W as [?B W]); unfold wf_byte in *;
    unfold group_n, group_vals, dec_quantum; cbn [length firstn nth]; repeat f_equal; lia.
Qed.

Lemma dec_quanta_nil f : dec_quanta f [] = [].
Proof. destruct f; reflexivity. Qed.

Lemma b32_encode_fuel_nil f : b32_encode_fuel f [] = [].
Proof. destruct f; reflexivity. Qed.

Lemma wf_firstn n (l : bytes) : wf_bytes l = true -> wf_bytes (firstn n l) = true.
Proof. apply wf_bytes_firstn. Qed.

Lemma dec_quanta_step f d : d <> [] -> dec_quanta (S f) d = dec_quantum (firstn 8 d) ++ dec_quanta f (skipn 8 d).
Proof. destruct d; [congruence|reflexivity]. Qed.

(* encoding yields the characters of a list of 5-bit values which the quantum decoder maps back to the input *)
Lemma encode_values n : forall p fe,
  (length p <= n)%nat -> wf_bytes p = true -> (length p <= fe)%nat ->
  exists vs, Forall (fun v => v < 32) vs /\ b32_encode_fuel fe p = map b32_char vs /\
             forall fd, (length vs <= fd)%nat -> dec_quanta fd vs = p.
Proof.
  induction n as [n IH] using lt_wf_ind. intros p fe Hn W Hfe.
  destruct p as [|x p'] eqn:Ep.
  - exists []. split; [constructor|]. split; [apply b32_encode_fuel_nil|]. intros fd _. apply dec_quanta_nil.
  - rewrite <- Ep in *. assert (Hne : p <> []) by (rewrite Ep; discriminate).
    destruct fe as [|fe]; [rewrite Ep in Hfe; cbn in Hfe; lia|].
    assert (Henc : b32_encode_fuel (S fe) p = enc_quantum (firstn 5 p) ++ b32_encode_fuel fe (skipn 5 p)).
    { rewrite Ep. reflexivity. }
    rewrite Henc. clear Henc.
    set (g := firstn 5 p). set (rest := skipn 5 p).
    assert (Wg : wf_bytes g = true) by (apply wf_bytes_firstn; exact W).
    assert (Wr : wf_bytes rest = true) by (apply wf_bytes_skipn; exact W).
    assert (Lg : (1 <= length g <= 5)%nat).
    { unfold g. rewrite firstn_length. rewrite Ep. cbn [length]. lia. }
    assert (Lr : length rest = (length p - 5)%nat) by (unfold rest; apply skipn_length).
    assert (Hp : g ++ rest = p) by apply firstn_skipn.
    destruct (IH (length rest)) with (p := rest) (fe := fe) as (vr & Fr & Er & Dr); try lia; try assumption.
    { rewrite Lr. rewrite Ep in *. cbn [length] in *. lia. }
    exists (firstn (group_n g) (group_vals g) ++ vr).
    assert (Fg : Forall (fun v => v < 32) (firstn (group_n g) (group_vals g))).
    { apply Forall_firstn. apply group_vals_small. exact Wg. }
    split; [apply Forall_app; split; assumption|].
    split; [rewrite enc_quantum_vals, Er, map_app; reflexivity|].
    intros fd Hfd. rewrite app_length in Hfd.
    assert (Lv : (length (firstn (group_n g) (group_vals g)) = group_n g)%nat).
    { rewrite firstn_length. unfold group_vals, group_n. cbn [length]. destruct (length g) as [|[|[|[|[|k]]]]]; lia. }
    destruct (Nat.eq_dec (length g) 5) as [E5|N5].
    + (* a full group: 8 values, more may follow *)
      assert (G8 : group_n g = 8%nat) by (unfold group_n; rewrite E5; reflexivity).
      destruct fd as [|fd]; [lia|].
      rewrite dec_quanta_step.
      2:{ intros E0. apply (f_equal (@length N)) in E0. rewrite app_length, Lv, G8 in E0. cbn [length] in E0. lia. }
      rewrite firstn_app, skipn_app, Lv.
      rewrite (firstn_all2 (n := 8)) by (rewrite Lv; lia).
      rewrite (skipn_all2 (n := 8)) by (rewrite Lv; lia).
      replace (8 - group_n g)%nat with 0%nat by (rewrite G8; lia). cbn [firstn skipn app]. rewrite app_nil_r.
      rewrite dec_group by assumption. rewrite Dr by lia. exact Hp.
    + (* the last, partial group *)
      assert (Hr : rest = []).
      { apply length_zero_iff_nil. rewrite Lr. unfold g in Lg, N5. rewrite firstn_length in Lg, N5. lia. }
      assert (Hvr : vr = []).
      { specialize (Dr (length vr) (le_n _)). rewrite Hr in Dr, Er. rewrite b32_encode_fuel_nil in Er.
        destruct vr; [reflexivity|discriminate]. }
      subst vr. rewrite app_nil_r in *.
      assert (Gn : (1 <= group_n g <= 8)%nat) by (unfold group_n; destruct (length g) as [|[|[|[|[|k]]]]]; cbn; lia).
      destruct fd as [|fd]; [lia|].
      rewrite dec_quanta_step.
      2:{ intros E0. apply (f_equal (@length N)) in E0. rewrite Lv in E0. cbn [length] in E0. lia. }
      rewrite firstn_all2 by lia. rewrite skipn_all2 by lia. rewrite dec_quanta_nil, app_nil_r.
      rewrite dec_group by assumption. rewrite <- Hp, Hr, app_nil_r. reflexivity.
Qed.

Lemma b32_roundtrip_concrete p :
  wf_bytes p = true -> b32_decode (upper (lower (b32_encode p))) = Some p.
Proof.
  intros W. unfold b32_encode.
  destruct (encode_values (length p) p (length p) (le_n _) W (le_n _)) as (vs & F & E & D).
  rewrite E, upper_lower_map by exact F. unfold b32_decode. rewrite vals_map_char by exact F.
  rewrite D by lia. reflexivity.
Qed.

(* with the concrete coding, the only remaining assumption of the exchange theorems is Noise N correctness *)
From CJ Require Import C15.Model C15.ModelDns C15.ModelExch.
Lemma exchange_laws_b32 (cipher : Type)
  (noise_write : bytes -> bytes -> bytes -> option (bytes * cipher))
  (noise_read : bytes -> bytes -> option (bytes * cipher))
  (cs_encrypt cs_decrypt : cipher -> bytes -> option bytes) (pub_of : bytes -> bytes) :
  (forall rnd k p hs cs, noise_write rnd (pub_of k) p = Some (hs, cs) ->
     wf_bytes hs = true /\
     exists cs', noise_read k hs = Some (p, cs') /\ forall r enc, cs_encrypt cs' r = Some enc -> cs_decrypt cs enc = Some r) ->
  exchange_laws b32_encode b32_decode cipher noise_write noise_read cs_encrypt cs_decrypt pub_of.
Proof. intros H. constructor; [exact b32_roundtrip_concrete|exact H]. Qed.
