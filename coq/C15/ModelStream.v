(* C15 model, part 11: the shape of AES-CTR and AES-GCM as the obfuscators use them.

   ModelObf.v takes aes_ctr / gcm_seal / gcm_open as opaque functions with three laws (CTR involution, open-seal,
   16-octet tag).  Both modes are stream ciphers: the ciphertext is the plaintext XORed, octet by octet, with a
   keystream that depends on (key, IV/nonce, position) only; GCM appends a 16-octet authenticator of the
   ciphertext and Open recomputes it before decrypting.  With that shape - which the tie checks on the real
   crypto/cipher code on every run (keystream = encryption of zeros) - the three laws are theorems; the block
   cipher behind the keystream and the GHASH behind the authenticator stay uninterpreted and need no law except
   that the authenticator is 16 octets long.  Definitions only. *)
From CJ Require Export Common.Base.

(* XOR of m with the keystream octets i, i+1, ... *)
Fixpoint stream_xor (ks : nat -> byte) (i : nat) (m : bytes) : bytes :=
  match m with
  | [] => []
  | b :: r => N.lxor (ks i) b :: stream_xor ks (S i) r
  end.

Section Stream.
  Variable ctr_stream : bytes -> bytes -> nat -> byte.     (* key iv position: cipher.NewCTR(aes(key), iv) *)
  Variable gcm_stream : bytes -> bytes -> nat -> byte.     (* key nonce position: GCM's counter-mode keystream *)
  Variable gcm_mac : bytes -> bytes -> bytes -> bytes.     (* key nonce ciphertext: the authenticator (no additional data) *)

  Definition ctr_of (k iv m : bytes) : bytes := stream_xor (ctr_stream k iv) 0 m.

  Definition seal_of (k n m : bytes) : bytes :=
    let c := stream_xor (gcm_stream k n) 0 m in c ++ gcm_mac k n c.

  Definition open_of (k n c : bytes) : option bytes :=
    if blen c <? 16 then None
    else let body := take (blen c - 16) c in
         if bytes_eqb (drop (blen c - 16) c) (gcm_mac k n body) then Some (stream_xor (gcm_stream k n) 0 body)
         else None.
End Stream.
