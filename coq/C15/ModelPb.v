(* C15 model, part 7: the protobuf wire format as used by the transport-parameter messages
   (google.golang.org/protobuf, proto2 messages GenericTransportParams / PrefixTransportParams /
   DTLSTransportParams{Addr} and the proto3 message Any{type_url,value}).
     raw layer   : varints, tags, the four scalar wire types, a message as a list of (number, value)
     typed layer : Marshal = known fields in field-number order, then the unknown fields;
                   Unmarshal = last value wins for scalars, embedded messages merge, a field whose number
                   is not known or whose wire type does not fit is PRESERVED as an unknown field (Go keeps
                   them in the message and re-emits them; they are not dropped).
   Groups (wire types 3/4) are outside the model (PbUnsupported); everything else Go rejects is PbErr.
   Definitions only; executable. *)
From CJ Require Export Common.Base.
From Coq Require Export ZArith.

Inductive pb_err := PbErr | PbUnsupported.

(* ---- varint (protowire.AppendVarint / ConsumeVarint: at most 10 octets, the 10th at most 1) ---- *)
Fixpoint varint_enc_fuel (fuel : nat) (n : N) : bytes :=
  match fuel with
  | O => []
  | S f => if n <? 128 then [n] else (128 + n mod 128) :: varint_enc_fuel f (n / 128)
  end.
Definition varint_enc (n : N) : bytes := varint_enc_fuel 10 n.

Fixpoint varint_dec_aux (fuel : nat) (shift acc : N) (s : bytes) : option (N * bytes) :=
  match fuel with
  | O => None
  | S f =>
    match s with
    | [] => None
    | b :: r =>
      if b <? 128 then
        match f with
        | O => if 1 <? b then None else Some (acc + b * 2 ^ shift, r)
        | _ => Some (acc + b * 2 ^ shift, r)
        end
      else varint_dec_aux f (shift + 7) (acc + (b - 128) * 2 ^ shift) r
    end
  end.
Definition varint_dec (s : bytes) : option (N * bytes) := varint_dec_aux 10 0 0 s.

(* ---- raw fields ---- *)
Inductive wval := WVarint (n : N) | WFixed64 (b : bytes) | WBytes (b : bytes) | WFixed32 (b : bytes).
Definition wtype (v : wval) : N := match v with WVarint _ => 0 | WFixed64 _ => 1 | WBytes _ => 2 | WFixed32 _ => 5 end.
Definition field := (N * wval)%type.
Definition max_fnum : N := 536870911.

Definition enc_wval (v : wval) : bytes :=
  match v with
  | WVarint n => varint_enc n
  | WFixed64 b => b
  | WBytes b => varint_enc (blen b) ++ b
  | WFixed32 b => b
  end.
Definition enc_field (f : field) : bytes := varint_enc (fst f * 8 + wtype (snd f)) ++ enc_wval (snd f).
Definition enc_fields (fs : list field) : bytes := flat_map enc_field fs.

(* one field: tag, then the value according to the wire type *)
Definition dec_one (s : bytes) : result pb_err (field * bytes) :=
  match varint_dec s with
  | None => Err PbErr
  | Some (tag, r) =>
    let num := tag / 8 in
    if (num =? 0) || (max_fnum <? num) then Err PbErr
    else
      match tag mod 8 with
      | 0 => match varint_dec r with Some (n, rest) => Ok ((num, WVarint n), rest) | None => Err PbErr end
      | 1 => if blen r <? 8 then Err PbErr else Ok ((num, WFixed64 (take 8 r)), drop 8 r)
      | 2 => match varint_dec r with
             | Some (len, rest) => if blen rest <? len then Err PbErr else Ok ((num, WBytes (take len rest)), drop len rest)
             | None => Err PbErr
             end
      | 5 => if blen r <? 4 then Err PbErr else Ok ((num, WFixed32 (take 4 r)), drop 4 r)
      | 3 | 4 => Err PbUnsupported
      | _ => Err PbErr
      end
  end.

Fixpoint dec_fields_fuel (fuel : nat) (s : bytes) : result pb_err (list field) :=
  match fuel with
  | O => match s with [] => Ok [] | _ => Err PbErr end
  | S f =>
    match s with
    | [] => Ok []
    | _ =>
      match dec_one s with
      | Ok (fld, rest) =>
        match dec_fields_fuel f rest with
        | Ok fs => Ok (fld :: fs)
        | e => e
        end
      | Err e => Err e
      | Panic => Panic
      end
    end
  end.
Definition dec_fields (s : bytes) : result pb_err (list field) := dec_fields_fuel (length s) s.

(* ---- scalar conversions ---- *)
Definition two64 : N := 18446744073709551616.
Definition varint_of_int32 (z : Z) : N := if (z <? 0)%Z then two64 - Z.to_N (- z) else Z.to_N z.
Definition int32_of_varint (n : N) : Z :=
  let low := n mod 4294967296 in
  if low <? 2147483648 then Z.of_N low else (Z.of_N low - 4294967296)%Z.
Definition uint32_of_varint (n : N) : N := n mod 4294967296.
Definition bool_of_varint (n : N) : bool := negb (n =? 0).
Definition varint_of_bool (b : bool) : N := if b then 1 else 0.

Definition opt_field {A} (num : N) (f : A -> wval) (o : option A) : list field :=
  match o with Some a => [(num, f a)] | None => [] end.

(* ---- GenericTransportParams { optional bool randomize_dst_port = 13; } ---- *)
Record generic_tp := { g_rand : option bool; g_unk : list field }.
Definition generic_empty : generic_tp := {| g_rand := None; g_unk := [] |}.
Definition marshal_generic (m : generic_tp) : bytes :=
  enc_fields (opt_field 13 (fun b => WVarint (varint_of_bool b)) (g_rand m) ++ g_unk m).
Definition step_generic (m : generic_tp) (f : field) : generic_tp :=
  let other := {| g_rand := g_rand m; g_unk := g_unk m ++ [f] |} in
  match snd f with
  | WVarint n => if fst f =? 13 then {| g_rand := Some (bool_of_varint n); g_unk := g_unk m |} else other
  | _ => other
  end.
Definition unmarshal_generic (s : bytes) : result pb_err generic_tp :=
  match dec_fields s with Ok fs => Ok (fold_left step_generic fs generic_empty) | Err e => Err e | Panic => Panic end.

(* ---- PrefixTransportParams { int32 prefix_id = 1; bytes prefix = 2; int32 custom_flush_policy = 3; bool randomize_dst_port = 13; } ---- *)
Record prefix_tp := { p_id : option Z; p_prefix : option bytes; p_flush : option Z; p_rand : option bool; p_unk : list field }.
Definition prefix_empty : prefix_tp := {| p_id := None; p_prefix := None; p_flush := None; p_rand := None; p_unk := [] |}.
Definition marshal_prefix (m : prefix_tp) : bytes :=
  enc_fields (opt_field 1 (fun z => WVarint (varint_of_int32 z)) (p_id m) ++ opt_field 2 WBytes (p_prefix m) ++
              opt_field 3 (fun z => WVarint (varint_of_int32 z)) (p_flush m) ++
              opt_field 13 (fun b => WVarint (varint_of_bool b)) (p_rand m) ++ p_unk m).
Definition step_prefix (m : prefix_tp) (f : field) : prefix_tp :=
  let other := {| p_id := p_id m; p_prefix := p_prefix m; p_flush := p_flush m; p_rand := p_rand m; p_unk := p_unk m ++ [f] |} in
  match snd f with
  | WVarint n =>
    if fst f =? 1 then {| p_id := Some (int32_of_varint n); p_prefix := p_prefix m; p_flush := p_flush m; p_rand := p_rand m; p_unk := p_unk m |}
    else if fst f =? 3 then {| p_id := p_id m; p_prefix := p_prefix m; p_flush := Some (int32_of_varint n); p_rand := p_rand m; p_unk := p_unk m |}
    else if fst f =? 13 then {| p_id := p_id m; p_prefix := p_prefix m; p_flush := p_flush m; p_rand := Some (bool_of_varint n); p_unk := p_unk m |}
    else other
  | WBytes b =>
    if fst f =? 2 then {| p_id := p_id m; p_prefix := Some b; p_flush := p_flush m; p_rand := p_rand m; p_unk := p_unk m |} else other
  | _ => other
  end.
Definition unmarshal_prefix (s : bytes) : result pb_err prefix_tp :=
  match dec_fields s with Ok fs => Ok (fold_left step_prefix fs prefix_empty) | Err e => Err e | Panic => Panic end.

(* ---- Addr { bytes IP = 1; uint32 Port = 2; } ---- *)
Record addr_pb := { a_ip : option bytes; a_port : option N; a_unk : list field }.
Definition addr_empty : addr_pb := {| a_ip := None; a_port := None; a_unk := [] |}.
Definition marshal_addr (m : addr_pb) : bytes :=
  enc_fields (opt_field 1 WBytes (a_ip m) ++ opt_field 2 WVarint (a_port m) ++ a_unk m).
Definition step_addr (m : addr_pb) (f : field) : addr_pb :=
  let other := {| a_ip := a_ip m; a_port := a_port m; a_unk := a_unk m ++ [f] |} in
  match snd f with
  | WBytes b => if fst f =? 1 then {| a_ip := Some b; a_port := a_port m; a_unk := a_unk m |} else other
  | WVarint n => if fst f =? 2 then {| a_ip := a_ip m; a_port := Some (uint32_of_varint n); a_unk := a_unk m |} else other
  | _ => other
  end.
(* an embedded message merges into the value already present *)
Definition merge_addr (cur : option addr_pb) (s : bytes) : result pb_err addr_pb :=
  match dec_fields s with
  | Ok fs => Ok (fold_left step_addr fs (match cur with Some a => a | None => addr_empty end))
  | Err e => Err e
  | Panic => Panic
  end.

(* ---- DTLSTransportParams { Addr src_addr4 = 1; Addr src_addr6 = 2; bool randomize_dst_port = 3; bool unordered = 4; } ---- *)
Record dtls_tp := { d_src4 : option addr_pb; d_src6 : option addr_pb; d_rand : option bool; d_unordered : option bool; d_unk : list field }.
Definition dtls_empty : dtls_tp := {| d_src4 := None; d_src6 := None; d_rand := None; d_unordered := None; d_unk := [] |}.
Definition marshal_dtls (m : dtls_tp) : bytes :=
  enc_fields (opt_field 1 (fun a => WBytes (marshal_addr a)) (d_src4 m) ++ opt_field 2 (fun a => WBytes (marshal_addr a)) (d_src6 m) ++
              opt_field 3 (fun b => WVarint (varint_of_bool b)) (d_rand m) ++
              opt_field 4 (fun b => WVarint (varint_of_bool b)) (d_unordered m) ++ d_unk m).
Definition step_dtls (r : result pb_err dtls_tp) (f : field) : result pb_err dtls_tp :=
  match r with
  | Ok m =>
    let other := Ok {| d_src4 := d_src4 m; d_src6 := d_src6 m; d_rand := d_rand m; d_unordered := d_unordered m; d_unk := d_unk m ++ [f] |} in
    match snd f with
    | WBytes b =>
      if fst f =? 1 then
        match merge_addr (d_src4 m) b with
        | Ok a => Ok {| d_src4 := Some a; d_src6 := d_src6 m; d_rand := d_rand m; d_unordered := d_unordered m; d_unk := d_unk m |}
        | Err e => Err e | Panic => Panic end
      else if fst f =? 2 then
        match merge_addr (d_src6 m) b with
        | Ok a => Ok {| d_src4 := d_src4 m; d_src6 := Some a; d_rand := d_rand m; d_unordered := d_unordered m; d_unk := d_unk m |}
        | Err e => Err e | Panic => Panic end
      else other
    | WVarint n =>
      if fst f =? 3 then Ok {| d_src4 := d_src4 m; d_src6 := d_src6 m; d_rand := Some (bool_of_varint n); d_unordered := d_unordered m; d_unk := d_unk m |}
      else if fst f =? 4 then Ok {| d_src4 := d_src4 m; d_src6 := d_src6 m; d_rand := d_rand m; d_unordered := Some (bool_of_varint n); d_unk := d_unk m |}
      else other
    | _ => other
    end
  | e => e
  end.
Definition unmarshal_dtls (s : bytes) : result pb_err dtls_tp :=
  match dec_fields s with Ok fs => fold_left step_dtls fs (Ok dtls_empty) | Err e => Err e | Panic => Panic end.

(* ---- google.protobuf.Any { string type_url = 1; bytes value = 2; }  (proto3: empty scalars are not emitted;
   type_url must be valid UTF-8 - the model covers ASCII URLs and reports anything else as unsupported) ---- *)
Record any_pb := { y_url : bytes; y_value : bytes; y_unk : list field }.
Definition any_pb_empty : any_pb := {| y_url := []; y_value := []; y_unk := [] |}.
Definition ne_field (num : N) (b : bytes) : list field := match b with [] => [] | _ => [(num, WBytes b)] end.
Definition marshal_any (m : any_pb) : bytes := enc_fields (ne_field 1 (y_url m) ++ ne_field 2 (y_value m) ++ y_unk m).
Definition ascii (b : bytes) : bool := forallb (fun c => c <? 128) b.
Definition step_any (r : result pb_err any_pb) (f : field) : result pb_err any_pb :=
  match r with
  | Ok m =>
    let other := Ok {| y_url := y_url m; y_value := y_value m; y_unk := y_unk m ++ [f] |} in
    match snd f with
    | WBytes b =>
      if fst f =? 1 then (if ascii b then Ok {| y_url := b; y_value := y_value m; y_unk := y_unk m |} else Err PbUnsupported)
      else if fst f =? 2 then Ok {| y_url := y_url m; y_value := b; y_unk := y_unk m |}
      else other
    | _ => other
    end
  | e => e
  end.
Definition unmarshal_any (s : bytes) : result pb_err any_pb :=
  match dec_fields s with Ok fs => fold_left step_any fs (Ok any_pb_empty) | Err e => Err e | Panic => Panic end.

(* ---- well-formedness (the domain of the round-trip theorems) ---- *)
Definition wval_wf (v : wval) : Prop :=
  match v with
  | WVarint n => n < two64
  | WFixed64 b => blen b = 8
  | WBytes b => blen b < two64
  | WFixed32 b => blen b = 4
  end.
Definition field_wf (f : field) : Prop := 1 <= fst f <= max_fnum /\ wval_wf (snd f).
Definition int32_ok (z : Z) : Prop := (-2147483648 <= z < 2147483648)%Z.
Definition opt_ok {A} (P : A -> Prop) (o : option A) : Prop := match o with Some a => P a | None => True end.

(* a field that the typed layer of a message keeps as unknown: its (number, wire type) is not a known field's *)
Definition is_fw (f : field) (num wt : N) : bool := (fst f =? num) && (wtype (snd f) =? wt).
Definition unknown_for_generic (f : field) : Prop := is_fw f 13 0 = false.
Definition unknown_for_prefix (f : field) : Prop :=
  is_fw f 1 0 = false /\ is_fw f 2 2 = false /\ is_fw f 3 0 = false /\ is_fw f 13 0 = false.
Definition unknown_for_addr (f : field) : Prop := is_fw f 1 2 = false /\ is_fw f 2 0 = false.
Definition unknown_for_dtls (f : field) : Prop :=
  is_fw f 1 2 = false /\ is_fw f 2 2 = false /\ is_fw f 3 0 = false /\ is_fw f 4 0 = false.
Definition unknown_for_any (f : field) : Prop := is_fw f 1 2 = false /\ is_fw f 2 2 = false.

(* ---- the three transport-parameter messages as one type, and the station's path for the Any bytes ---- *)
From CJ Require Import C15.ModelAny.
Inductive pbmsg := MGeneric (m : generic_tp) | MPrefix (m : prefix_tp) | MDtls (m : dtls_tp).
Definition pb_type_of (m : pbmsg) : N := match m with MGeneric _ => 0 | MPrefix _ => 1 | MDtls _ => 2 end.
Definition pb_marshal (m : pbmsg) : bytes :=
  match m with MGeneric x => marshal_generic x | MPrefix x => marshal_prefix x | MDtls x => marshal_dtls x end.
Definition res_opt {A B} (f : A -> B) (r : result pb_err A) : option B := match r with Ok a => Some (f a) | _ => None end.
Definition pb_unmarshal (t : N) (s : bytes) : option pbmsg :=
  match t with
  | 0 => res_opt MGeneric (unmarshal_generic s)
  | 1 => res_opt MPrefix (unmarshal_prefix s)
  | _ => res_opt MDtls (unmarshal_dtls s)
  end.
Definition pb_url_of (t : N) : string :=
  match t with
  | 0 => "type.googleapis.com/proto.GenericTransportParams"
  | 1 => "type.googleapis.com/proto.PrefixTransportParams"
  | _ => "type.googleapis.com/proto.DTLSTransportParams"
  end%string.
Definition string_of_bytes (b : bytes) : string := string_of_list_ascii (map ascii_of_N b).

(* client: the parameters packed URL-less into an Any, as bytes (decoy-registrar/utils.go sets TypeUrl = "") *)
Definition client_pack_nourl (m : pbmsg) : bytes :=
  marshal_any {| y_url := []; y_value := pb_marshal m; y_unk := [] |}.
(* station: proto.Unmarshal of the Any, then UnmarshalAnypbTo into a message of type dst *)
Definition station_unpack (s : bytes) (dst : N) : result any_err (option pbmsg) :=
  match unmarshal_any s with
  | Ok a => unmarshal_anypb_to N pbmsg pb_url_of pb_unmarshal
              (Some {| any_url := string_of_bytes (y_url a); any_value := y_value a |}) dst
  | _ => Err EUnmarshal
  end.
