(* C15 proofs: the size of a TXT RDATA produced by dns.EncodeRDataTXT. *)
From CJ Require Import Common.Base Common.BaseProofs C15.Model C15.Proofs.
From Coq Require Import Lia ZifyN ZifyNat ZifyBool.
Ltac Zify.zify_post_hook ::= Z.div_mod_to_equations.

Lemma blen_take_txt n (p : bytes) : n <= blen p -> blen (take n p) = n.
Proof. unfold blen, take. intros H. rewrite firstn_length. lia. Qed.

Lemma blen_drop_txt n (p : bytes) : blen (drop n p) = blen p - n.
Proof. unfold blen, drop. rewrite skipn_length. lia. Qed.

Lemma enc_txt_fuel_len f : forall p, (length p < f)%nat ->
  blen (enc_txt_fuel f p) = blen p + N.max 1 ((blen p + 254) / 255).
Proof.
  induction f as [|f IH]; intros p Hf; [lia|].
  cbn [enc_txt_fuel]. destruct (255 <? blen p) eqn:E.
  - change (255 :: take 255 p ++ enc_txt_fuel f (drop 255 p)) with ([255] ++ take 255 p ++ enc_txt_fuel f (drop 255 p)).
    rewrite !blen_app. rewrite IH.
    2:{ unfold drop. rewrite skipn_length. unfold blen in E. lia. }
    rewrite blen_take_txt by lia. rewrite blen_drop_txt.
    change (blen [255]) with 1. lia.
  - change (blen p :: p) with ([blen p] ++ p). rewrite blen_app. change (blen [blen p]) with 1. lia.
Qed.

(* k octets of text become k + max(1, ceil(k/255)) octets of RDATA: one length octet per character-string, and
   the empty text is the single empty character-string *)
Lemma enc_txt_len p : blen (enc_txt p) = blen p + N.max 1 ((blen p + 254) / 255).
Proof. apply enc_txt_fuel_len. lia. Qed.

Lemma enc_txt_nonempty p : enc_txt p <> [].
Proof. intros E. pose proof (enc_txt_len p) as L. rewrite E in L. change (blen []) with 0 in L. lia. Qed.
