(* C15 model, part 4: URL-less Any unpacking (pkg/transports/anypb_nourl.go).
   The protobuf wire codec is abstract (marshal / unmarshal per message type);
   the type-URL handling is concrete.  Definitions only. *)
From CJ Require Export Common.Base.
Local Open Scope string_scope.

(* strings.ReplaceAll for a non-empty `old`: leftmost, non-overlapping *)
Fixpoint strip_prefix (p s : string) : option string :=
  match p with
  | EmptyString => Some s
  | String a p' => match s with
                   | String b s' => if Ascii.eqb a b then strip_prefix p' s' else None
                   | EmptyString => None
                   end
  end.

(* skip = characters of the current match still to be dropped *)
Fixpoint replace_all_aux (old new : string) (skip : nat) (s : string) : string :=
  match s with
  | EmptyString => EmptyString
  | String c s' =>
    match skip with
    | S k => replace_all_aux old new k s'
    | O => match strip_prefix old s with
           | Some _ => new ++ replace_all_aux old new (String.length old - 1) s'
           | None => String c (replace_all_aux old new 0 s')
           end
    end
  end.
Definition replace_all (old new s : string) : string := replace_all_aux old new 0 s.

Definition fix_legacy_url (u : string) : string := replace_all "tapdance." "proto." u.

Record any := { any_url : string; any_value : bytes }.

Inductive any_err := EWrongType | EUnmarshal.

Section Anypb.
  Variable mtype : Type.                              (* protobuf message types *)
  Variable msg : Type.
  Variable type_of : msg -> mtype.
  Variable url_of : mtype -> string.                  (* anypb.New(dst).TypeUrl *)
  Variable marshal : msg -> bytes.                    (* proto.Marshal *)
  Variable unmarshal : mtype -> bytes -> option msg.  (* proto.Unmarshal into a message of that type *)

  Definition pack (m : msg) : any := {| any_url := url_of (type_of m); any_value := marshal m |}.   (* anypb.New *)
  Definition pack_nourl (m : msg) : any := {| any_url := ""; any_value := marshal m |}.             (* TypeUrl = "" *)

  (* Ok None: src was nil, no error and dst is left untouched; Ok (Some m): dst now holds m *)
  Definition unmarshal_anypb_to (src : option any) (dst : mtype) : result any_err (option msg) :=
    match src with
    | None => Ok None
    | Some a =>
      let u := fix_legacy_url (any_url a) in
      if negb (String.eqb u "") && negb (String.eqb u (url_of dst)) then Err EWrongType
      else match unmarshal dst (any_value a) with
           | Some m => Ok (Some m)
           | None => Err EUnmarshal
           end
    end.
End Anypb.
