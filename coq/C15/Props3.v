(* C15 property theorems, third file: SEQUENCES of calls whose results are all kept (statements + `exact lemma` only).

   enc_each enc rs xs   = the list of results of k encoder calls in a row, call i drawing r_i and given x_i; the
                          caller keeps every result (None = that call returned an error)
   dec_each dec ks cs   = every kept result decoded afterwards (ks = what the decoding side holds per item)
   accepted enc val ..  = the value of every accepted input, None for every rejected one, position by position
   somes cs             = the encodings the caller holds
   (enc_each_d / dec_each_d / accepted_d: the same for encoders that draw no randomness.)
   The round trips hold for all lists, all randomness streams; the freshness statements name their hypothesis on the
   randomness explicitly (pairwise different pads; pairwise visibly different draws). *)
From CJ Require Import Common.Base C15.Model C15.Proofs C15.ModelName C15.ProofsName C15.ModelObf C15.ProofsObf C15.ModelDns C15.ProofsDns
  C15.ModelPb C15.ProofsPb C15.ModelB32 C15.ProofsB32 C15.ModelSeq C15.ProofsSeq C15.ModelStream C15.ProofsStream.

(* the generic lifting: a round trip that holds for one call holds, position by position, for any number of calls *)
Theorem C15_seq_roundtrip_lifting :
  forall (R A K B C : Type) (enc : R -> A -> option C) (dec : K -> C -> option B) (key : A -> K) (val : A -> B) (P : R -> A -> Prop),
    (forall r x c, P r x -> enc r x = Some c -> dec (key x) c = Some (val x)) ->
    forall rs xs, Forall2 P rs xs -> dec_each dec (map key xs) (enc_each enc rs xs) = accepted enc val rs xs.
Proof. exact seq_roundtrip. Qed.
Print Assumptions C15_seq_roundtrip_lifting.

Theorem C15_seq_all_accepted :
  forall (R A B C : Type) (enc : R -> A -> option C) (val : A -> B) rs xs,
    Forall2 (fun r x => enc r x <> None) rs xs -> accepted enc val rs xs = map (fun x => Some (val x)) xs.
Proof. exact accepted_all. Qed.
Print Assumptions C15_seq_all_accepted.

(* encodings of calls whose draws differ pairwise are pairwise different, whatever the inputs *)
Theorem C15_seq_fresh_lifting :
  forall (R A C : Type) (enc : R -> A -> option C) (P : R -> A -> Prop) (D : R -> R -> Prop),
    (forall r1 r2 x1 x2 c1 c2, P r1 x1 -> P r2 x2 -> D r1 r2 -> enc r1 x1 = Some c1 -> enc r2 x2 = Some c2 -> c1 <> c2) ->
    forall rs xs, Forall2 P rs xs -> ForallOrdPairs D rs -> NoDup (somes (enc_each enc rs xs)).
Proof. exact seq_fresh. Qed.
Print Assumptions C15_seq_fresh_lifting.

(* ---- length framings, TXT ---- *)
Theorem C15_seq_request_format_roundtrip :
  forall ps, dec_each_d remove_request_format (enc_each_d add_request_format ps) = accepted_d add_request_format ps.
Proof. exact seq_request_format. Qed.
Print Assumptions C15_seq_request_format_roundtrip.

Theorem C15_seq_response_format_roundtrip :
  forall ps, dec_each_d remove_response_format (enc_each_d add_response_format ps) = accepted_d add_response_format ps.
Proof. exact seq_response_format. Qed.
Print Assumptions C15_seq_response_format_roundtrip.

Theorem C15_seq_txt_roundtrip :
  forall ps, dec_each_d dec_txt (enc_each_d (fun p => Some (enc_txt p)) ps) = map Some ps.
Proof. exact seq_txt. Qed.
Print Assumptions C15_seq_txt_roundtrip.

(* ---- names (NewName, a fresh builder per name, readName), DNS messages, query names ---- *)
Theorem C15_seq_name_roundtrip :
  forall ns, dec_each_d name_dec (enc_each_d name_enc ns) = accepted_d name_enc ns.
Proof. exact seq_names. Qed.
Print Assumptions C15_seq_name_roundtrip.

Theorem C15_seq_dns_message_roundtrip :
  forall ms, Forall names_ok ms -> dec_each_d msg_dec (enc_each_d msg_enc ms) = accepted_d msg_enc ms.
Proof. exact seq_messages. Qed.
Print Assumptions C15_seq_dns_message_roundtrip.

Theorem C15_seq_query_name_roundtrip :
  forall dom ps, Forall (fun p => wf_bytes p = true) ps ->
    dec_each_d (qname_dec dom) (enc_each_d (qname_enc dom) ps) = accepted_d (qname_enc dom) ps.
Proof. exact seq_query_names. Qed.
Print Assumptions C15_seq_query_name_roundtrip.

(* ---- URL-less transport parameters over bytes: every one of k packed messages is unpacked as itself ---- *)
Theorem C15_seq_anypb_nourl_roundtrip :
  forall ms, Forall (fun m => pbmsg_wf m /\ blen (pb_marshal m) < two64) ms ->
    dec_each anypb_dec (map pb_type_of ms) (enc_each (fun _ : unit => anypb_enc) (map (fun _ => tt) ms) ms) = map Some ms.
Proof. exact seq_anypb. Qed.
Print Assumptions C15_seq_anypb_nourl_roundtrip.

(* ---- tag obfuscators: items are (station private key, tag) pairs, so every call may use its own key pair ---- *)
Theorem C15_seq_xor_roundtrip :
  forall rs xs, Forall2 pad_fits rs xs -> dec_each xor_dec (map fst xs) (enc_each xor_enc rs xs) = accepted xor_enc snd rs xs.
Proof. exact seq_xor_roundtrip. Qed.
Print Assumptions C15_seq_xor_roundtrip.

Theorem C15_seq_xor_fresh :
  forall rs xs, Forall2 pad_fits rs xs -> NoDup rs -> NoDup (somes (enc_each xor_enc rs xs)).
Proof. exact seq_xor_fresh. Qed.
Print Assumptions C15_seq_xor_fresh.

Theorem C15_seq_nil_roundtrip : forall ts, dec_each_d nil_reveal (enc_each_d nil_obfuscate ts) = map Some ts.
Proof. exact seq_nil_roundtrip. Qed.
Print Assumptions C15_seq_nil_roundtrip.

Theorem C15_seq_ctr_roundtrip :
  forall sbm r2p x sha ctr seal open pub_of, crypto_laws sbm r2p x ctr seal open pub_of ->
  forall rs xs, length rs = length xs ->
    dec_each (ctr_dec r2p x sha ctr) (map fst xs) (enc_each (ctr_enc sbm x sha ctr pub_of) rs xs) = accepted (ctr_enc sbm x sha ctr pub_of) snd rs xs.
Proof. exact seq_ctr_roundtrip. Qed.
Print Assumptions C15_seq_ctr_roundtrip.

Theorem C15_seq_gcm_roundtrip :
  forall sbm r2p x sha ctr seal open pub_of, crypto_laws sbm r2p x ctr seal open pub_of ->
  forall rs xs, length rs = length xs ->
    dec_each (gcm_dec r2p x sha open) (map fst xs) (enc_each (gcm_enc sbm x sha seal pub_of) rs xs) = accepted (gcm_enc sbm x sha seal pub_of) snd rs xs.
Proof. exact seq_gcm_roundtrip. Qed.
Print Assumptions C15_seq_gcm_roundtrip.

(* freshness over a sequence: if the random draws of the calls differ pairwise in what can be seen of them (the
   representative found, or the two random high bits), the encodings the caller holds are pairwise different -
   for any tags (equal or not) and any station keys *)
Theorem C15_seq_ctr_fresh :
  forall sbm r2p x sha ctr seal open pub_of, crypto_laws sbm r2p x ctr seal open pub_of ->
  forall rs xs, length rs = length xs -> ForallOrdPairs (draws_differ sbm) rs ->
    NoDup (somes (enc_each (ctr_enc sbm x sha ctr pub_of) rs xs)).
Proof. exact seq_ctr_fresh. Qed.
Print Assumptions C15_seq_ctr_fresh.

Theorem C15_seq_gcm_fresh :
  forall sbm r2p x sha ctr seal open pub_of, crypto_laws sbm r2p x ctr seal open pub_of ->
  forall rs xs, length rs = length xs -> ForallOrdPairs (draws_differ sbm) rs ->
    NoDup (somes (enc_each (gcm_enc sbm x sha seal pub_of) rs xs)).
Proof. exact seq_gcm_fresh. Qed.
Print Assumptions C15_seq_gcm_fresh.

Theorem C15_seq_draws_give_headers :
  forall sbm r2p x ctr seal open pub_of, crypto_laws sbm r2p x ctr seal open pub_of ->
  forall r1 r2, draws_differ sbm r1 r2 -> headers_differ sbm r1 r2.
Proof. exact draws_headers. Qed.
Print Assumptions C15_seq_draws_give_headers.

(* ---- three of the six laws of crypto_laws discharged from the stream-cipher shape of CTR and GCM ----
   ctr_of / seal_of / open_of (ModelStream.v): ciphertext = plaintext XOR a keystream that depends on (key, IV, position)
   only; GCM appends a 16-octet authenticator of the ciphertext, Open recomputes it before decrypting.  The keystream
   and the authenticator are uninterpreted; the shape itself is compared with crypto/cipher on every run. *)
Theorem C15_ctr_involution_from_stream :
  forall (ks : bytes -> bytes -> nat -> byte) k iv m, ctr_of ks k iv (ctr_of ks k iv m) = m.
Proof. exact ctr_of_involution. Qed.
Print Assumptions C15_ctr_involution_from_stream.

Theorem C15_gcm_open_seal_from_stream :
  forall (ks : bytes -> bytes -> nat -> byte) (mac : bytes -> bytes -> bytes -> bytes),
    (forall k n c, length (mac k n c) = 16%nat) ->
    forall k n m, open_of ks mac k n (seal_of ks mac k n m) = Some m.
Proof. exact (fun ks mac H => open_seal (fun _ _ _ => 0) ks mac H). Qed.
Print Assumptions C15_gcm_open_seal_from_stream.

Theorem C15_crypto_laws_from_streams :
  forall cks gks mac, (forall k n c, length (mac k n c) = 16%nat) ->
  forall sbm r2p x pub_of,
    (forall a pa ra, sbm a = Some (pa, ra) -> length ra = 32%nat /\ nth 31 ra 0 < 64) ->
    (forall a pa ra, sbm a = Some (pa, ra) -> r2p ra = pa) ->
    (forall a pa ra k, sbm a = Some (pa, ra) -> x k pa = x a (pub_of k)) ->
    crypto_laws sbm r2p x (ctr_of cks) (seal_of gks mac) (open_of gks mac) pub_of.
Proof. exact crypto_laws_of_streams. Qed.
Print Assumptions C15_crypto_laws_from_streams.

Theorem C15_ctr_obfuscate_reveal_streams :
  forall cks sbm r2p x sha pub_of,
    (forall a pa ra, sbm a = Some (pa, ra) -> length ra = 32%nat /\ nth 31 ra 0 < 64) ->
    (forall a pa ra, sbm a = Some (pa, ra) -> r2p ra = pa) ->
    (forall a pa ra k, sbm a = Some (pa, ra) -> x k pa = x a (pub_of k)) ->
    forall r k t c, ctr_obfuscate sbm x sha (ctr_of cks) r t (pub_of k) = Some c -> ctr_reveal r2p x sha (ctr_of cks) c k = Some t.
Proof.
  exact (fun cks sbm r2p x sha pub_of H1 H2 H3 =>
           ctr_roundtrip_streams cks (fun _ _ _ => 0) (fun _ _ _ => repeat 0 16) (fun _ _ _ => eq_refl) sbm r2p x sha pub_of H1 H2 H3).
Qed.
Print Assumptions C15_ctr_obfuscate_reveal_streams.

Theorem C15_gcm_obfuscate_reveal_streams :
  forall gks mac, (forall k n c, length (mac k n c) = 16%nat) ->
  forall sbm r2p x sha pub_of,
    (forall a pa ra, sbm a = Some (pa, ra) -> length ra = 32%nat /\ nth 31 ra 0 < 64) ->
    (forall a pa ra, sbm a = Some (pa, ra) -> r2p ra = pa) ->
    (forall a pa ra k, sbm a = Some (pa, ra) -> x k pa = x a (pub_of k)) ->
    forall r k t c, gcm_obfuscate sbm x sha (seal_of gks mac) r t (pub_of k) = Some c -> gcm_reveal r2p x sha (open_of gks mac) c k = Some t.
Proof. exact (fun gks mac H => gcm_roundtrip_streams (fun _ _ _ => 0) gks mac H). Qed.
Print Assumptions C15_gcm_obfuscate_reveal_streams.

(* decoder on near-valid bytes: an encoding whose authenticator (the last 16 octets) was altered, everything before it
   intact, is rejected - from the shape alone, no assumption on the authenticator *)
Theorem C15_gcm_rejects_damaged_tag :
  forall gks mac, (forall k n c, length (mac k n c) = 16%nat) ->
  forall sbm r2p x sha pub_of,
    (forall a pa ra, sbm a = Some (pa, ra) -> length ra = 32%nat /\ nth 31 ra 0 < 64) ->
    (forall a pa ra, sbm a = Some (pa, ra) -> r2p ra = pa) ->
    (forall a pa ra k, sbm a = Some (pa, ra) -> x k pa = x a (pub_of k)) ->
    forall r k t c c', gcm_obfuscate sbm x sha (seal_of gks mac) r t (pub_of k) = Some c ->
      length c' = length c -> take (blen c - 16) c' = take (blen c - 16) c -> c' <> c ->
      gcm_reveal r2p x sha (open_of gks mac) c' k = None.
Proof. exact (fun gks mac H => gcm_rejects_damaged_tag (fun _ _ _ => 0) gks mac H). Qed.
Print Assumptions C15_gcm_rejects_damaged_tag.
