(* C15 model, part 5: the DNS message wire format of
   pkg/registrars/dns-registrar/dns/dns.go — messageBuilder (WriteMessage,
   WriteQuestion, WriteRR, WriteName with the suffix cache) and the reader
   (readMessage, readQuestion, readRR, readName with pointer following).
   Definitions only; executable. *)
From CJ Require Export Common.Base C15.ModelName.

Record question := { q_name : name; q_type : N; q_class : N }.
Record rr := { rr_name : name; rr_type : N; rr_class : N; rr_ttl : N; rr_data : bytes }.
Record message := { m_id : N; m_flags : N; m_q : list question; m_an : list rr; m_ns : list rr; m_ar : list rr }.

Definition u16 (n : N) : bytes := [n / 256; n mod 256].
Definition u32 (n : N) : bytes := [n / 16777216; (n / 65536) mod 256; (n / 256) mod 256; n mod 256].

(* ---- builder ---- *)
Inductive wr_err := EOverflow.
Definition bstate := (bytes * cache)%type.          (* bytes written so far, suffix cache *)
Definition wres := result wr_err bstate.

Definition b_name (st : bstate) (n : name) : wres :=
  let '(w, c) := st in
  match write_name c (blen w) n with
  | None => Panic
  | Some (bs, c') => Ok (w ++ bs, c')
  end.

Definition b_bytes (st : bstate) (bs : bytes) : bstate := let '(w, c) := st in (w ++ bs, c).

Definition b_question (st : bstate) (q : question) : wres :=
  match b_name st (q_name q) with
  | Ok st1 => Ok (b_bytes st1 (u16 (q_type q) ++ u16 (q_class q)))
  | Err e => Err e
  | Panic => Panic
  end.

Definition rr_tail (r : rr) : bytes :=
  u16 (rr_type r) ++ u16 (rr_class r) ++ u32 (rr_ttl r) ++ u16 (blen (rr_data r)) ++ rr_data r.

Definition b_rr (st : bstate) (r : rr) : wres :=
  match b_name st (rr_name r) with
  | Ok st1 => if 65535 <? blen (rr_data r) then Err EOverflow else Ok (b_bytes st1 (rr_tail r))
  | Err e => Err e
  | Panic => Panic
  end.

Fixpoint b_list {A} (f : bstate -> A -> wres) (st : bstate) (l : list A) : wres :=
  match l with
  | [] => Ok st
  | x :: r => match f st x with
              | Ok st1 => b_list f st1 r
              | Err e => Err e
              | Panic => Panic
              end
  end.

Definition lenN {A} (l : list A) : N := N.of_nat (length l).

Definition header (m : message) : bytes :=
  u16 (m_id m) ++ u16 (m_flags m) ++ u16 (lenN (m_q m)) ++ u16 (lenN (m_an m)) ++ u16 (lenN (m_ns m)) ++ u16 (lenN (m_ar m)).

Definition b_message (m : message) : wres :=
  if (65535 <? lenN (m_q m)) || (65535 <? lenN (m_an m)) || (65535 <? lenN (m_ns m)) || (65535 <? lenN (m_ar m))
  then Err EOverflow
  else
    match b_list b_question (header m, []) (m_q m) with
    | Ok st1 =>
      match b_list b_rr st1 (m_an m) with
      | Ok st2 =>
        match b_list b_rr st2 (m_ns m) with
        | Ok st3 => b_list b_rr st3 (m_ar m)
        | e => e
        end
      | e => e
      end
    | e => e
    end.

(* Message.WireFormat *)
Definition wire_message (m : message) : result wr_err bytes :=
  match b_message m with
  | Ok (w, _) => Ok w
  | Err e => Err e
  | Panic => Panic
  end.

(* ---- reader ---- *)
Definition get_u16 (buf : bytes) (pos : N) : option N :=
  match drop pos buf with
  | a :: b :: _ => Some (256 * a + b)
  | _ => None
  end.

Definition get_u32 (buf : bytes) (pos : N) : option N :=
  match drop pos buf with
  | a :: b :: c :: d :: _ => Some (16777216 * a + 65536 * b + 256 * c + d)
  | _ => None
  end.

Definition read_question (buf : bytes) (pos : N) : result rd_err (question * N) :=
  match read_name buf pos with
  | Ok (n, p) =>
    match get_u16 buf p, get_u16 buf (p + 2) with
    | Some t, Some c => Ok ({| q_name := n; q_type := t; q_class := c |}, p + 4)
    | _, _ => Err EEof
    end
  | Err e => Err e
  | Panic => Panic
  end.

Definition read_rr (buf : bytes) (pos : N) : result rd_err (rr * N) :=
  match read_name buf pos with
  | Ok (n, p) =>
    match get_u16 buf p, get_u16 buf (p + 2), get_u32 buf (p + 4), get_u16 buf (p + 8) with
    | Some t, Some c, Some ttl, Some len =>
      let rest := drop (p + 10) buf in
      if blen rest <? len then Err EEof
      else Ok ({| rr_name := n; rr_type := t; rr_class := c; rr_ttl := ttl; rr_data := take len rest |}, p + 10 + len)
    | _, _, _, _ => Err EEof
    end
  | Err e => Err e
  | Panic => Panic
  end.

Fixpoint read_n {A} (f : bytes -> N -> result rd_err (A * N)) (n : nat) (buf : bytes) (pos : N) : result rd_err (list A * N) :=
  match n with
  | O => Ok ([], pos)
  | S k =>
    match f buf pos with
    | Ok (x, p) =>
      match read_n f k buf p with
      | Ok (xs, p') => Ok (x :: xs, p')
      | Err e => Err e
      | Panic => Panic
      end
    | Err e => Err e
    | Panic => Panic
    end
  end.

(* MessageFromWireFormat *)
Definition read_message (buf : bytes) : result rd_err message :=
  match get_u16 buf 0, get_u16 buf 2, get_u16 buf 4, get_u16 buf 6, get_u16 buf 8, get_u16 buf 10 with
  | Some id, Some fl, Some qd, Some an, Some ns, Some ar =>
    match read_n read_question (N.to_nat qd) buf 12 with
    | Ok (qs, p1) =>
      match read_n read_rr (N.to_nat an) buf p1 with
      | Ok (ans, p2) =>
        match read_n read_rr (N.to_nat ns) buf p2 with
        | Ok (nss, p3) =>
          match read_n read_rr (N.to_nat ar) buf p3 with
          | Ok (ars, p4) =>
            if p4 <? blen buf then Err ETrailing
            else Ok {| m_id := id; m_flags := fl; m_q := qs; m_an := ans; m_ns := nss; m_ar := ars |}
          | Err e => Err e
          | Panic => Panic
          end
        | Err e => Err e
        | Panic => Panic
        end
      | Err e => Err e
      | Panic => Panic
      end
    | Err e => Err e
    | Panic => Panic
    end
  | _, _, _, _, _, _ => Err EEof
  end.

(* ---- the domain of the round-trip statement ---- *)
Definition names_of (m : message) : list name :=
  map q_name (m_q m) ++ map rr_name (m_an m) ++ map rr_name (m_ns m) ++ map rr_name (m_ar m).

(* every name passed NewName: labels 1..63, wire length <= 255 *)
Definition names_ok (m : message) : Prop := Forall (fun n => name_ok n = true) (names_of m).
