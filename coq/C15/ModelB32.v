(* C15: a concrete model of Go's encoding/base32 StdEncoding.WithPadding(NoPadding)
   (Encode, and Decode as implemented in go1.23: whole quanta of 8 characters, a final
   partial quantum of 2/4/5/7 characters yields 1/2/3/4 octets, one of 1/3/6 characters
   yields nothing, any character outside the alphabet is an error).
   Used to instantiate the abstract coding when the model is run against the code;
   the theorems stay parametric in the coding.  Definitions only. *)
From CJ Require Export Common.Base.

Definition b32_char (v : N) : byte := if v <? 26 then 65 + v else 24 + v.       (* A-Z 2-7 *)
Definition b32_val (c : byte) : option N :=
  if (65 <=? c) && (c <=? 90) then Some (c - 65)
  else if (50 <=? c) && (c <=? 55) then Some (c - 24)
  else None.

(* ---- Encode ---- *)
Definition enc_quantum (g : bytes) : bytes :=
  let b i := nth i g 0 in
  let v := [ b 0%nat / 8;
             (b 0%nat mod 8) * 4 + b 1%nat / 64;
             (b 1%nat / 2) mod 32;
             (b 1%nat mod 2) * 16 + b 2%nat / 16;
             (b 2%nat mod 16) * 2 + b 3%nat / 128;
             (b 3%nat / 4) mod 32;
             (b 3%nat mod 4) * 8 + b 4%nat / 32;
             b 4%nat mod 32 ] in
  let n := match length g with 1 => 2 | 2 => 4 | 3 => 5 | 4 => 7 | _ => 8 end%nat in
  map b32_char (firstn n v).

Fixpoint b32_encode_fuel (fuel : nat) (p : bytes) : bytes :=
  match fuel with
  | O => []
  | S f => match p with
           | [] => []
           | _ => enc_quantum (firstn 5 p) ++ b32_encode_fuel f (skipn 5 p)
           end
  end.
Definition b32_encode (p : bytes) : bytes := b32_encode_fuel (length p) p.

(* ---- Decode ---- *)
Fixpoint vals (s : bytes) : option (list N) :=
  match s with
  | [] => Some []
  | c :: r => match b32_val c, vals r with
              | Some v, Some vs => Some (v :: vs)
              | _, _ => None
              end
  end.

Definition dec_quantum (d : list N) : bytes :=
  let v i := nth i d 0 in
  let o := [ (v 0%nat * 8 + v 1%nat / 4) mod 256;
             (v 1%nat * 64 + v 2%nat * 2 + v 3%nat / 16) mod 256;
             (v 3%nat * 16 + v 4%nat / 2) mod 256;
             (v 4%nat * 128 + v 5%nat * 4 + v 6%nat / 8) mod 256;
             (v 6%nat * 32 + v 7%nat) mod 256 ] in
  let n := match length d with 8 => 5 | 7 => 4 | 5 => 3 | 4 => 2 | 2 => 1 | _ => 0 end%nat in
  firstn n o.

Fixpoint dec_quanta (fuel : nat) (d : list N) : bytes :=
  match fuel with
  | O => []
  | S f => match d with
           | [] => []
           | _ => dec_quantum (firstn 8 d) ++ dec_quanta f (skipn 8 d)
           end
  end.

Definition b32_decode (s : bytes) : option bytes :=
  match vals s with
  | None => None
  | Some d => Some (dec_quanta (length d) d)
  end.
