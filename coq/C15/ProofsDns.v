(* C15 proofs, part 5: the DNS message round trip with name compression.

   Invariant of the builder (cache_inv): every cache entry decodes, from the
   bytes written so far, to its suffix with the recorded pointer-chain depth
   (decodes_at).  decodes_at only looks at bytes that are already written, so
   it is stable under appending; a pointer is only emitted to an entry of
   depth < 10, so every written name decodes within the reader's budget. *)
From CJ Require Import Common.Base Common.BaseProofs C15.Model C15.Proofs C15.ModelName C15.ProofsName C15.ModelDns.
From Coq Require Import Lia ZifyN ZifyNat ZifyBool.
Ltac Zify.zify_post_hook ::= Z.div_mod_to_equations.

(* ---- slices of the buffer ---- *)
Definition slice (w : bytes) (off : N) (x : bytes) : Prop :=
  exists pre post, w = pre ++ x ++ post /\ blen pre = off.

Lemma slice_app w off x z : slice w off x -> slice (w ++ z) off x.
Proof.
  intros (pre & post & -> & H). exists pre, (post ++ z). split; [|exact H].
  rewrite <- !app_assoc. reflexivity.
Qed.

Lemma slice_drop w off x : slice w off x -> exists post, drop off w = x ++ post.
Proof.
  intros (pre & post & -> & H). exists post. apply drop_app_exact. exact H.
Qed.

Lemma slice_length w off x : slice w off x -> (length x <= length w)%nat.
Proof. intros (pre & post & -> & _). rewrite !app_length. lia. Qed.

Fixpoint wire_labels (ls : name) : bytes :=
  match ls with
  | [] => []
  | l :: r => blen l :: l ++ wire_labels r
  end.
Definition ptr_bytes (p : N) : bytes := [192 + p / 256; p mod 256].

Lemma wire_labels_app a b : wire_labels (a ++ b) = wire_labels a ++ wire_labels b.
Proof.
  induction a as [|l a IH]; [reflexivity|]. cbn [app wire_labels]. rewrite IH, <- app_assoc. reflexivity.
Qed.

Lemma name_wire_labels n : name_wire n = wire_labels n ++ [0].
Proof. induction n as [|l r IH]; [reflexivity|]. cbn [name_wire wire_labels app]. rewrite IH, <- app_assoc. reflexivity. Qed.

Lemma length_wire_labels ls : (length ls <= length (wire_labels ls))%nat.
Proof. induction ls as [|l r IH]; cbn [wire_labels length]; [lia|]. rewrite app_length. lia. Qed.

(* ---- reading the labels of one segment ---- *)
Lemma read_seg_labels ls : forall fuel tail pos acc,
  Forall label_ok ls -> (length ls < fuel)%nat ->
  read_seg fuel (wire_labels ls ++ tail) pos acc =
  read_seg (fuel - length ls) tail (pos + blen (wire_labels ls)) (rev ls ++ acc).
Proof.
  induction ls as [|l r IH]; intros fuel tail pos acc Hok Hf.
  - cbn [wire_labels app length rev]. change (blen []) with 0. rewrite N.add_0_r, Nat.sub_0_r. reflexivity.
  - destruct fuel; [cbn in Hf; lia|].
    inversion Hok as [|? ? Hl Hr]; subst. unfold label_ok in Hl.
    cbn [wire_labels app read_seg].
    destruct (blen l <? 64) eqn:H1; [|lia].
    destruct (blen l =? 0) eqn:H2; [lia|].
    rewrite <- app_assoc.
    destruct (blen (l ++ wire_labels r ++ tail) <? blen l) eqn:H3.
    { rewrite blen_app in H3. lia. }
    rewrite take_app_exact, drop_app_exact by reflexivity.
    rewrite IH; [|assumption|cbn [length] in Hf; lia].
    cbn [rev length]. rewrite <- app_assoc. cbn [app].
    replace (S fuel - S (length r))%nat with (fuel - length r)%nat by lia.
    f_equal. rewrite blen_cons, blen_app. lia.
Qed.

Lemma seg_at_end w off ls acc :
  Forall label_ok ls -> slice w off (wire_labels ls ++ [0]) ->
  seg_at w off acc = SegEnd (rev ls ++ acc) (off + blen (wire_labels ls) + 1).
Proof.
  intros Hok Hs. unfold seg_at.
  pose proof (slice_length _ _ _ Hs) as Hlen. rewrite app_length in Hlen. cbn [length] in Hlen.
  pose proof (length_wire_labels ls) as Hll.
  destruct (slice_drop _ _ _ Hs) as [post ->]. rewrite <- app_assoc.
  rewrite read_seg_labels by (assumption || lia).
  destruct (S (length w) - length ls)%nat as [|f] eqn:Hf; [lia|]. reflexivity.
Qed.

Lemma seg_at_ptr w off ls p acc :
  Forall label_ok ls -> slice w off (wire_labels ls ++ ptr_bytes p) ->
  seg_at w off acc = SegPtr (rev ls ++ acc) p (off + blen (wire_labels ls) + 2).
Proof.
  intros Hok Hs. unfold seg_at.
  pose proof (slice_length _ _ _ Hs) as Hlen. rewrite app_length in Hlen. cbn [length ptr_bytes] in Hlen.
  pose proof (length_wire_labels ls) as Hll.
  destruct (slice_drop _ _ _ Hs) as [post ->]. rewrite <- app_assoc.
  rewrite read_seg_labels by (assumption || lia).
  destruct (S (length w) - length ls)%nat as [|f] eqn:Hf; [lia|].
  unfold ptr_bytes. cbn [app read_seg].
  destruct (192 + p / 256 <? 64) eqn:H1; [lia|].
  destruct (192 <=? 192 + p / 256) eqn:H2; [|lia].
  f_equal. lia.
Qed.

(* ---- decodes_at: the name stored at an offset, with its pointer-chain depth ---- *)
Inductive decodes_at (w : bytes) : N -> name -> nat -> Prop :=
| DEnd off ls :
    Forall label_ok ls -> slice w off (wire_labels ls ++ [0]) -> decodes_at w off ls 0
| DPtr off ls p n d :
    Forall label_ok ls -> slice w off (wire_labels ls ++ ptr_bytes p) ->
    decodes_at w p n d -> decodes_at w off (ls ++ n) (S d).

Lemma decodes_at_app w z off n d : decodes_at w off n d -> decodes_at (w ++ z) off n d.
Proof.
  induction 1 as [off ls Hok Hs|off ls p n d Hok Hs _ IH].
  - apply DEnd; [assumption|apply slice_app; assumption].
  - eapply DPtr; [assumption|apply slice_app; eassumption|exact IH].
Qed.

(* following pointers from an offset that decodes, within the budget *)
Lemma read_follow_decodes w off n d : decodes_at w off n d ->
  forall budget acc, (d < budget)%nat -> read_follow budget w off acc = Ok (rev n ++ acc).
Proof.
  induction 1 as [off ls Hok Hs|off ls p n d Hok Hs _ IH]; intros budget acc Hb.
  - destruct budget; [lia|]. cbn [read_follow]. rewrite (seg_at_end _ _ _ _ Hok Hs). reflexivity.
  - destruct budget; [lia|]. cbn [read_follow]. rewrite (seg_at_ptr _ _ _ _ _ Hok Hs).
    rewrite IH by lia. rewrite rev_app_distr, <- app_assoc. reflexivity.
Qed.

(* readName at an offset where a name was written *)
Lemma read_name_end w off ls :
  Forall label_ok ls -> slice w off (wire_labels ls ++ [0]) -> name_wire_len ls <= 255 ->
  read_name w off = Ok (ls, off + blen (wire_labels ls) + 1).
Proof.
  intros Hok Hs Hl. unfold read_name. rewrite (seg_at_end _ _ _ _ Hok Hs).
  unfold finish_name. rewrite app_nil_r, rev_involutive.
  destruct (255 <? name_wire_len ls) eqn:H; [lia|reflexivity].
Qed.

Lemma read_name_ptr w off ls p n d :
  Forall label_ok ls -> slice w off (wire_labels ls ++ ptr_bytes p) ->
  decodes_at w p n d -> (d < 10)%nat -> name_wire_len (ls ++ n) <= 255 ->
  read_name w off = Ok (ls ++ n, off + blen (wire_labels ls) + 2).
Proof.
  intros Hok Hs Hd Hlt Hl. unfold read_name. rewrite (seg_at_ptr _ _ _ _ _ Hok Hs).
  change (N.to_nat ptr_limit) with 10%nat.
  rewrite (read_follow_decodes _ _ _ _ Hd) by exact Hlt.
  unfold finish_name. rewrite app_nil_r, rev_app_distr, !rev_involutive.
  destruct (255 <? name_wire_len (ls ++ n)) eqn:H; [lia|reflexivity].
Qed.

(* ---- the builder's cache ---- *)
Definition cache_inv (w : bytes) (c : cache) : Prop :=
  forall e, In e c -> exists d, ce_depth e = N.of_nat d /\ decodes_at w (ce_off e) (ce_key e) d.

Lemma cache_inv_nil w : cache_inv w [].
Proof. intros e []. Qed.

Lemma cache_inv_app w z c : cache_inv w c -> cache_inv (w ++ z) c.
Proof. intros H e He. destruct (H e He) as (d & Hd & Hdec). exists d. split; [exact Hd|]. apply decodes_at_app. exact Hdec. Qed.

Lemma cache_find_in c k p d :
  cache_find c k = Some (p, d) -> exists e, In e c /\ ce_key e = k /\ ce_off e = p /\ ce_depth e = d.
Proof.
  induction c as [|e r IH]; cbn [cache_find]; [discriminate|].
  destruct (name_eqb (ce_key e) k) eqn:E.
  - intros [= <- <-]. apply name_eqb_eq in E. exists e. cbn. auto.
  - intros H. destruct (IH H) as (e' & Hin & Hk). exists e'. cbn. auto.
Qed.

(* the (suffix, offset) pairs recorded for the labels written verbatim *)
Fixpoint entries_of (ls rest : name) (off : N) : list (name * N) :=
  match ls with
  | [] => []
  | l :: ls' => ((l :: ls') ++ rest, off) :: entries_of ls' rest (off + 1 + blen l)
  end.

(* what WriteName writes: some labels verbatim, then the root octet or a pointer to a usable cache entry *)
Lemma write_name_aux_spec n : forall c off bs ents d,
  write_name_aux c off n = Some (bs, ents, d) ->
  exists ls rest tail,
    n = ls ++ rest /\ Forall label_ok ls /\ bs = wire_labels ls ++ tail /\ ents = entries_of ls rest off /\
    ((rest = [] /\ tail = [0] /\ d = 0) \/
     (exists p dp, tail = ptr_bytes p /\ d = dp + 1 /\ cache_find c rest = Some (p, dp) /\ ptr_usable p dp = true)).
Proof.
  induction n as [|l r IH]; intros c off bs ents d H.
  - cbn in H. injection H as <- <- <-. exists [], [], [0]. repeat split; auto.
  - cbn [write_name_aux] in H.
    assert (Hverb : (if (blen l =? 0) || (63 <? blen l) then None
                     else match write_name_aux c (off + 1 + blen l) r with
                          | Some (bs0, ents0, d0) => Some (blen l :: l ++ bs0, (l :: r, off) :: ents0, d0)
                          | None => None
                          end) = Some (bs, ents, d) ->
            exists ls rest tail,
              l :: r = ls ++ rest /\ Forall label_ok ls /\ bs = wire_labels ls ++ tail /\ ents = entries_of ls rest off /\
              ((rest = [] /\ tail = [0] /\ d = 0) \/
               (exists p dp, tail = ptr_bytes p /\ d = dp + 1 /\ cache_find c rest = Some (p, dp) /\ ptr_usable p dp = true))).
    { intros Hv. destruct ((blen l =? 0) || (63 <? blen l)) eqn:Hb; [discriminate|].
      destruct (write_name_aux c (off + 1 + blen l) r) as [[[bs0 ents0] d0]|] eqn:Hr; [|discriminate].
      injection Hv as <- <- <-.
      destruct (IH _ _ _ _ _ Hr) as (ls & rest & tail & -> & Hok & -> & -> & Hcase).
      exists (l :: ls), rest, tail. repeat split.
      - constructor; [unfold label_ok; lia|exact Hok].
      - cbn [wire_labels app]. rewrite <- app_assoc. reflexivity.
      - exact Hcase. }
    destruct (cache_find c (l :: r)) as [[p dp]|] eqn:Hf; [|exact (Hverb H)].
    destruct (ptr_usable p dp) eqn:Hu; [|exact (Hverb H)].
    injection H as <- <- <-.
    exists [], (l :: r), (ptr_bytes p). repeat split; auto.
    right. exists p, dp. auto.
Qed.

Lemma blen_wire_labels_cons l ls : blen (wire_labels (l :: ls)) = 1 + blen l + blen (wire_labels ls).
Proof. cbn [wire_labels]. rewrite blen_cons, blen_app. lia. Qed.

(* every recorded entry decodes from the extended buffer *)
Lemma entries_decode_end ls : forall w pre post off,
  Forall label_ok ls -> w = pre ++ (wire_labels ls ++ [0]) ++ post -> blen pre = off ->
  forall k o, In (k, o) (entries_of ls [] off) -> decodes_at w o k 0.
Proof.
  induction ls as [|l ls IH]; intros w pre post off Hok Hw Hpre k o Hin; [destruct Hin|].
  cbn [entries_of] in Hin. destruct Hin as [Hin|Hin].
  - injection Hin as <- <-. rewrite app_nil_r. apply DEnd; [assumption|].
    exists pre, post. auto.
  - inversion Hok as [|? ? Hl Hr]; subst.
    apply (IH (pre ++ (wire_labels (l :: ls) ++ [0]) ++ post) (pre ++ blen l :: l) post (blen pre + 1 + blen l)); auto.
    + cbn [wire_labels]. rewrite <- !app_assoc. cbn [app]. rewrite <- !app_assoc. reflexivity.
    + rewrite blen_app, blen_cons. lia.
Qed.

Lemma entries_decode_ptr ls : forall w pre post off rest p d,
  Forall label_ok ls -> w = pre ++ (wire_labels ls ++ ptr_bytes p) ++ post -> blen pre = off ->
  decodes_at w p rest d ->
  forall k o, In (k, o) (entries_of ls rest off) -> decodes_at w o k (S d).
Proof.
  induction ls as [|l ls IH]; intros w pre post off rest p d Hok Hw Hpre Hd k o Hin; [destruct Hin|].
  cbn [entries_of] in Hin. destruct Hin as [Hin|Hin].
  - injection Hin as <- <-. apply (DPtr w off (l :: ls) p rest d); [assumption| |exact Hd].
    exists pre, post. auto.
  - inversion Hok as [|? ? Hl Hr]; subst.
    apply (IH (pre ++ (wire_labels (l :: ls) ++ ptr_bytes p) ++ post) (pre ++ blen l :: l) post (blen pre + 1 + blen l) rest p d); auto.
    + cbn [wire_labels]. rewrite <- !app_assoc. cbn [app]. rewrite <- !app_assoc. reflexivity.
    + rewrite blen_app, blen_cons. lia.
Qed.

(* WriteName at the end of the buffer: the invariant is kept, and readName gives the name back *)
Lemma write_name_spec w c n bs c' :
  cache_inv w c -> write_name c (blen w) n = Some (bs, c') -> name_ok n = true ->
  cache_inv (w ++ bs) c' /\
  forall post, read_name ((w ++ bs) ++ post) (blen w) = Ok (n, blen (w ++ bs)).
Proof.
  intros Hinv Hw Hn. apply name_ok_spec in Hn as [Hlab Hlen].
  unfold write_name in Hw.
  destruct (write_name_aux c (blen w) n) as [[[bs0 ents] d]|] eqn:Ha; [|discriminate].
  injection Hw as <- <-.
  destruct (write_name_aux_spec _ _ _ _ _ _ Ha) as (ls & rest & tail & -> & Hok & -> & -> & Hcase).
  destruct Hcase as [(-> & -> & ->)|(p & dp & -> & -> & Hfind & Huse)].
  - (* all labels verbatim, root octet *)
    rewrite app_nil_r in *. split.
    + intros e He. apply in_app_or in He as [He|He].
      * unfold mk_entries in He. apply in_map_iff in He as ([k o] & <- & Hin). cbn [ce_key ce_off ce_depth fst snd].
        exists 0%nat. split; [reflexivity|].
        eapply (entries_decode_end ls _ w [] (blen w)); eauto. rewrite app_nil_r. reflexivity.
      * exact (cache_inv_app _ _ _ Hinv e He).
    + intros post. rewrite blen_app, blen_app.
      rewrite (read_name_end _ (blen w) ls); auto.
      * f_equal. f_equal. change (blen [0]) with 1. lia.
      * exists w, post. split; [|reflexivity]. rewrite <- !app_assoc. reflexivity.
  - (* pointer to a cache entry within the limits *)
    destruct (cache_find_in _ _ _ _ Hfind) as (e & Hin & Hk & Ho & Hdp).
    destruct (Hinv e Hin) as (d & Hd & Hdec). rewrite Hk, Ho in Hdec. rewrite Hdp in Hd. subst dp.
    assert (Hlt : (d < 10)%nat).
    { unfold ptr_usable, ptr_limit in Huse. lia. }
    split.
    + intros e' He'. apply in_app_or in He' as [He'|He'].
      * unfold mk_entries in He'. apply in_map_iff in He' as ([k o] & <- & Hin'). cbn [ce_key ce_off ce_depth fst snd].
        exists (S d). split; [lia|].
        eapply (entries_decode_ptr ls _ w [] (blen w) rest p d); eauto.
        -- rewrite app_nil_r. reflexivity.
        -- apply decodes_at_app. exact Hdec.
      * exact (cache_inv_app _ _ _ Hinv e' He').
    + intros post. rewrite blen_app, blen_app.
      rewrite (read_name_ptr _ (blen w) ls p rest d); auto.
      * f_equal. f_equal. change (blen (ptr_bytes p)) with 2. lia.
      * exists w, post. split; [|reflexivity]. rewrite <- !app_assoc. reflexivity.
      * rewrite <- app_assoc. apply decodes_at_app. exact Hdec.
Qed.

(* ---- fixed-width fields ---- *)
Lemma get_u16_at pre a post : get_u16 (pre ++ u16 a ++ post) (blen pre) = Some a.
Proof.
  unfold get_u16. rewrite drop_app_exact by reflexivity. unfold u16. cbn [app]. f_equal. lia.
Qed.

Lemma get_u32_at pre a post : get_u32 (pre ++ u32 a ++ post) (blen pre) = Some a.
Proof.
  unfold get_u32. rewrite drop_app_exact by reflexivity. unfold u32. cbn [app]. f_equal. lia.
Qed.

Lemma drop_shift W X k : drop (blen W + k) (W ++ X) = drop k X.
Proof.
  unfold drop, blen. rewrite N2Nat.inj_add, Nat2N.id, skipn_app.
  rewrite skipn_all2 by lia. cbn [app]. f_equal. lia.
Qed.
Lemma get_u16_shift W X k : get_u16 (W ++ X) (blen W + k) = get_u16 X k.
Proof. unfold get_u16. rewrite drop_shift. reflexivity. Qed.
Lemma get_u16_shift0 W X : get_u16 (W ++ X) (blen W) = get_u16 X 0.
Proof. rewrite <- (N.add_0_r (blen W)). apply get_u16_shift. Qed.
Lemma get_u32_shift W X k : get_u32 (W ++ X) (blen W + k) = get_u32 X k.
Proof. unfold get_u32. rewrite drop_shift. reflexivity. Qed.
Ltac field_eval :=
  unfold get_u16, get_u32, drop, u16, u32;
  change (N.to_nat 0) with 0%nat; change (N.to_nat 2) with 2%nat; change (N.to_nat 4) with 4%nat;
  change (N.to_nat 6) with 6%nat; change (N.to_nat 8) with 8%nat; change (N.to_nat 10) with 10%nat;
  cbn [skipn app].

(* ---- one item written at the end of the buffer is read back from there ---- *)
Definition item_spec {A} (f : bstate -> A -> wres) (rd : bytes -> N -> result rd_err (A * N)) (ok : A -> Prop) : Prop :=
  forall w c x w' c', cache_inv w c -> f (w, c) x = Ok (w', c') -> ok x ->
    exists bs, w' = w ++ bs /\ cache_inv w' c' /\
               forall post, rd (w' ++ post) (blen w) = Ok (x, blen w').

Lemma b_name_spec w c n w' c' :
  cache_inv w c -> b_name (w, c) n = Ok (w', c') -> name_ok n = true ->
  exists bs, w' = w ++ bs /\ cache_inv w' c' /\
             forall post, read_name (w' ++ post) (blen w) = Ok (n, blen w').
Proof.
  intros Hinv Hb Hn. unfold b_name in Hb.
  destruct (write_name c (blen w) n) as [[bs c1]|] eqn:Hw; [|discriminate].
  injection Hb as <- <-.
  destruct (write_name_spec _ _ _ _ _ Hinv Hw Hn) as [Hinv' Hread].
  exists bs. auto.
Qed.

Lemma question_spec : item_spec b_question read_question (fun q => name_ok (q_name q) = true).
Proof.
  intros w c q w' c' Hinv Hb Hok. unfold b_question in Hb.
  destruct (b_name (w, c) (q_name q)) as [[w1 c1]|e|] eqn:Hn; try discriminate.
  injection Hb as <- <-.
  destruct (b_name_spec _ _ _ _ _ Hinv Hn Hok) as (bs & -> & Hinv1 & Hread).
  exists (bs ++ u16 (q_type q) ++ u16 (q_class q)). split; [rewrite app_assoc; reflexivity|].
  split; [apply cache_inv_app; exact Hinv1|].
  intros post. unfold read_question.
  rewrite <- app_assoc. rewrite Hread.
  rewrite get_u16_shift0, get_u16_shift.
  destruct q as [qn qt qc]. cbn [q_name q_type q_class]. field_eval.
  f_equal. f_equal; [f_equal; lia|].
  rewrite !blen_app. change (blen [qt / 256; qt mod 256; qc / 256; qc mod 256]) with 4. lia.
Qed.

Lemma rr_spec : item_spec b_rr read_rr (fun r => name_ok (rr_name r) = true).
Proof.
  intros w c r w' c' Hinv Hb Hok. unfold b_rr in Hb.
  destruct (b_name (w, c) (rr_name r)) as [[w1 c1]|e|] eqn:Hn; try discriminate.
  destruct (65535 <? blen (rr_data r)) eqn:Hlen; [discriminate|].
  injection Hb as <- <-.
  destruct (b_name_spec _ _ _ _ _ Hinv Hn Hok) as (bs & -> & Hinv1 & Hread).
  exists (bs ++ rr_tail r). split; [rewrite app_assoc; reflexivity|].
  split; [apply cache_inv_app; exact Hinv1|].
  intros post. unfold read_rr.
  rewrite <- app_assoc. rewrite Hread.
  rewrite get_u16_shift0, !get_u16_shift, get_u32_shift, drop_shift.
  destruct r as [rn rt rc rttl rd]. cbn [rr_name rr_type rr_class rr_ttl rr_data] in *.
  unfold rr_tail. cbn [rr_name rr_type rr_class rr_ttl rr_data]. field_eval.
  replace (256 * (blen rd / 256) + blen rd mod 256) with (blen rd) by lia.
  destruct (blen (rd ++ post) <? blen rd) eqn:Hd.
  { rewrite blen_app in Hd. lia. }
  rewrite take_app_exact by reflexivity.
  f_equal. f_equal; [f_equal; lia|].
  unfold blen. rewrite !app_length. cbn [length]. lia.
Qed.

(* ---- a section ---- *)
Lemma b_list_spec {A} (f : bstate -> A -> wres) rd ok :
  item_spec f rd ok ->
  forall l w c w' c', cache_inv w c -> b_list f (w, c) l = Ok (w', c') -> Forall ok l ->
    exists bs, w' = w ++ bs /\ cache_inv w' c' /\
               forall post, read_n rd (length l) (w' ++ post) (blen w) = Ok (l, blen w').
Proof.
  intros Hspec. induction l as [|x l IH]; intros w c w' c' Hinv Hb Hok.
  - cbn in Hb. injection Hb as <- <-. exists []. rewrite app_nil_r. repeat split; auto.
  - cbn [b_list] in Hb. destruct (f (w, c) x) as [[w1 c1]|e|] eqn:Hf; try discriminate.
    inversion Hok as [|? ? Hx Hl]; subst.
    destruct (Hspec _ _ _ _ _ Hinv Hf Hx) as (bs1 & -> & Hinv1 & Hread1).
    destruct (IH _ _ _ _ Hinv1 Hb Hl) as (bs2 & -> & Hinv2 & Hread2).
    exists (bs1 ++ bs2). split; [rewrite app_assoc; reflexivity|]. split; [exact Hinv2|].
    intros post. cbn [length read_n].
    rewrite <- (app_assoc (w ++ bs1) bs2 post). rewrite Hread1.
    rewrite (app_assoc (w ++ bs1) bs2 post). rewrite Hread2. reflexivity.
Qed.

(* ---- the message ---- *)
Lemma names_ok_sections m :
  names_ok m ->
  Forall (fun q => name_ok (q_name q) = true) (m_q m) /\
  Forall (fun r => name_ok (rr_name r) = true) (m_an m) /\
  Forall (fun r => name_ok (rr_name r) = true) (m_ns m) /\
  Forall (fun r => name_ok (rr_name r) = true) (m_ar m).
Proof.
  unfold names_ok, names_of. intros H.
  apply Forall_app in H as [H1 H]. apply Forall_app in H as [H2 H]. apply Forall_app in H as [H3 H4].
  rewrite Forall_map in H1, H2, H3, H4. auto.
Qed.

Lemma to_nat_lenN {A} (l : list A) : N.to_nat (lenN l) = length l.
Proof. unfold lenN. apply Nat2N.id. Qed.

Lemma dns_message_roundtrip m b :
  names_ok m -> wire_message m = Ok b -> read_message b = Ok m.
Proof.
  intros Hn Hw. apply names_ok_sections in Hn as (Hq & Han & Hns & Har).
  unfold wire_message in Hw. destruct (b_message m) as [[w c]|e|] eqn:Hb; try discriminate.
  injection Hw as <-. unfold b_message in Hb.
  destruct ((65535 <? lenN (m_q m)) || (65535 <? lenN (m_an m)) || (65535 <? lenN (m_ns m)) || (65535 <? lenN (m_ar m)));
    [discriminate|].
  destruct (b_list b_question (header m, []) (m_q m)) as [[w1 c1]|e|] eqn:H1; try discriminate.
  destruct (b_list b_rr (w1, c1) (m_an m)) as [[w2 c2]|e|] eqn:H2; try discriminate.
  destruct (b_list b_rr (w2, c2) (m_ns m)) as [[w3 c3]|e|] eqn:H3; try discriminate.
  destruct (b_list_spec _ _ _ question_spec _ _ _ _ _ (cache_inv_nil _) H1 Hq) as (bs1 & -> & I1 & R1).
  destruct (b_list_spec _ _ _ rr_spec _ _ _ _ _ I1 H2 Han) as (bs2 & -> & I2 & R2).
  destruct (b_list_spec _ _ _ rr_spec _ _ _ _ _ I2 H3 Hns) as (bs3 & -> & I3 & R3).
  destruct (b_list_spec _ _ _ rr_spec _ _ _ _ _ I3 Hb Har) as (bs4 & -> & I4 & R4).
  unfold read_message.
  set (W := (((header m ++ bs1) ++ bs2) ++ bs3) ++ bs4).
  assert (HW : W = header m ++ (bs1 ++ bs2 ++ bs3 ++ bs4)).
  { unfold W. rewrite <- !app_assoc. reflexivity. }
  assert (G : get_u16 W 0 = Some (m_id m) /\ get_u16 W 2 = Some (m_flags m) /\
              get_u16 W 4 = Some (lenN (m_q m)) /\ get_u16 W 6 = Some (lenN (m_an m)) /\
              get_u16 W 8 = Some (lenN (m_ns m)) /\ get_u16 W 10 = Some (lenN (m_ar m))).
  { rewrite HW. unfold header. field_eval. repeat split; f_equal; lia. }
  destruct G as (G0 & G2 & G4 & G6 & G8 & G10). rewrite G0, G2, G4, G6, G8, G10.
  rewrite !to_nat_lenN.
  assert (H12 : blen (header m) = 12) by reflexivity.
  specialize (R1 (bs2 ++ bs3 ++ bs4)). rewrite H12 in R1.
  replace ((header m ++ bs1) ++ bs2 ++ bs3 ++ bs4) with W in R1 by (unfold W; rewrite <- !app_assoc; reflexivity).
  rewrite R1.
  specialize (R2 (bs3 ++ bs4)).
  replace (((header m ++ bs1) ++ bs2) ++ bs3 ++ bs4) with W in R2 by (unfold W; rewrite <- !app_assoc; reflexivity).
  rewrite R2.
  specialize (R3 bs4). fold W in R3. rewrite R3.
  specialize (R4 []). rewrite app_nil_r in R4. fold W in R4. rewrite R4.
  destruct (blen W <? blen W) eqn:Ht; [lia|].
  destruct m; reflexivity.
Qed.

(* the encoder rejects exactly what does not fit its 16-bit fields (for valid names) *)
Lemma b_name_ok w c n : name_ok n = true -> exists st, b_name (w, c) n = Ok st.
Proof.
  intros Hn. apply name_ok_spec in Hn as [Hl _]. unfold b_name, write_name.
  assert (H : forall n c off, Forall label_ok n -> exists r, write_name_aux c off n = Some r).
  { clear. induction n as [|l r IH]; intros c off Hok; [eexists; reflexivity|].
    inversion Hok as [|? ? Hl Hr]; subst. unfold label_ok in Hl. cbn [write_name_aux].
    destruct (IH c (off + 1 + blen l) Hr) as [[[bs ents] d] E]. rewrite E.
    destruct ((blen l =? 0) || (63 <? blen l)) eqn:Hb; [lia|].
    destruct (cache_find c (l :: r)) as [[p dp]|]; [destruct (ptr_usable p dp)|]; eexists; reflexivity. }
  destruct (H n c (blen w) Hl) as [[[bs ents] d] E]. rewrite E. eexists; reflexivity.
Qed.

(* ---- which messages the encoder accepts ---- *)
Definition rr_fits (r : rr) : Prop := blen (rr_data r) <= 65535.
Definition msg_fits (m : message) : Prop :=
  lenN (m_q m) <= 65535 /\ lenN (m_an m) <= 65535 /\ lenN (m_ns m) <= 65535 /\ lenN (m_ar m) <= 65535 /\
  Forall rr_fits (m_an m) /\ Forall rr_fits (m_ns m) /\ Forall rr_fits (m_ar m).

Lemma b_question_ok st q : name_ok (q_name q) = true -> exists st', b_question st q = Ok st'.
Proof.
  intros H. destruct st as [w c]. unfold b_question. destruct (b_name_ok w c _ H) as [st1 ->]. eexists; reflexivity.
Qed.

Lemma b_list_q_ok l : forall st, Forall (fun q => name_ok (q_name q) = true) l -> exists st', b_list b_question st l = Ok st'.
Proof.
  induction l as [|q l IH]; intros st H; [eexists; reflexivity|].
  inversion H as [|? ? Hq Hl]; subst. cbn [b_list]. destruct (b_question_ok st q Hq) as [st1 ->]. apply IH. exact Hl.
Qed.

Lemma b_list_rr_cases l : forall st, Forall (fun r => name_ok (rr_name r) = true) l ->
  (Forall rr_fits l /\ exists st', b_list b_rr st l = Ok st') \/ (~ Forall rr_fits l /\ b_list b_rr st l = Err EOverflow).
Proof.
  induction l as [|r l IH]; intros st H; [left; split; [constructor|eexists; reflexivity]|].
  inversion H as [|? ? Hr Hl]; subst. cbn [b_list]. destruct st as [w c].
  destruct (b_name_ok w c _ Hr) as [st1 E1].
  assert (E : b_rr (w, c) r = if 65535 <? blen (rr_data r) then Err EOverflow else Ok (b_bytes st1 (rr_tail r))).
  { unfold b_rr. rewrite E1. reflexivity. }
  rewrite E. clear E.
  destruct (65535 <? blen (rr_data r)) eqn:Hd.
  - right. split; [|reflexivity]. intros HF. inversion HF as [|? ? Hf _]; subst. unfold rr_fits in Hf. lia.
  - destruct (IH (b_bytes st1 (rr_tail r)) Hl) as [[HF [st' E]]|[HF E]].
    + left. split; [constructor; [unfold rr_fits; lia|exact HF]|]. exists st'. exact E.
    + right. split; [|exact E]. intros HF'. inversion HF'; subst. auto.
Qed.

Lemma wire_message_accepts m : names_ok m -> msg_fits m -> exists b, wire_message m = Ok b.
Proof.
  intros Hn (F1 & F2 & F3 & F4 & R2 & R3 & R4). apply names_ok_sections in Hn as (Hq & Han & Hns & Har).
  unfold wire_message, b_message.
  destruct ((65535 <? lenN (m_q m)) || (65535 <? lenN (m_an m)) || (65535 <? lenN (m_ns m)) || (65535 <? lenN (m_ar m))) eqn:Hc; [lia|].
  destruct (b_list_q_ok (m_q m) (header m, []) Hq) as [st1 ->].
  destruct (b_list_rr_cases (m_an m) st1 Han) as [[_ [st2 ->]]|[HF _]]; [|tauto].
  destruct (b_list_rr_cases (m_ns m) st2 Hns) as [[_ [st3 ->]]|[HF _]]; [|tauto].
  destruct (b_list_rr_cases (m_ar m) st3 Har) as [[_ [[w c] ->]]|[HF _]]; [|tauto].
  eexists; reflexivity.
Qed.

Lemma wire_message_rejects m : names_ok m -> ~ msg_fits m -> wire_message m = Err EOverflow.
Proof.
  intros Hn Hnf. apply names_ok_sections in Hn as (Hq & Han & Hns & Har).
  unfold wire_message, b_message.
  destruct ((65535 <? lenN (m_q m)) || (65535 <? lenN (m_an m)) || (65535 <? lenN (m_ns m)) || (65535 <? lenN (m_ar m))) eqn:Hc; [reflexivity|].
  destruct (b_list_q_ok (m_q m) (header m, []) Hq) as [st1 ->].
  destruct (b_list_rr_cases (m_an m) st1 Han) as [[G2 [st2 ->]]|[HF ->]]; [|reflexivity].
  destruct (b_list_rr_cases (m_ns m) st2 Hns) as [[G3 [st3 ->]]|[HF ->]]; [|reflexivity].
  destruct (b_list_rr_cases (m_ar m) st3 Har) as [[G4 [[w c] E]]|[HF ->]]; [|reflexivity].
  exfalso. apply Hnf. unfold msg_fits. repeat split; try assumption; lia.
Qed.
