(* C15 model, part 8: DNS-over-TLS framing of the requester (requester/tls.go): sendLoop writes each DNS
   message with a two-octet big-endian length prefix on one stream, recvLoop reads them back.
   Definitions only; executable. *)
From CJ Require Export Common.Base.

Definition dot_fr (p : bytes) : bytes := blen p / 256 :: blen p mod 256 :: p.

(* sendLoop for one message; None = the Go code panics (`panic(len(p))`: the length does not fit 16 bits) *)
Definition dot_frame (p : bytes) : option bytes :=
  if 65535 <? blen p then None else Some (dot_fr p).

(* the stream written for a queue of messages, up to the first one that cannot be framed *)
Fixpoint dot_send (msgs : list bytes) : bytes * bool :=       (* bytes written, panicked *)
  match msgs with
  | [] => ([], false)
  | p :: r => match dot_frame p with
              | None => ([], true)
              | Some f => let '(s, pn) := dot_send r in (f ++ s, pn)
              end
  end.

(* recvLoop on a finite stream: the messages queued, and whether the loop ended cleanly (EOF at a frame
   boundary -> nil) or with an error (EOF inside a frame) *)
Fixpoint dot_recv_fuel (fuel : nat) (s : bytes) : list bytes * bool :=
  match fuel with
  | O => ([], true)
  | S f =>
    match s with
    | [] => ([], true)
    | [_] => ([], false)
    | hi :: lo :: r =>
      let n := 256 * hi + lo in
      if blen r <? n then ([], false)
      else let '(ms, ok) := dot_recv_fuel f (drop n r) in (take n r :: ms, ok)
    end
  end.
Definition dot_recv (s : bytes) : list bytes * bool := dot_recv_fuel (S (length s)) s.
