(* C15 model, part 1: DNS-registrar length framing (msgformat) and TXT RDATA.
   Definitions only; executable. *)
From CJ Require Export Common.Base.

(* msgformat.AddRequestFormat: 1-byte length prefix.  A payload the prefix
   cannot represent is rejected with an error. *)
Definition add_request_format (p : bytes) : option bytes :=
  if blen p <=? 255 then Some (blen p :: p) else None.

(* msgformat.RemoveRequestFormat *)
Definition remove_request_format (p : bytes) : option bytes :=
  match p with
  | [] => None
  | l :: r => if blen r <? l then None else Some (take l r)
  end.

(* msgformat.AddResponseFormat: 2-byte big-endian length prefix *)
Definition add_response_format (p : bytes) : option bytes :=
  if blen p <=? 65535 then Some (blen p / 256 :: blen p mod 256 :: p) else None.

Definition remove_response_format (p : bytes) : option bytes :=
  match p with
  | h :: l :: r => let n := 256 * h + l in if blen r <? n then None else Some (take n r)
  | _ => None
  end.

(* dns.EncodeRDataTXT: 255-byte character-strings, the last one possibly empty *)
Fixpoint enc_txt_fuel (fuel : nat) (p : bytes) : bytes :=
  match fuel with
  | O => []
  | S f => if 255 <? blen p then 255 :: take 255 p ++ enc_txt_fuel f (drop 255 p)
           else blen p :: p
  end.
Definition enc_txt (p : bytes) : bytes := enc_txt_fuel (S (length p)) p.

(* dns.DecodeRDataTXT *)
Fixpoint dec_txt_fuel (fuel : nat) (p acc : bytes) : option bytes :=
  match fuel with
  | O => None
  | S f =>
    match p with
    | [] => None
    | n :: r =>
      if blen r <? n then None
      else let acc' := acc ++ take n r in
           match drop n r with
           | [] => Some acc'
           | rest => dec_txt_fuel f rest acc'
           end
    end
  end.
Definition dec_txt (p : bytes) : option bytes := dec_txt_fuel (S (length p)) p [].
