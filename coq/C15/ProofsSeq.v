(* C15 proofs, part 10: the round trips and the freshness statement lifted to sequences of calls. *)
From CJ Require Import Common.Base Common.BaseProofs C15.Model C15.Proofs C15.ModelName C15.ProofsName C15.ModelObf C15.ProofsObf
  C15.ModelDns C15.ProofsDns C15.ModelPb C15.ProofsPb C15.ModelB32 C15.ProofsB32 C15.ModelSeq.
From Coq Require Import Lia ZifyN ZifyNat ZifyBool.

Section SeqProofs.
  Variables R A K B C : Type.
  Variable enc : R -> A -> option C.
  Variable dec : K -> C -> option B.
  Variable key : A -> K.
  Variable val : A -> B.
  Variable P : R -> A -> Prop.          (* side condition of the single round trip (e.g. the pad is as long as the tag) *)

  Lemma seq_roundtrip :
    (forall r x c, P r x -> enc r x = Some c -> dec (key x) c = Some (val x)) ->
    forall rs xs, Forall2 P rs xs -> dec_each dec (map key xs) (enc_each enc rs xs) = accepted enc val rs xs.
  Proof.
    intros H rs xs F. induction F as [|r x rs xs Hp F IH]; cbn; [reflexivity|].
    rewrite IH. destruct (enc r x) as [c|] eqn:E; [|reflexivity]. rewrite (H _ _ _ Hp E). reflexivity.
  Qed.

  Lemma accepted_all :
    forall rs xs, Forall2 (fun r x => enc r x <> None) rs xs -> accepted enc val rs xs = map (fun x => Some (val x)) xs.
  Proof.
    intros rs xs F. induction F as [|r x rs xs Hn F IH]; cbn; [reflexivity|].
    rewrite IH. destruct (enc r x); [reflexivity|congruence].
  Qed.

  Lemma in_somes_enc_each c :
    forall rs xs, Forall2 P rs xs -> In c (somes (enc_each enc rs xs)) -> exists r x, In r rs /\ P r x /\ enc r x = Some c.
  Proof.
    intros rs xs F. induction F as [|r x rs xs Hp F IH]; cbn; [intros []|].
    intros Hin. apply in_app_or in Hin as [Hin|Hin].
    - destruct (enc r x) as [c'|] eqn:E; cbn in Hin; [|destruct Hin]. destruct Hin as [->|[]].
      exists r, x. auto.
    - destruct (IH Hin) as (r2 & x2 & I & Q & E). exists r2, x2. auto.
  Qed.

  Variable D : R -> R -> Prop.          (* two random draws differ *)

  Lemma seq_fresh :
    (forall r1 r2 x1 x2 c1 c2, P r1 x1 -> P r2 x2 -> D r1 r2 -> enc r1 x1 = Some c1 -> enc r2 x2 = Some c2 -> c1 <> c2) ->
    forall rs xs, Forall2 P rs xs -> ForallOrdPairs D rs -> NoDup (somes (enc_each enc rs xs)).
  Proof.
    intros H rs xs F. induction F as [|r x rs xs Hp F IH]; intros O; cbn; [constructor|].
    inversion O as [|? ? Hr O']; subst.
    destruct (enc r x) as [c|] eqn:E; cbn; [|apply IH; assumption].
    constructor; [|apply IH; assumption].
    intros Hin. destruct (in_somes_enc_each c rs xs F Hin) as (r2 & x2 & Hin2 & Hp2 & E2).
    rewrite Forall_forall in Hr. exact (H _ _ _ _ _ _ Hp Hp2 (Hr _ Hin2) E E2 eq_refl).
  Qed.
End SeqProofs.

Lemma seq_roundtrip_d {A C} (f : A -> option C) (g : C -> option A) (P : A -> Prop) :
  (forall x c, P x -> f x = Some c -> g c = Some x) ->
  forall xs, Forall P xs -> dec_each_d g (enc_each_d f xs) = accepted_d f xs.
Proof.
  intros H xs F. unfold dec_each_d, enc_each_d, accepted_d. induction F as [|x xs Hp F IH]; cbn; [reflexivity|].
  rewrite IH. destruct (f x) as [c|] eqn:E; [|reflexivity]. rewrite (H _ _ Hp E). reflexivity.
Qed.

Lemma Forall_True {A} (l : list A) : Forall (fun _ => True) l.
Proof. induction l; constructor; auto. Qed.

Lemma nodup_ord_pairs {A} (l : list A) : NoDup l -> ForallOrdPairs (fun a b => a <> b) l.
Proof.
  induction 1 as [|a l Hn _ IH]; constructor; [|exact IH].
  rewrite Forall_forall. intros b Hb ->. exact (Hn Hb).
Qed.

Lemma ord_pairs_impl {A} (P Q : A -> A -> Prop) (l : list A) :
  (forall a b, P a b -> Q a b) -> ForallOrdPairs P l -> ForallOrdPairs Q l.
Proof.
  intros H. induction 1 as [|a l Ha _ IH]; constructor; [|exact IH].
  eapply Forall_impl; [|exact Ha]. intros b. apply H.
Qed.

(* ---- the deterministic encoders ---- *)
Lemma seq_request_format ps :
  dec_each_d remove_request_format (enc_each_d add_request_format ps) = accepted_d add_request_format ps.
Proof. apply (seq_roundtrip_d _ _ (fun _ => True)); [intros x c _; apply request_roundtrip|apply Forall_True]. Qed.

Lemma seq_response_format ps :
  dec_each_d remove_response_format (enc_each_d add_response_format ps) = accepted_d add_response_format ps.
Proof. apply (seq_roundtrip_d _ _ (fun _ => True)); [intros x c _; apply response_roundtrip|apply Forall_True]. Qed.

Lemma seq_txt ps : dec_each_d dec_txt (enc_each_d (fun p => Some (enc_txt p)) ps) = map Some ps.
Proof.
  rewrite (seq_roundtrip_d _ _ (fun _ => True)); [|intros x c _ [= <-]; apply txt_roundtrip|apply Forall_True].
  unfold accepted_d. reflexivity.
Qed.

Lemma name_enc_dec n w : name_enc n = Some w -> name_dec w = Some n.
Proof.
  unfold name_enc, name_dec. destruct (new_name n) as [n'| |] eqn:E; try discriminate.
  destruct (name_roundtrip n n' E) as (w' & c & Hw & Hr). rewrite Hw. intros [= <-]. rewrite Hr. reflexivity.
Qed.

Lemma seq_names ns : dec_each_d name_dec (enc_each_d name_enc ns) = accepted_d name_enc ns.
Proof. apply (seq_roundtrip_d _ _ (fun _ => True)); [intros x c _; apply name_enc_dec|apply Forall_True]. Qed.

Lemma msg_enc_dec m b : names_ok m -> msg_enc m = Some b -> msg_dec b = Some m.
Proof.
  unfold msg_enc, msg_dec, ok_opt. intros Hn. destruct (wire_message m) as [b'| |] eqn:E; try discriminate.
  intros [= <-]. rewrite (dns_message_roundtrip m b' Hn E). reflexivity.
Qed.

Lemma seq_messages ms : Forall names_ok ms -> dec_each_d msg_dec (enc_each_d msg_enc ms) = accepted_d msg_enc ms.
Proof. apply seq_roundtrip_d. intros x c; apply msg_enc_dec. Qed.

Lemma qname_enc_dec dom p nm : wf_bytes p = true -> qname_enc dom p = Some nm -> qname_dec dom nm = Some p.
Proof.
  unfold qname_enc, qname_dec, ok_opt. intros W.
  destruct (request_name (fun q => lower (b32_encode q)) dom p) as [nm'| |] eqn:E; try discriminate.
  intros [= <-]. exact (request_name_roundtrip b32_encode b32_decode b32_roundtrip_concrete dom p nm' W E).
Qed.

Lemma seq_query_names dom ps :
  Forall (fun p => wf_bytes p = true) ps ->
  dec_each_d (qname_dec dom) (enc_each_d (qname_enc dom) ps) = accepted_d (qname_enc dom) ps.
Proof. apply seq_roundtrip_d. intros x c; apply qname_enc_dec. Qed.

Lemma seq_anypb ms :
  Forall (fun m => pbmsg_wf m /\ blen (pb_marshal m) < two64) ms ->
  dec_each anypb_dec (map pb_type_of ms) (enc_each (fun _ : unit => anypb_enc) (map (fun _ => tt) ms) ms) = map Some ms.
Proof.
  intros F.
  rewrite (seq_roundtrip unit pbmsg N pbmsg bytes (fun _ => anypb_enc) anypb_dec pb_type_of (fun m => m)
             (fun _ m => pbmsg_wf m /\ blen (pb_marshal m) < two64)).
  - induction ms as [|m ms IH]; cbn; [reflexivity|]. inversion F; subst. rewrite IH by assumption. reflexivity.
  - intros _ m c [W L] [= <-]. unfold anypb_dec. rewrite (anypb_nourl_bytes_roundtrip m W L). reflexivity.
  - induction F; cbn; constructor; auto.
Qed.

(* ---- XOR ---- *)
Lemma xor_fresh_any r1 r2 t1 t2 c1 c2 :
  length r1 = length t1 -> length r2 = length t2 -> r1 <> r2 ->
  xor_obfuscate r1 t1 = Some c1 -> xor_obfuscate r2 t2 = Some c2 -> c1 <> c2.
Proof.
  intros H1 H2 Hr. unfold xor_obfuscate.
  destruct (blen t1 =? 0); [discriminate|]. destruct (blen t2 =? 0); [intros _; discriminate|].
  intros [= <-] [= <-] E. apply Hr.
  assert (L : length r1 = length r2).
  { apply (f_equal (@length byte)) in E. rewrite !app_length, !xor_bytes_length in E by assumption. lia. }
  eapply app_inj_length; [exact L|exact E].
Qed.

Definition pad_fits (r : bytes) (x : obf_item) : Prop := length r = length (snd x).

Lemma seq_xor_roundtrip rs xs :
  Forall2 pad_fits rs xs ->
  dec_each xor_dec (map fst xs) (enc_each xor_enc rs xs) = accepted xor_enc snd rs xs.
Proof.
  apply (seq_roundtrip bytes obf_item bytes bytes bytes xor_enc xor_dec fst snd pad_fits).
  intros r x c Hp. unfold xor_enc, xor_dec. apply xor_obfuscate_reveal. exact Hp.
Qed.

Lemma seq_xor_fresh rs xs :
  Forall2 pad_fits rs xs -> NoDup rs -> NoDup (somes (enc_each xor_enc rs xs)).
Proof.
  intros F N. apply (seq_fresh bytes obf_item bytes xor_enc pad_fits (fun a b => a <> b)); [|exact F|apply nodup_ord_pairs; exact N].
  intros r1 r2 x1 x2 c1 c2 P1 P2 Dn. unfold xor_enc. apply xor_fresh_any; assumption.
Qed.

Lemma seq_nil_roundtrip (ts : list bytes) : dec_each_d nil_reveal (enc_each_d nil_obfuscate ts) = map Some ts.
Proof.
  rewrite (seq_roundtrip_d _ _ (fun _ => True)); [|intros x c _; apply nil_obfuscate_reveal|apply Forall_True].
  unfold accepted_d. reflexivity.
Qed.

(* ---- CTR / GCM under the laws of the primitives ---- *)
Section Bundled.
  Variable sbm : bytes -> option (bytes * bytes).
  Variable r2p : bytes -> bytes.
  Variable x : bytes -> bytes -> option bytes.
  Variable sha : bytes -> bytes.
  Variable ctr : bytes -> bytes -> bytes -> bytes.
  Variable seal : bytes -> bytes -> bytes -> bytes.
  Variable open : bytes -> bytes -> bytes -> option bytes.
  Variable pub_of : bytes -> bytes.
  Hypothesis L : crypto_laws sbm r2p x ctr seal open pub_of.

  Definition ctr_enc (r : obf_rand) (it : obf_item) : option bytes := ctr_obfuscate sbm x sha ctr r (snd it) (pub_of (fst it)).
  Definition ctr_dec (k c : bytes) : option bytes := ctr_reveal r2p x sha ctr c k.
  Definition gcm_enc (r : obf_rand) (it : obf_item) : option bytes := gcm_obfuscate sbm x sha seal r (snd it) (pub_of (fst it)).
  Definition gcm_dec (k c : bytes) : option bytes := gcm_reveal r2p x sha open c k.

  Lemma hdr_len r h : obf_header sbm r = Some h -> length h = 32%nat.
  Proof.
    unfold obf_header. destruct (first_representable sbm (or_cands r)) as [[[a pa] ra]|] eqn:F; [|discriminate].
    intros [= <-]. apply upd31_length.
    destruct L as [Shape _ _ _ _ _]. eapply Shape. eapply first_representable_sound. exact F.
  Qed.

  Lemma ctr_fresh_any r1 r2 spk1 spk2 t1 t2 c1 c2 :
    ctr_obfuscate sbm x sha ctr r1 t1 spk1 = Some c1 -> ctr_obfuscate sbm x sha ctr r2 t2 spk2 = Some c2 ->
    headers_differ sbm r1 r2 -> c1 <> c2.
  Proof.
    unfold ctr_obfuscate. destruct (negb (blen spk1 =? 32)); [discriminate|]. destruct (negb (blen spk2 =? 32)); [intros _; discriminate|].
    destruct (obf_header sbm r1) as [h1|] eqn:H1; [|discriminate].
    destruct (shared_hash sbm x sha r1 spk1); [|discriminate]. intros [= <-].
    destruct (obf_header sbm r2) as [h2|] eqn:H2; [|discriminate].
    destruct (shared_hash sbm x sha r2 spk2); [|discriminate]. intros [= <-] Hd E.
    apply (Hd h1 h2 H1 H2). eapply app_inj_length; [|exact E].
    rewrite (hdr_len _ _ H1), (hdr_len _ _ H2). reflexivity.
  Qed.

  Lemma gcm_fresh_any r1 r2 spk1 spk2 t1 t2 c1 c2 :
    gcm_obfuscate sbm x sha seal r1 t1 spk1 = Some c1 -> gcm_obfuscate sbm x sha seal r2 t2 spk2 = Some c2 ->
    headers_differ sbm r1 r2 -> c1 <> c2.
  Proof.
    unfold gcm_obfuscate. destruct (negb (blen spk1 =? 32)); [discriminate|]. destruct (negb (blen spk2 =? 32)); [intros _; discriminate|].
    destruct (obf_header sbm r1) as [h1|] eqn:H1; [|discriminate].
    destruct (shared_hash sbm x sha r1 spk1); [|discriminate]. intros [= <-].
    destruct (obf_header sbm r2) as [h2|] eqn:H2; [|discriminate].
    destruct (shared_hash sbm x sha r2 spk2); [|discriminate]. intros [= <-] Hd E.
    apply (Hd h1 h2 H1 H2). eapply app_inj_length; [|exact E].
    rewrite (hdr_len _ _ H1), (hdr_len _ _ H2). reflexivity.
  Qed.

  Lemma draws_headers r1 r2 : draws_differ sbm r1 r2 -> headers_differ sbm r1 r2.
  Proof.
    intros Hd h1 h2 H1 H2 E.
    assert (F1 := H1). assert (F2 := H2). unfold obf_header in F1, F2.
    destruct (first_representable sbm (or_cands r1)) as [[[a1 p1] q1]|] eqn:R1; [|discriminate].
    destruct (first_representable sbm (or_cands r2)) as [[[a2 p2] q2]|] eqn:R2; [|discriminate].
    apply (header_differs_b sbm r2p x ctr seal open pub_of L r1 r2 a1 p1 q1 a2 p2 q2 R1 R2 (Hd _ _ _ _ _ _ R1 R2)).
    rewrite H1, H2, E. reflexivity.
  Qed.

  Lemma lengths_any rs (xs : list obf_item) : length rs = length xs -> Forall2 (fun (_ : obf_rand) (_ : obf_item) => True) rs xs.
  Proof.
    revert xs; induction rs as [|r rs IH]; intros [|y xs] Hl; cbn in Hl; try lia; constructor; auto.
  Qed.

  Lemma seq_ctr_roundtrip rs xs :
    length rs = length xs -> dec_each ctr_dec (map fst xs) (enc_each ctr_enc rs xs) = accepted ctr_enc snd rs xs.
  Proof.
    intros Hl. apply (seq_roundtrip obf_rand obf_item bytes bytes bytes ctr_enc ctr_dec fst snd (fun _ _ => True)); [|apply lengths_any; exact Hl].
    intros r it c _. unfold ctr_enc, ctr_dec. apply (ctr_obfuscate_reveal_b sbm r2p x sha ctr seal open pub_of L).
  Qed.

  Lemma seq_gcm_roundtrip rs xs :
    length rs = length xs -> dec_each gcm_dec (map fst xs) (enc_each gcm_enc rs xs) = accepted gcm_enc snd rs xs.
  Proof.
    intros Hl. apply (seq_roundtrip obf_rand obf_item bytes bytes bytes gcm_enc gcm_dec fst snd (fun _ _ => True)); [|apply lengths_any; exact Hl].
    intros r it c _. unfold gcm_enc, gcm_dec. apply (gcm_obfuscate_reveal_b sbm r2p x sha ctr seal open pub_of L).
  Qed.

  Lemma seq_ctr_fresh rs xs :
    length rs = length xs -> ForallOrdPairs (draws_differ sbm) rs -> NoDup (somes (enc_each ctr_enc rs xs)).
  Proof.
    intros Hl O. apply (seq_fresh obf_rand obf_item bytes ctr_enc (fun _ _ => True) (headers_differ sbm));
      [|apply lengths_any; exact Hl|eapply ord_pairs_impl; [apply draws_headers|exact O]].
    intros r1 r2 x1 x2 c1 c2 _ _ Dh E1 E2. unfold ctr_enc in *. eapply ctr_fresh_any; eauto.
  Qed.

  Lemma seq_gcm_fresh rs xs :
    length rs = length xs -> ForallOrdPairs (draws_differ sbm) rs -> NoDup (somes (enc_each gcm_enc rs xs)).
  Proof.
    intros Hl O. apply (seq_fresh obf_rand obf_item bytes gcm_enc (fun _ _ => True) (headers_differ sbm));
      [|apply lengths_any; exact Hl|eapply ord_pairs_impl; [apply draws_headers|exact O]].
    intros r1 r2 x1 x2 c1 c2 _ _ Dh E1 E2. unfold gcm_enc in *. eapply gcm_fresh_any; eauto.
  Qed.
End Bundled.
