(* C15 non-vacuity: concrete inputs meeting the hypotheses of the theorems in
   Props.v, and concrete instances of the abstract codings / primitives that
   satisfy the section hypotheses (so the hypotheses are consistent). *)
From CJ Require Import Common.Base Common.BaseProofs C15.Model C15.Proofs C15.ModelName C15.ProofsName.
From Coq Require Import Lia ZifyN ZifyNat ZifyBool.
Ltac Zify.zify_post_hook ::= Z.div_mod_to_equations.

(* ---- framing / TXT at the limits ---- *)
Example ex_req_255 : exists e, add_request_format (lcg_bytes 1 255) = Some e /\ remove_request_format e = Some (lcg_bytes 1 255).
Proof. eexists. split; vm_compute; reflexivity. Qed.
Example ex_req_256 : add_request_format (lcg_bytes 1 256) = None.
Proof. vm_compute. reflexivity. Qed.
Example ex_resp_65535 : exists e, add_response_format (lcg_bytes 2 65535) = Some e.
Proof. eexists. unfold add_response_format. replace (blen (lcg_bytes 2 65535) <=? 65535) with true by (vm_compute; reflexivity). reflexivity. Qed.
Example ex_txt_0 : dec_txt (enc_txt []) = Some [].
Proof. vm_compute. reflexivity. Qed.
Example ex_txt_255 : dec_txt (enc_txt (lcg_bytes 3 255)) = Some (lcg_bytes 3 255).
Proof. vm_compute. reflexivity. Qed.
Example ex_txt_256 : dec_txt (enc_txt (lcg_bytes 3 256)) = Some (lcg_bytes 3 256).
Proof. vm_compute. reflexivity. Qed.
Example ex_txt_510 : dec_txt (enc_txt (lcg_bytes 3 510)) = Some (lcg_bytes 3 510) /\ blen (enc_txt (lcg_bytes 3 510)) = 512.
Proof. split; vm_compute; reflexivity. Qed.

(* ---- names ---- *)
Definition lbl (c n : N) : label := repeat c (N.to_nat n).
Definition name_255 : name := [lbl 120 63; lbl 121 63; lbl 122 63; lbl 119 61].
Definition name_256 : name := [lbl 120 63; lbl 121 63; lbl 122 63; lbl 119 62].
Example ex_name_255 : new_name name_255 = Ok name_255 /\ name_wire_len name_255 = 255.
Proof. split; vm_compute; reflexivity. Qed.
Example ex_name_255_rt : read_name (fst (write_name [] 0 name_255)) 0 = Ok (name_255, 255).
Proof. vm_compute. reflexivity. Qed.
Example ex_name_256 : new_name name_256 = Err ENameTooLong.
Proof. vm_compute. reflexivity. Qed.
Example ex_label_64 : new_name [lbl 97 64] = Err ELabelTooLong.
Proof. vm_compute. reflexivity. Qed.
Example ex_label_0 : new_name [lbl 97 3; []] = Err EZeroLabel.
Proof. vm_compute. reflexivity. Qed.
Example ex_root : new_name [] = Ok [] /\ read_name [0] 0 = Ok ([], 1).
Proof. split; vm_compute; reflexivity. Qed.
Example ex_chunks : chunks 63 (lcg_bytes 5 130) = [take 63 (lcg_bytes 5 130); take 63 (drop 63 (lcg_bytes 5 130)); drop 126 (lcg_bytes 5 130)].
Proof. vm_compute. reflexivity. Qed.

(* a toy coding (two letters A..P per byte) satisfying the base32 hypothesis:
   the hypothesis of C15_request_name_roundtrip is satisfiable *)
Fixpoint toy_enc (p : bytes) : bytes :=
  match p with [] => [] | b :: r => (65 + b / 16) :: (65 + b mod 16) :: toy_enc r end.
Fixpoint toy_dec (p : bytes) : option bytes :=
  match p with
  | [] => Some []
  | x :: y :: r => match toy_dec r with Some d => Some ((x - 65) * 16 + (y - 65) :: d) | None => None end
  | _ => None
  end.
Lemma toy_roundtrip p : wf_bytes p = true -> toy_dec (upper (lower (toy_enc p))) = Some p.
Proof.
  induction p as [|b r IH]; [reflexivity|]. cbn [wf_bytes forallb]. intros H.
  apply andb_true_iff in H as [Hb Hr]. unfold wf_byte in Hb.
  cbn [toy_enc lower upper map toy_dec]. fold (lower (toy_enc r)). fold (upper (lower (toy_enc r))).
  rewrite (IH Hr).
  assert (E : forall v, v < 16 -> upper_byte (lower_byte (65 + v)) = 65 + v).
  { intros v Hv. unfold lower_byte, upper_byte.
    destruct ((65 <=? 65 + v) && (65 + v <=? 90)) eqn:E1; [|lia].
    destruct ((97 <=? 65 + v + 32) && (65 + v + 32 <=? 122)) eqn:E2; lia. }
  rewrite !E by lia. do 2 f_equal. lia.
Qed.
Example ex_request_name :
  exists nm, request_name (fun q => lower (toy_enc q)) [[116]; [101; 120]] [1; 2; 254] = Ok nm /\
             name_payload toy_dec [[116]; [101; 120]] nm = Some [1; 2; 254].
Proof. eexists. split; vm_compute; reflexivity. Qed.
