(* C15 non-vacuity: concrete inputs meeting the hypotheses of the theorems in
   Props.v, and concrete instances of the abstract codings / primitives that
   satisfy the section hypotheses (so the hypotheses are consistent). *)
From CJ Require Import Common.Base Common.BaseProofs C15.Model C15.Proofs C15.ModelName C15.ProofsName C15.ModelObf C15.ProofsObf C15.ModelAny C15.ProofsAny C15.ModelDns C15.ProofsDns C15.ModelB32 C15.ModelExch C15.ProofsExch C15.ModelPb C15.ProofsPb C15.ModelDot C15.ProofsDot C15.ModelSeq C15.ProofsSeq C15.ModelStream C15.ProofsStream C15.Run C15.ProofsCount C15.ProofsTxtLen.
From Coq Require Import Lia ZifyN ZifyNat ZifyBool.
Ltac Zify.zify_post_hook ::= Z.div_mod_to_equations.

(* ---- framing / TXT at the limits ---- *)
Example ex_req_255 : exists e, add_request_format (lcg_bytes 1 255) = Some e /\ remove_request_format e = Some (lcg_bytes 1 255).
Proof. eexists. split; vm_compute; reflexivity. Qed.
Example ex_req_256 : add_request_format (lcg_bytes 1 256) = None.
Proof. vm_compute. reflexivity. Qed.
Example ex_resp_65535 : exists e, add_response_format (lcg_bytes 2 65535) = Some e.
Proof. eexists. unfold add_response_format. replace (blen (lcg_bytes 2 65535) <=? 65535) with true by (vm_compute; reflexivity). reflexivity. Qed.
Example ex_txt_0 : dec_txt (enc_txt []) = Some [].
Proof. vm_compute. reflexivity. Qed.
Example ex_txt_255 : dec_txt (enc_txt (lcg_bytes 3 255)) = Some (lcg_bytes 3 255).
Proof. vm_compute. reflexivity. Qed.
Example ex_txt_256 : dec_txt (enc_txt (lcg_bytes 3 256)) = Some (lcg_bytes 3 256).
Proof. vm_compute. reflexivity. Qed.
Example ex_txt_510 : dec_txt (enc_txt (lcg_bytes 3 510)) = Some (lcg_bytes 3 510) /\ blen (enc_txt (lcg_bytes 3 510)) = 512.
Proof. split; vm_compute; reflexivity. Qed.

(* ---- names ---- *)
Definition lbl (c n : N) : label := repeat c (N.to_nat n).
Definition name_255 : name := [lbl 120 63; lbl 121 63; lbl 122 63; lbl 119 61].
Definition name_256 : name := [lbl 120 63; lbl 121 63; lbl 122 63; lbl 119 62].
Example ex_name_255 : new_name name_255 = Ok name_255 /\ name_wire_len name_255 = 255.
Proof. split; vm_compute; reflexivity. Qed.
Example ex_name_255_rt : exists w c, write_name [] 0 name_255 = Some (w, c) /\ read_name w 0 = Ok (name_255, 255).
Proof. do 2 eexists. split; vm_compute; reflexivity. Qed.
Example ex_name_256 : new_name name_256 = Err ENameTooLong.
Proof. vm_compute. reflexivity. Qed.
Example ex_label_64 : new_name [lbl 97 64] = Err ELabelTooLong.
Proof. vm_compute. reflexivity. Qed.
Example ex_label_0 : new_name [lbl 97 3; []] = Err EZeroLabel.
Proof. vm_compute. reflexivity. Qed.
Example ex_root : new_name [] = Ok [] /\ read_name [0] 0 = Ok ([], 1).
Proof. split; vm_compute; reflexivity. Qed.
Example ex_chunks : chunks 63 (lcg_bytes 5 130) = [take 63 (lcg_bytes 5 130); take 63 (drop 63 (lcg_bytes 5 130)); drop 126 (lcg_bytes 5 130)].
Proof. vm_compute. reflexivity. Qed.

(* a toy coding (two letters A..P per byte) satisfying the base32 hypothesis:
   the hypothesis of C15_request_name_roundtrip is satisfiable *)
Fixpoint toy_enc (p : bytes) : bytes :=
  match p with [] => [] | b :: r => (65 + b / 16) :: (65 + b mod 16) :: toy_enc r end.
Fixpoint toy_dec (p : bytes) : option bytes :=
  match p with
  | [] => Some []
  | x :: y :: r => match toy_dec r with Some d => Some ((x - 65) * 16 + (y - 65) :: d) | None => None end
  | _ => None
  end.
Lemma toy_roundtrip p : wf_bytes p = true -> toy_dec (upper (lower (toy_enc p))) = Some p.
Proof.
  induction p as [|b r IH]; [reflexivity|]. cbn [wf_bytes forallb]. intros H.
  apply andb_true_iff in H as [Hb Hr]. unfold wf_byte in Hb.
  cbn [toy_enc lower upper map toy_dec]. fold (lower (toy_enc r)). fold (upper (lower (toy_enc r))).
  rewrite (IH Hr).
  assert (E : forall v, v < 16 -> upper_byte (lower_byte (65 + v)) = 65 + v).
  { intros v Hv. unfold lower_byte, upper_byte.
    destruct ((65 <=? 65 + v) && (65 + v <=? 90)) eqn:E1; [|lia].
    destruct ((97 <=? 65 + v + 32) && (65 + v + 32 <=? 122)) eqn:E2; lia. }
  rewrite !E by lia. do 2 f_equal. lia.
Qed.
Example ex_request_name :
  exists nm, request_name (fun q => lower (toy_enc q)) [[116]; [101; 120]] [1; 2; 254] = Ok nm /\
             name_payload toy_dec [[116]; [101; 120]] nm = Some [1; 2; 254].
Proof. eexists. split; vm_compute; reflexivity. Qed.

(* ---- obfuscators ---- *)
Example ex_xor : exists c, xor_obfuscate [10; 20; 30] [1; 2; 3] = Some c /\ xor_reveal c = Some [1; 2; 3].
Proof. eexists. split; vm_compute; reflexivity. Qed.
Example ex_xor_fresh : exists c1 c2, xor_obfuscate [10] [1] = Some c1 /\ xor_obfuscate [11] [1] = Some c2 /\ c1 <> c2.
Proof. do 2 eexists. split; [vm_compute; reflexivity|]. split; [vm_compute; reflexivity|]. discriminate. Qed.

(* stand-in primitives that satisfy every law in crypto_laws: the laws are jointly satisfiable,
   so the CTR/GCM theorems are not vacuous *)
Definition pad32 (a : bytes) : bytes := firstn 32 (a ++ repeat 0 32).
Definition t_mask (a : bytes) : bytes := upd31 clear_hi (pad32 a).
Definition t_sbm (a : bytes) : option (bytes * bytes) := if nth 0 a 0 =? 7 then None else Some (t_mask a, t_mask a).
Definition t_r2p (r : bytes) : bytes := r.
Definition t_x (k p : bytes) : option bytes := Some (xor_bytes (t_mask k) p).
Definition t_sha (b : bytes) : bytes := b.
Definition t_ctr (k iv m : bytes) : bytes := map (N.lxor (nth 0 k 0 + nth 0 iv 0)) m.
Definition t_seal (k n m : bytes) : bytes := m ++ repeat (nth 0 k 0) 16.
Definition t_open (k n c : bytes) : option bytes := if blen c <? 16 then None else Some (take (blen c - 16) c).

Lemma pad32_length a : length (pad32 a) = 32%nat.
Proof. unfold pad32. rewrite firstn_length, app_length, repeat_length. lia. Qed.
Lemma t_mask_length a : length (t_mask a) = 32%nat.
Proof. apply upd31_length, pad32_length. Qed.
Lemma xor_bytes_comm a b : xor_bytes a b = xor_bytes b a.
Proof. revert b; induction a as [|x a IH]; intros [|y b]; cbn; try reflexivity. rewrite IH, N.lxor_comm. reflexivity. Qed.

Lemma toy_laws : crypto_laws t_sbm t_r2p t_x t_ctr t_seal t_open t_mask.
Proof.
  constructor.
  - intros a pa ra. unfold t_sbm. destruct (nth 0 a 0 =? 7); [discriminate|]. intros [= <- <-].
    split; [apply t_mask_length|]. unfold t_mask. rewrite nth31_upd31 by apply pad32_length.
    unfold clear_hi. change 63 with (N.ones 6). rewrite N.land_ones. apply N.mod_lt. discriminate.
  - intros a pa ra. unfold t_sbm. destruct (nth 0 a 0 =? 7); [discriminate|]. intros [= <- <-]. reflexivity.
  - intros a pa ra k. unfold t_sbm. destruct (nth 0 a 0 =? 7); [discriminate|]. intros [= <- <-].
    unfold t_x. rewrite xor_bytes_comm. reflexivity.
  - intros k iv m. unfold t_ctr. rewrite map_map. rewrite <- (map_id m) at 2. apply map_ext.
    intros b. rewrite <- N.lxor_assoc, N.lxor_nilpotent. apply N.lxor_0_l.
  - intros k n m. unfold t_open, t_seal. rewrite blen_app.
    assert (E : blen (repeat (nth 0 k 0) 16) = 16) by reflexivity. rewrite E.
    destruct (blen m + 16 <? 16) eqn:H; [lia|]. replace (blen m + 16 - 16) with (blen m) by lia.
    rewrite take_app_exact by reflexivity. reflexivity.
  - intros k n m. unfold t_seal. rewrite blen_app. reflexivity.
Qed.

Definition t_rand : obf_rand := {| or_cands := [[7; 1]; [9; 9; 9]]; or_byte := 200 |}.   (* first candidate has no representative *)
Example ex_ctr : exists c, ctr_obfuscate t_sbm t_x t_sha t_ctr t_rand [1; 2; 3] (t_mask [5; 5]) = Some c /\
                           ctr_reveal t_r2p t_x t_sha t_ctr c [5; 5] = Some [1; 2; 3] /\ blen c = 35 /\ nth 31 c 0 = 192.
Proof. eexists. split; [vm_compute; reflexivity|]. split; [vm_compute; reflexivity|]. split; vm_compute; reflexivity. Qed.
Example ex_gcm : exists c, gcm_obfuscate t_sbm t_x t_sha t_seal t_rand [] (t_mask [5; 5]) = Some c /\
                           gcm_reveal t_r2p t_x t_sha t_open c [5; 5] = Some [] /\ blen c = 48.
Proof. eexists. split; [vm_compute; reflexivity|]. split; vm_compute; reflexivity. Qed.
Example ex_header_fresh :
  obf_header t_sbm t_rand <> obf_header t_sbm {| or_cands := [[9; 9; 9]]; or_byte := 100 |}.
Proof. vm_compute. discriminate. Qed.

(* ---- URL-less Any: the stand-in codec of Run.v satisfies the codec hypothesis ---- *)
Lemma st_codec_roundtrip : forall m : st_msg, st_unmarshal (fst m) (st_marshal m) = Some m.
Proof. intros [k f]. unfold st_unmarshal, st_marshal. cbn. rewrite N.eqb_refl. reflexivity. Qed.
Example ex_anypb_nourl :
  unmarshal_anypb_to N st_msg any_url_of st_unmarshal (Some (pack_nourl st_msg st_marshal (1, [2; 0; 5]))) 1 = Ok (Some (1, [2; 0; 5])).
Proof. vm_compute. reflexivity. Qed.
Example ex_anypb_wrong :
  unmarshal_anypb_to N st_msg any_url_of st_unmarshal (Some (pack N st_msg fst any_url_of st_marshal (0, [2]))) 1 = Err EWrongType.
Proof. vm_compute. reflexivity. Qed.

(* ---- DNS messages: nested names a1, a2.a1, ... (the compression-chain case) ---- *)
Fixpoint nested (k : nat) : name := match k with O => [] | S k' => [97; N.of_nat k] :: nested k' end.
Definition chain_msg (k : nat) : message :=
  {| m_id := 4660; m_flags := 256;
     m_q := map (fun i => {| q_name := nested i; q_type := 16; q_class := 1 |}) (seq 1 k);
     m_an := [{| rr_name := nested k; rr_type := 16; rr_class := 1; rr_ttl := 60; rr_data := [1; 104] |}];
     m_ns := []; m_ar := [{| rr_name := []; rr_type := 41; rr_class := 4096; rr_ttl := 0; rr_data := [] |}] |}.
Lemma chain14_names_ok : names_ok (chain_msg 14).
Proof. unfold names_ok. repeat constructor. Qed.
Example ex_chain14 : exists b, wire_message (chain_msg 14) = Ok b /\ read_message b = Ok (chain_msg 14) /\ blen b = 192.
Proof. eexists. split; [vm_compute; reflexivity|]. split; vm_compute; reflexivity. Qed.
(* the 12th name would need 11 pointers: its first label (and that of every later name) is written verbatim and
   followed by a pointer to an entry of depth 9, so no chain exceeds the reader's budget of 10 *)
Example ex_chain_depths :
  map ce_depth (snd (match b_message (chain_msg 14) with Ok st => st | _ => ([], []) end)) =
  [10; 10; 10; 10; 10; 10; 10; 10; 10; 10; 10; 10; 10; 10; 9; 8; 7; 6; 5; 4; 3; 2; 1; 0].
Proof. vm_compute. reflexivity. Qed.
(* a pointer is used: the answer's name costs two octets *)
Example ex_compression_used :
  exists b, wire_message (chain_msg 2) = Ok b /\ blen b = 12 + (4 + 4) + (3 + 2 + 4) + (2 + 10 + 2) + (1 + 10).
Proof. eexists. split; vm_compute; reflexivity. Qed.
Example ex_rdata_overflow :
  wire_message {| m_id := 0; m_flags := 0; m_q := []; m_an := [{| rr_name := [[97]]; rr_type := 16; rr_class := 1; rr_ttl := 0; rr_data := lcg_bytes 1 65536 |}]; m_ns := []; m_ar := [] |} = Err EOverflow.
Proof. vm_compute. reflexivity. Qed.

(* ---- the exchange: an instance of exchange_laws (identity "crypto", the toy coding), and one full run ---- *)
Definition id_write (rnd spk p : bytes) : option (bytes * bytes) := if wf_bytes p then Some (p, spk) else None.
Definition id_read (k hs : bytes) : option (bytes * bytes) := Some (hs, k).
Definition id_crypt (cs m : bytes) : option bytes := Some m.
Lemma toy_exchange_laws : exchange_laws toy_enc toy_dec bytes id_write id_read id_crypt id_crypt (fun k => k).
Proof.
  constructor.
  - exact toy_roundtrip.
  - intros rnd k p hs cs. unfold id_write. destruct (wf_bytes p) eqn:W; [|discriminate]. intros [= <- <-].
    split; [exact W|]. exists k. split; [reflexivity|]. intros r enc [= <-]. reflexivity.
Qed.

Definition ex_dom : name := [[116]; [101; 120]].
Definition ex_process (p : bytes) : option bytes := Some (rev p ++ [7; 7]).
Example ex_exchange :
  exists qw cs, requester_query toy_enc bytes id_write [] [9] ex_dom 4242 [1; 2; 3; 250] = Some (qw, cs) /\
    exists rw, responder_handle toy_dec bytes id_read id_crypt [9] ex_dom ex_process qw = (Some [1; 2; 3; 250], Some rw) /\
               requester_receive bytes id_crypt cs ex_dom rw = Some [250; 3; 2; 1; 7; 7].
Proof.
  do 2 eexists. split; [vm_compute; reflexivity|]. eexists. split; vm_compute; reflexivity.
Qed.
(* with the concrete base32 of ModelB32 *)
Example ex_exchange_b32 :
  exists qw cs, requester_query b32_encode bytes id_write [] [9] ex_dom 1 (lcg_bytes 3 60) = Some (qw, cs) /\
    exists rw, responder_handle b32_decode bytes id_read id_crypt [9] ex_dom ex_process qw = (Some (lcg_bytes 3 60), Some rw) /\
               requester_receive bytes id_crypt cs ex_dom rw = Some (rev (lcg_bytes 3 60) ++ [7; 7]).
Proof.
  do 2 eexists. split; [vm_compute; reflexivity|]. eexists. split; vm_compute; reflexivity.
Qed.
(* an answer above the datagram limit: the responder substitutes an empty body, the requester gets the empty string to decrypt *)
Example ex_exchange_oversize :
  exists qw cs, requester_query b32_encode bytes id_write [] [9] ex_dom 1 [1] = Some (qw, cs) /\
    exists rw, snd (responder_handle b32_decode bytes id_read id_crypt [9] ex_dom (fun _ => Some (lcg_bytes 1 1500)) qw) = Some rw /\
               blen rw <= 1232 /\ requester_receive bytes id_crypt cs ex_dom rw = id_crypt cs [].
Proof.
  do 2 eexists. split; [vm_compute; reflexivity|]. eexists. split; [vm_compute; reflexivity|]. split; [vm_compute; discriminate|vm_compute; reflexivity].
Qed.

(* ---- protobuf codec ---- *)
Definition ex_prefix : prefix_tp :=
  {| p_id := Some (-3)%Z; p_prefix := Some []; p_flush := Some 7%Z; p_rand := Some true; p_unk := [(21, WVarint 1); (2, WVarint 9)] |}.
Lemma ex_prefix_wf : prefix_wf ex_prefix.
Proof.
  unfold prefix_wf, ex_prefix, int32_ok, two64. cbn. repeat split; try lia; try reflexivity;
    repeat constructor; cbn; unfold max_fnum, two64; lia.
Qed.
Example ex_prefix_bytes : marshal_prefix ex_prefix = unhex "08fdffffffffffffffff01120018076801a801011009".
Proof. vm_compute. reflexivity. Qed.
Example ex_prefix_rt : unmarshal_prefix (marshal_prefix ex_prefix) = Ok ex_prefix.
Proof. vm_compute. reflexivity. Qed.
Example ex_station_unpack : station_unpack (client_pack_nourl (MPrefix ex_prefix)) 1 = Ok (Some (MPrefix ex_prefix)).
Proof. vm_compute. reflexivity. Qed.
(* the boundary of the URL-less packing: there is no type check, so the same bytes unpack without error into another
   parameter type - here a PrefixTransportParams read as DTLSTransportParams: field 3 (custom_flush_policy = 7) becomes
   randomize_dst_port = true, the other fields are kept as unknown fields *)
Example ex_cross_type :
  station_unpack (client_pack_nourl (MPrefix ex_prefix)) 2 =
  Ok (Some (MDtls {| d_src4 := None; d_src6 := None; d_rand := Some true; d_unordered := None;
                     d_unk := [(1, WVarint 18446744073709551613); (13, WVarint 1); (21, WVarint 1)] |}))
  \/ exists m, station_unpack (client_pack_nourl (MPrefix ex_prefix)) 2 = Ok (Some (MDtls m)).
Proof. right. eexists. vm_compute. reflexivity. Qed.
Example ex_varint_overflow : varint_dec (repeat 255 9 ++ [2]) = None /\ varint_dec (repeat 255 9 ++ [1]) = Some (18446744073709551615, []).
Proof. split; vm_compute; reflexivity. Qed.

(* ---- DoT framing ---- *)
Example ex_dot : exists s, dot_send [[]; [1; 2]; lcg_bytes 4 300] = (s, false) /\ dot_recv s = ([[]; [1; 2]; lcg_bytes 4 300], true) /\ blen s = 308.
Proof. eexists. split; [vm_compute; reflexivity|]. split; vm_compute; reflexivity. Qed.
Example ex_dot_limit : (exists f, dot_frame (lcg_bytes 1 65535) = Some f) /\ dot_frame (lcg_bytes 1 65536) = None.
Proof.
  split; [eexists; apply dot_frame_ok|apply dot_frame_rejects].
  - assert (E : blen (lcg_bytes 1 65535) = 65535) by (vm_compute; reflexivity). rewrite E. apply N.le_refl.
  - assert (E : blen (lcg_bytes 1 65536) = 65536) by (vm_compute; reflexivity). rewrite E. reflexivity.
Qed.
Example ex_dot_cut : dot_recv [0; 2; 7; 8; 0; 3; 9] = ([[7; 8]], false).
Proof. vm_compute. reflexivity. Qed.
(* ---- TrimSuffix beyond ASCII: the ASCII model says "no match" where Go's UTF-8 aware folding may match ---- *)
Example ex_trim_non_ascii : trim_suffix [[120]; [255]] [[254]] = None /\ trim_suffix_gen (fun _ => []) [[120]; [255]] [[254]] = Some [[120]].
Proof. split; vm_compute; reflexivity. Qed.

(* ---- concurrent requests: two requesters, their queries served in either arrival order ---- *)
Example ex_serve_two :
  exists q1 c1 q2 c2,
    requester_query b32_encode bytes id_write [] [9] ex_dom 17 [1; 2; 3] = Some (q1, c1) /\
    requester_query b32_encode bytes id_write [] [9] ex_dom 18 [4; 5] = Some (q2, c2) /\
    q1 <> q2 /\
    exists r1 r2,
      serve b32_decode bytes id_read id_crypt [9] ex_dom ex_process [q2; q1] = [(q2, Some r2); (q1, Some r1)] /\
      requester_receive bytes id_crypt c1 ex_dom r1 = Some [3; 2; 1; 7; 7] /\
      requester_receive bytes id_crypt c2 ex_dom r2 = Some [5; 4; 7; 7] /\
      get_u16 r1 0 = Some 17 /\ get_u16 r2 0 = Some 18.
Proof.
  do 4 eexists. split; [vm_compute; reflexivity|]. split; [vm_compute; reflexivity|]. split; [discriminate|].
  do 2 eexists. split; [vm_compute; reflexivity|]. split; [vm_compute; reflexivity|]. split; [vm_compute; reflexivity|].
  split; vm_compute; reflexivity.
Qed.

(* ---- sequences of calls whose results are all kept (ModelSeq / Props3) ---- *)
(* a rejected value in the middle leaves its neighbours alone *)
Example ex_seq_request :
  dec_each_d remove_request_format (enc_each_d add_request_format [[1; 2]; lcg_bytes 1 256; []; [1; 2]])
  = [Some [1; 2]; None; Some []; Some [1; 2]].
Proof. vm_compute. reflexivity. Qed.
Example ex_seq_names :
  dec_each_d name_dec (enc_each_d name_enc [[lbl 97 3; lbl 98 1]; [lbl 97 64]; []; [lbl 97 3; lbl 98 1]])
  = [Some [lbl 97 3; lbl 98 1]; None; Some []; Some [lbl 97 3; lbl 98 1]].
Proof. vm_compute. reflexivity. Qed.
Example ex_seq_messages :
  Forall names_ok [chain_msg 3; chain_msg 11; chain_msg 3] /\
  dec_each_d msg_dec (enc_each_d msg_enc [chain_msg 3; chain_msg 11; chain_msg 3]) = [Some (chain_msg 3); Some (chain_msg 11); Some (chain_msg 3)].
Proof.
  split; [|vm_compute; reflexivity].
  repeat constructor; unfold names_ok; rewrite Forall_forall; intros n Hn;
    repeat (destruct Hn as [<-|Hn]; [vm_compute; reflexivity|]); destruct Hn.
Qed.
(* three XOR encodings of ONE tag under pairwise different pads: all kept, pairwise different, all revealed *)
Definition ex_pads : list bytes := [[10; 20]; [10; 21]; [11; 20]].
Definition ex_tags : list obf_item := [([], [1; 2]); ([], [1; 2]); ([], [1; 2])].
Example ex_seq_xor :
  Forall2 pad_fits ex_pads ex_tags /\ NoDup ex_pads /\
  somes (enc_each xor_enc ex_pads ex_tags) = [[10; 20; 11; 22]; [10; 21; 11; 23]; [11; 20; 10; 22]] /\
  dec_each xor_dec (map fst ex_tags) (enc_each xor_enc ex_pads ex_tags) = [Some [1; 2]; Some [1; 2]; Some [1; 2]].
Proof.
  repeat split; try (vm_compute; reflexivity).
  - repeat constructor.
  - repeat constructor; cbn; intuition discriminate.
Qed.
(* the hypothesis of the CTR/GCM freshness theorem is satisfiable with the toy primitives: three draws that differ in the
   candidate found or in the two high bits, the same tag three times under one station key *)
Definition ex_draws : list obf_rand :=
  [{| or_cands := [[7; 1]; [9; 9; 9]]; or_byte := 200 |}; {| or_cands := [[9; 9; 9]]; or_byte := 1 |}; {| or_cands := [[9; 9; 8]]; or_byte := 200 |}].
Lemma ex_draws_differ : ForallOrdPairs (draws_differ t_sbm) ex_draws.
Proof.
  assert (D : forall r1 r2 a b c d e f,
             first_representable t_sbm (or_cands r1) = Some (a, b, c) -> first_representable t_sbm (or_cands r2) = Some (d, e, f) ->
             (c <> f \/ N.land 192 (or_byte r1) <> N.land 192 (or_byte r2)) -> draws_differ t_sbm r1 r2).
  { intros r1 r2 a b c d e f F1 F2 H a1 p1 q1 a2 p2 q2 G1 G2. rewrite F1 in G1. rewrite F2 in G2.
    injection G1 as <- <- <-. injection G2 as <- <- <-. exact H. }
  unfold ex_draws.
  apply FOP_cons; [apply Forall_cons; [|apply Forall_cons; [|apply Forall_nil]]|
                   apply FOP_cons; [apply Forall_cons; [|apply Forall_nil]|apply FOP_cons; [apply Forall_nil|apply FOP_nil]]].
  - eapply D; [vm_compute; reflexivity|vm_compute; reflexivity|]. right. vm_compute. discriminate.
  - eapply D; [vm_compute; reflexivity|vm_compute; reflexivity|]. left. vm_compute. discriminate.
  - eapply D; [vm_compute; reflexivity|vm_compute; reflexivity|]. left. vm_compute. discriminate.
Qed.
Example ex_seq_gcm :
  let items := [([5; 5], [1; 2; 3]); ([5; 5], [1; 2; 3]); ([5; 5], [1; 2; 3])] in
  NoDup (somes (enc_each (gcm_enc t_sbm t_x t_sha t_seal t_mask) ex_draws items)) /\
  dec_each (gcm_dec t_r2p t_x t_sha t_open) (map fst items) (enc_each (gcm_enc t_sbm t_x t_sha t_seal t_mask) ex_draws items)
  = [Some [1; 2; 3]; Some [1; 2; 3]; Some [1; 2; 3]].
Proof.
  split.
  - apply (seq_gcm_fresh t_sbm t_r2p t_x t_sha t_ctr t_seal t_open t_mask toy_laws); [reflexivity|exact ex_draws_differ].
  - vm_compute. reflexivity.
Qed.

(* ---- the stream-cipher shape (ModelStream): a toy keystream and a toy 16-octet authenticator meet the one hypothesis ---- *)
Definition s_ks (k iv : bytes) (i : nat) : byte := (nth 0 k 0 + nth 0 iv 0 + N.of_nat i) mod 256.
Definition s_mac (k n c : bytes) : bytes := take 16 (map (fun b => (b + nth 0 k 0) mod 256) c ++ repeat 7 16).
Lemma s_mac_length k n c : length (s_mac k n c) = 16%nat.
Proof. unfold s_mac, take. rewrite firstn_length, app_length, repeat_length. change (N.to_nat 16) with 16%nat. lia. Qed.
Example ex_stream_ctr : ctr_of s_ks [3] [4] [1; 2; 3] = [6; 10; 10] /\ ctr_of s_ks [3] [4] [6; 10; 10] = [1; 2; 3].
Proof. vm_compute. split; reflexivity. Qed.
Example ex_stream_gcm :
  let c := seal_of s_ks s_mac [3] [4] [1; 2; 3] in
  blen c = 19 /\ open_of s_ks s_mac [3] [4] c = Some [1; 2; 3] /\
  open_of s_ks s_mac [3] [4] (take 18 c ++ [N.lxor 1 (nth 18 c 0)]) = None.
Proof. vm_compute. repeat split; reflexivity. Qed.
Example ex_stream_laws : crypto_laws t_sbm t_r2p t_x (ctr_of s_ks) (seal_of s_ks s_mac) (open_of s_ks s_mac) t_mask.
Proof.
  destruct toy_laws as [H1 H2 H3 _ _ _].
  exact (crypto_laws_of_streams s_ks s_ks s_mac s_mac_length t_sbm t_r2p t_x t_mask H1 H2 H3).
Qed.

(* ---- label count: 127 octets -> 3 labels (63, 63, 1); 126 -> 2; 0 -> none ---- *)
Example ex_chunks_count :
  length (chunks 63 (repeat 7 127)) = 3%nat /\ map blen (chunks 63 (repeat 7 127)) = [63; 63; 1] /\
  length (chunks 63 (repeat 7 126)) = 2%nat /\ chunks 63 [] = [] /\ (blen (repeat 7 127) + 62) / 63 = 3.
Proof. vm_compute. repeat split; reflexivity. Qed.

(* ---- TXT RDATA size at the string boundaries: 0 -> 1, 255 -> 256, 256 -> 258, 510 -> 512, 511 -> 514 ---- *)
Example ex_txt_length :
  map (fun k => blen (enc_txt (repeat 7 k))) [0; 1; 255; 256; 510; 511]%nat = [1; 2; 256; 258; 512; 514].
Proof. vm_compute. reflexivity. Qed.
