(* C15 property theorems, second file (built in parallel with Props.v): statements + `exact lemma` only. *)
From CJ Require Import Common.Base C15.Model C15.Proofs C15.ModelName C15.ProofsName C15.ModelObf C15.ProofsObf C15.ModelAny C15.ProofsAny C15.ModelDns C15.ProofsDns C15.ModelExch C15.ProofsExch C15.ModelB32 C15.ProofsB32 C15.ModelPb C15.ProofsPb C15.ModelDot C15.ProofsDot.

(* ---- DNS message wire format with name compression ----
   The builder (after /repo 3cc5880) emits a pointer only to a cached suffix whose pointer chain
   stays within the reader's limit of 10, so the full statement holds for every message of
   NewName-validated names that the encoder accepts. *)
Definition C15_dns_full_statement : Prop :=
  forall m b, names_ok m -> wire_message m = Ok b -> read_message b = Ok m.

Theorem C15_dns_message_roundtrip : C15_dns_full_statement.
Proof. exact dns_message_roundtrip. Qed.
Print Assumptions C15_dns_message_roundtrip.

Theorem C15_dns_message_accepts : forall m, names_ok m -> msg_fits m -> exists b, wire_message m = Ok b.
Proof. exact wire_message_accepts. Qed.
Print Assumptions C15_dns_message_accepts.

Theorem C15_dns_message_rejects : forall m, names_ok m -> ~ msg_fits m -> wire_message m = Err EOverflow.
Proof. exact wire_message_rejects. Qed.
Print Assumptions C15_dns_message_rejects.

(* the invariant behind the round trip: a name written at the end of the buffer by a builder whose
   cache entries all decode is read back from there, whatever is appended later *)
Theorem C15_dns_write_name_spec :
  forall w c n bs c', cache_inv w c -> write_name c (blen w) n = Some (bs, c') -> name_ok n = true ->
    cache_inv (w ++ bs) c' /\ forall post, read_name ((w ++ bs) ++ post) (blen w) = Ok (n, blen (w ++ bs)).
Proof. exact write_name_spec. Qed.
Print Assumptions C15_dns_write_name_spec.

(* ---- the encrypted request/response exchange (base32 and Noise N abstract: exchange_laws) ---- *)
(* the responder's callback is given exactly the payload handed to the requester *)
Theorem C15_dns_exchange_request :
  forall b32enc b32dec cipher noise_write noise_read cs_encrypt cs_decrypt pub_of,
    exchange_laws b32enc b32dec cipher noise_write noise_read cs_encrypt cs_decrypt pub_of ->
    forall rnd k dom id payload qw cs process,
      requester_query b32enc cipher noise_write rnd (pub_of k) dom id payload = Some (qw, cs) ->
      fst (responder_handle b32dec cipher noise_read cs_encrypt k dom process qw) = Some payload.
Proof. exact exchange_request_b. Qed.
Print Assumptions C15_dns_exchange_request.

(* what the callback returns is what the requester obtains; an answer above the datagram limit is replaced by
   the responder with an empty body, which the requester can only try to decrypt as the empty string *)
Theorem C15_dns_exchange_response :
  forall b32enc b32dec cipher noise_write noise_read cs_encrypt cs_decrypt pub_of,
    exchange_laws b32enc b32dec cipher noise_write noise_read cs_encrypt cs_decrypt pub_of ->
    forall rnd k dom id payload qw cs process r,
      requester_query b32enc cipher noise_write rnd (pub_of k) dom id payload = Some (qw, cs) ->
      process payload = Some r ->
      forall rw, snd (responder_handle b32dec cipher noise_read cs_encrypt k dom process qw) = Some rw ->
        requester_receive cipher cs_decrypt cs dom rw = Some r \/
        requester_receive cipher cs_decrypt cs dom rw = cs_decrypt cs [].
Proof. exact exchange_response_b. Qed.
Print Assumptions C15_dns_exchange_response.

Theorem C15_dns_exchange_roundtrip :
  forall b32enc b32dec cipher noise_write noise_read cs_encrypt cs_decrypt pub_of,
    exchange_laws b32enc b32dec cipher noise_write noise_read cs_encrypt cs_decrypt pub_of ->
    forall rnd k dom id payload qw cs process r,
      requester_query b32enc cipher noise_write rnd (pub_of k) dom id payload = Some (qw, cs) ->
      process payload = Some r ->
      exists nm cs',
        forall enc fr w, cs_encrypt cs' r = Some enc -> add_response_format enc = Some fr ->
          wire_message (answer_msg (ok_resp id nm) fr) = Ok w -> blen w <= max_udp_payload ->
          responder_handle b32dec cipher noise_read cs_encrypt k dom process qw = (Some payload, Some w) /\
          requester_receive cipher cs_decrypt cs dom w = Some r.
Proof. exact exchange_response_fits_b. Qed.
Print Assumptions C15_dns_exchange_roundtrip.

(* ---- base32 concretely (model of Go's StdEncoding without padding, tied by the correspondence run):
   the coding law assumed above is a theorem for it ---- *)
Theorem C15_b32_roundtrip : forall p, wf_bytes p = true -> b32_decode (upper (lower (b32_encode p))) = Some p.
Proof. exact b32_roundtrip_concrete. Qed.
Print Assumptions C15_b32_roundtrip.

Theorem C15_exchange_laws_b32 :
  forall (cipher : Type) (noise_write : bytes -> bytes -> bytes -> option (bytes * cipher))
         (noise_read : bytes -> bytes -> option (bytes * cipher))
         (cs_encrypt cs_decrypt : cipher -> bytes -> option bytes) (pub_of : bytes -> bytes),
    (forall rnd k p hs cs, noise_write rnd (pub_of k) p = Some (hs, cs) ->
       wf_bytes hs = true /\
       exists cs', noise_read k hs = Some (p, cs') /\ forall r enc, cs_encrypt cs' r = Some enc -> cs_decrypt cs enc = Some r) ->
    exchange_laws b32_encode b32_decode cipher noise_write noise_read cs_encrypt cs_decrypt pub_of.
Proof. exact exchange_laws_b32. Qed.
Print Assumptions C15_exchange_laws_b32.

(* ---- protobuf wire codec, concretely (model of google.golang.org/protobuf for the messages involved; compared
   with proto.Marshal / proto.Unmarshal on every run).  Unknown fields are preserved, as Go does. ---- *)
Theorem C15_varint_roundtrip : forall n rest, n < two64 -> varint_dec (varint_enc n ++ rest) = Some (n, rest).
Proof. exact varint_roundtrip. Qed.
Print Assumptions C15_varint_roundtrip.

Theorem C15_pb_fields_roundtrip : forall fs, Forall field_wf fs -> dec_fields (enc_fields fs) = Ok fs.
Proof. exact dec_fields_roundtrip. Qed.
Print Assumptions C15_pb_fields_roundtrip.

Theorem C15_pb_generic_roundtrip : forall m, generic_wf m -> unmarshal_generic (marshal_generic m) = Ok m.
Proof. exact generic_roundtrip. Qed.
Print Assumptions C15_pb_generic_roundtrip.

Theorem C15_pb_prefix_roundtrip : forall m, prefix_wf m -> unmarshal_prefix (marshal_prefix m) = Ok m.
Proof. exact prefix_roundtrip. Qed.
Print Assumptions C15_pb_prefix_roundtrip.

Theorem C15_pb_dtls_roundtrip : forall m, dtls_wf m -> unmarshal_dtls (marshal_dtls m) = Ok m.
Proof. exact dtls_roundtrip. Qed.
Print Assumptions C15_pb_dtls_roundtrip.

Theorem C15_pb_any_roundtrip : forall m, any_wf m -> unmarshal_any (marshal_any m) = Ok m.
Proof. exact any_roundtrip. Qed.
Print Assumptions C15_pb_any_roundtrip.

(* the URL-less packing over bytes: client marshals the parameters into an Any without type URL, the station
   unmarshals the Any and unpacks it with UnmarshalAnypbTo into the type the transport expects *)
Theorem C15_anypb_nourl_bytes_roundtrip :
  forall m, pbmsg_wf m -> blen (pb_marshal m) < two64 ->
    station_unpack (client_pack_nourl m) (pb_type_of m) = Ok (Some m).
Proof. exact anypb_nourl_bytes_roundtrip. Qed.
Print Assumptions C15_anypb_nourl_bytes_roundtrip.

(* ---- DNS-over-TLS framing of the requester (two-octet length prefix per message on one stream) ---- *)
Theorem C15_dot_roundtrip :
  forall msgs s, Forall (fun p => blen p <= 65535) msgs -> dot_send msgs = (s, false) -> dot_recv s = (msgs, true).
Proof. exact dot_roundtrip. Qed.
Print Assumptions C15_dot_roundtrip.

Theorem C15_dot_frame_rejects : forall p, 65535 < blen p -> dot_frame p = None.
Proof. exact dot_frame_rejects. Qed.
Print Assumptions C15_dot_frame_rejects.

Theorem C15_dot_recv_truncated :
  forall msgs p k, Forall (fun q => blen q <= 65535) msgs -> blen p <= 65535 -> (k < 2 + length p)%nat -> (0 < k)%nat ->
    dot_recv (flat_map dot_fr msgs ++ firstn k (dot_fr p)) = (msgs, false).
Proof. exact dot_recv_truncated. Qed.
Print Assumptions C15_dot_recv_truncated.

(* ---- concurrent requests: the responder's answer is a function of the request datagram alone ----
   `serve` = map over the datagrams in arrival order.  Any number of requesters, queries arriving in any order and
   among any other datagrams: each query is served from its own bytes, the callback gets that requester's payload, the
   response carries that requester's DNS ID and decodes under its cipher to the callback's answer for its payload. *)
Theorem C15_dns_serve_order_irrelevant :
  forall b32dec cipher noise_read cs_encrypt k dom process a1 a2,
    Permutation.Permutation a1 a2 ->
    Permutation.Permutation (serve b32dec cipher noise_read cs_encrypt k dom process a1)
                            (serve b32dec cipher noise_read cs_encrypt k dom process a2).
Proof. exact serve_permutation. Qed.
Print Assumptions C15_dns_serve_order_irrelevant.

Theorem C15_dns_exchange_concurrent :
  forall b32enc b32dec cipher noise_write noise_read cs_encrypt cs_decrypt pub_of,
    exchange_laws b32enc b32dec cipher noise_write noise_read cs_encrypt cs_decrypt pub_of ->
    forall k dom process (reqs : list (xreq cipher)) arrived,
      Forall (xreq_ok b32enc cipher noise_write pub_of k dom) reqs ->
      (forall x, In x reqs -> In (x_qw cipher x) arrived) ->
      Forall (fun x =>
        In (x_qw cipher x, snd (responder_handle b32dec cipher noise_read cs_encrypt k dom process (x_qw cipher x)))
           (serve b32dec cipher noise_read cs_encrypt k dom process arrived) /\
        get_u16 (x_qw cipher x) 0 = Some (x_id cipher x) /\
        fst (responder_handle b32dec cipher noise_read cs_encrypt k dom process (x_qw cipher x)) = Some (x_payload cipher x) /\
        forall r rw, process (x_payload cipher x) = Some r ->
          snd (responder_handle b32dec cipher noise_read cs_encrypt k dom process (x_qw cipher x)) = Some rw ->
          requester_receive cipher cs_decrypt (x_cs cipher x) dom rw = Some r \/
          requester_receive cipher cs_decrypt (x_cs cipher x) dom rw = cs_decrypt (x_cs cipher x) []) reqs.
Proof. exact exchange_concurrent. Qed.
Print Assumptions C15_dns_exchange_concurrent.

Theorem C15_dns_exchange_response_id :
  forall b32enc b32dec cipher noise_write noise_read cs_encrypt cs_decrypt pub_of,
    exchange_laws b32enc b32dec cipher noise_write noise_read cs_encrypt cs_decrypt pub_of ->
    forall k dom process (x : xreq cipher) r,
      xreq_ok b32enc cipher noise_write pub_of k dom x -> process (x_payload cipher x) = Some r ->
      forall rw, snd (responder_handle b32dec cipher noise_read cs_encrypt k dom process (x_qw cipher x)) = Some rw ->
        get_u16 rw 0 = Some (x_id cipher x).
Proof. exact exchange_response_id. Qed.
Print Assumptions C15_dns_exchange_response_id.
