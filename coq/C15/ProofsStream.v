(* C15 proofs, part 11: the CTR/GCM laws of crypto_laws from the stream-cipher shape. *)
From CJ Require Import Common.Base Common.BaseProofs C15.Model C15.Proofs C15.ModelObf C15.ProofsObf C15.ModelStream.
From Coq Require Import Lia ZifyN ZifyNat ZifyBool.

Lemma stream_xor_length ks i m : length (stream_xor ks i m) = length m.
Proof. revert i; induction m as [|b r IH]; intros i; cbn; [reflexivity|]. rewrite IH. reflexivity. Qed.

Lemma stream_xor_involutive ks i m : stream_xor ks i (stream_xor ks i m) = m.
Proof.
  revert i; induction m as [|b r IH]; intros i; cbn; [reflexivity|].
  rewrite IH. f_equal.
  rewrite <- N.lxor_assoc, N.lxor_nilpotent. apply N.lxor_0_l.
Qed.

Section StreamLaws.
  Variable ctr_stream : bytes -> bytes -> nat -> byte.
  Variable gcm_stream : bytes -> bytes -> nat -> byte.
  Variable gcm_mac : bytes -> bytes -> bytes -> bytes.
  Hypothesis mac_length : forall k n c, length (gcm_mac k n c) = 16%nat.

  Lemma ctr_of_involution k iv m : ctr_of ctr_stream k iv (ctr_of ctr_stream k iv m) = m.
  Proof. apply stream_xor_involutive. Qed.

  Lemma ctr_of_length k iv m : blen (ctr_of ctr_stream k iv m) = blen m.
  Proof. unfold ctr_of, blen. rewrite stream_xor_length. reflexivity. Qed.

  Lemma seal_of_length k n m : blen (seal_of gcm_stream gcm_mac k n m) = blen m + 16.
  Proof. unfold seal_of. rewrite blen_app. unfold blen. rewrite stream_xor_length, mac_length. lia. Qed.

  Lemma open_seal k n m : open_of gcm_stream gcm_mac k n (seal_of gcm_stream gcm_mac k n m) = Some m.
  Proof.
    unfold open_of. rewrite seal_of_length.
    destruct (blen m + 16 <? 16) eqn:H; [lia|].
    replace (blen m + 16 - 16) with (blen m) by lia.
    unfold seal_of.
    assert (L : blen (stream_xor (gcm_stream k n) 0 m) = blen m) by (unfold blen; rewrite stream_xor_length; reflexivity).
    rewrite take_app_exact, drop_app_exact by exact L.
    rewrite bytes_eqb_refl. rewrite stream_xor_involutive. reflexivity.
  Qed.

  (* a forged or damaged encoding is rejected unless its last 16 octets are the authenticator of the rest *)
  Lemma open_checks_mac k n c m :
    open_of gcm_stream gcm_mac k n c = Some m ->
    16 <= blen c /\ drop (blen c - 16) c = gcm_mac k n (take (blen c - 16) c).
  Proof.
    unfold open_of. destruct (blen c <? 16) eqn:H; [discriminate|].
    destruct (bytes_eqb (drop (blen c - 16) c) (gcm_mac k n (take (blen c - 16) c))) eqn:E; [|discriminate].
    intros _. apply bytes_eqb_eq in E. split; [lia|exact E].
  Qed.

  (* the bundle of laws needs the three curve laws only *)
  Lemma crypto_laws_of_streams sbm r2p x pub_of :
    (forall a pa ra, sbm a = Some (pa, ra) -> length ra = 32%nat /\ nth 31 ra 0 < 64) ->
    (forall a pa ra, sbm a = Some (pa, ra) -> r2p ra = pa) ->
    (forall a pa ra k, sbm a = Some (pa, ra) -> x k pa = x a (pub_of k)) ->
    crypto_laws sbm r2p x (ctr_of ctr_stream) (seal_of gcm_stream gcm_mac) (open_of gcm_stream gcm_mac) pub_of.
  Proof.
    intros H1 H2 H3. constructor; [exact H1|exact H2|exact H3|apply ctr_of_involution|apply open_seal|apply seal_of_length].
  Qed.

  (* the obfuscator round trips under the three curve laws alone *)
  Section Curve.
    Variable sbm : bytes -> option (bytes * bytes).
    Variable r2p : bytes -> bytes.
    Variable x : bytes -> bytes -> option bytes.
    Variable sha : bytes -> bytes.
    Variable pub_of : bytes -> bytes.
    Hypothesis shape : forall a pa ra, sbm a = Some (pa, ra) -> length ra = 32%nat /\ nth 31 ra 0 < 64.
    Hypothesis ell : forall a pa ra, sbm a = Some (pa, ra) -> r2p ra = pa.
    Hypothesis dh : forall a pa ra k, sbm a = Some (pa, ra) -> x k pa = x a (pub_of k).

    Lemma ctr_roundtrip_streams r k t c :
      ctr_obfuscate sbm x sha (ctr_of ctr_stream) r t (pub_of k) = Some c -> ctr_reveal r2p x sha (ctr_of ctr_stream) c k = Some t.
    Proof.
      apply (ctr_obfuscate_reveal_b sbm r2p x sha (ctr_of ctr_stream) (seal_of gcm_stream gcm_mac) (open_of gcm_stream gcm_mac) pub_of).
      apply crypto_laws_of_streams; assumption.
    Qed.

    Lemma gcm_roundtrip_streams r k t c :
      gcm_obfuscate sbm x sha (seal_of gcm_stream gcm_mac) r t (pub_of k) = Some c ->
      gcm_reveal r2p x sha (open_of gcm_stream gcm_mac) c k = Some t.
    Proof.
      apply (gcm_obfuscate_reveal_b sbm r2p x sha (ctr_of ctr_stream) (seal_of gcm_stream gcm_mac) (open_of gcm_stream gcm_mac) pub_of).
      apply crypto_laws_of_streams; assumption.
    Qed.

    (* an encoding whose last 16 octets (the authenticator) were altered, everything before them intact, is rejected *)
    Lemma gcm_rejects_damaged_tag r k t c c' :
      gcm_obfuscate sbm x sha (seal_of gcm_stream gcm_mac) r t (pub_of k) = Some c ->
      length c' = length c -> take (blen c - 16) c' = take (blen c - 16) c -> c' <> c ->
      gcm_reveal r2p x sha (open_of gcm_stream gcm_mac) c' k = None.
    Proof.
      intros Ho Hl Ht Hne.
      assert (Hlen : blen c = 48 + blen t).
      { eapply (gcm_encoding_length_b sbm r2p x sha (ctr_of ctr_stream) (seal_of gcm_stream gcm_mac) (open_of gcm_stream gcm_mac) pub_of);
          [apply crypto_laws_of_streams; assumption|exact Ho]. }
      revert Ho. unfold gcm_obfuscate. destruct (negb (blen (pub_of k) =? 32)); [discriminate|].
      destruct (obf_header sbm r) as [hdr|] eqn:Hh; [|discriminate].
      destruct (shared_hash sbm x sha r (pub_of k)) as [h|] eqn:Hs; [|discriminate].
      intros [= Hc].
      destruct (reveal_hash_of_header sbm r2p x sha pub_of shape ell dh r k hdr h
                  (seal_of gcm_stream gcm_mac (take 16 h) (take 12 (drop 16 h)) t) Hh Hs) as [R L].
      (* c' = hdr ++ rest' with the same header (it lies within the intact part) *)
      set (body := stream_xor (gcm_stream (take 16 h) (take 12 (drop 16 h))) 0 t) in *.
      set (mac := gcm_mac (take 16 h) (take 12 (drop 16 h)) body) in *.
      assert (Lb : length body = length t) by (apply stream_xor_length).
      assert (Lm : length mac = 16%nat) by (apply mac_length).
      assert (Ec : c = (hdr ++ body) ++ mac) by (rewrite <- Hc; unfold seal_of; fold body; fold mac; rewrite app_assoc; reflexivity).
      assert (Lc : length c = (32 + length t + 16)%nat) by (rewrite Ec, !app_length; lia).
      assert (Hpre : take (blen c - 16) c = hdr ++ body).
      { rewrite Ec at 2. apply take_app_exact. unfold blen. rewrite Lc, app_length. lia. }
      (* split c' the same way *)
      assert (Ec' : c' = (hdr ++ body) ++ drop (blen c - 16) c').
      { rewrite <- Hpre, <- Ht. unfold take, drop. symmetry. apply firstn_skipn. }
      set (mac' := drop (blen c - 16) c') in *.
      assert (Lm' : length mac' = 16%nat).
      { apply (f_equal (@length byte)) in Ec'. rewrite !app_length in Ec'. lia. }
      assert (Hmac : mac' <> mac) by (intros E; apply Hne; rewrite Ec', Ec, E; reflexivity).
      unfold gcm_reveal.
      destruct (blen c' <? 48) eqn:H48; [reflexivity|].
      assert (R' : reveal_hash r2p x sha c' k = Some h).
      { rewrite Ec', <- app_assoc. 
        destruct (reveal_hash_of_header sbm r2p x sha pub_of shape ell dh r k hdr h (body ++ mac') Hh Hs) as [R2 _]. exact R2. }
      rewrite R'.
      assert (Hd : drop 32 c' = body ++ mac').
      { rewrite Ec', <- app_assoc. apply drop_app_exact. unfold blen. rewrite L. reflexivity. }
      rewrite Hd. unfold open_of.
      assert (Lbm : blen (body ++ mac') = blen t + 16) by (rewrite blen_app; unfold blen; lia).
      rewrite Lbm. destruct (blen t + 16 <? 16) eqn:H16; [reflexivity|].
      replace (blen t + 16 - 16) with (blen t) by lia.
      rewrite take_app_exact, drop_app_exact by (unfold blen; lia).
      fold mac. destruct (bytes_eqb mac' mac) eqn:E; [|reflexivity].
      apply bytes_eqb_eq in E. contradiction.
    Qed.
  End Curve.
End StreamLaws.
