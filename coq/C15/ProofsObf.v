(* C15 proofs, part 3: obfuscate/reveal round trips and freshness. *)
From CJ Require Import Common.Base Common.BaseProofs C15.Model C15.Proofs C15.ModelObf.
From Coq Require Import Lia ZifyN ZifyNat ZifyBool.
Ltac Zify.zify_post_hook ::= Z.div_mod_to_equations.

(* ---- the byte fact: (r | (0xC0 & n)) & 0x3F = r for r < 64 ---- *)
Lemma clear_randomize_hi n r : r < 64 -> clear_hi (randomize_hi n r) = r.
Proof.
  intros Hr. unfold clear_hi, randomize_hi.
  rewrite N.land_lor_distr_l.
  replace (N.land (N.land 192 n) 63) with 0.
  - rewrite N.lor_0_r. change 63 with (N.ones 6). rewrite N.land_ones.
    apply N.mod_small. exact Hr.
  - rewrite (N.land_comm 192 n), <- N.land_assoc. change (N.land 192 63) with 0.
    symmetry. apply N.land_0_r.
Qed.

(* the same fact by exhaustive sweep over both octets (the form used for regression of the mask constants) *)
Definition byte_fact_sweep : bool :=
  forallb (fun r => forallb (fun n => clear_hi (randomize_hi n r) =? r) (map N.of_nat (seq 0 256))) (map N.of_nat (seq 0 64)).
Lemma byte_fact_sweep_true : byte_fact_sweep = true.
Proof. vm_compute. reflexivity. Qed.

(* a mask of 0x7F would not undo the randomisation: the fact is not vacuous in the constants *)
Lemma wrong_mask_refuted : exists n r, r < 64 /\ N.land (randomize_hi n r) 127 <> r.
Proof. exists 64, 1. split; [lia|]. vm_compute. discriminate. Qed.

(* ---- upd31 ---- *)
Lemma upd31_length (f : byte -> byte) (r : bytes) : length r = 32%nat -> length (upd31 f r) = 32%nat.
Proof.
  intros H. unfold upd31, take. rewrite app_length, firstn_length. cbn. lia.
Qed.

Lemma nth31_upd31 (f : byte -> byte) (r : bytes) : length r = 32%nat -> nth 31 (upd31 f r) 0 = f (nth 31 r 0).
Proof.
  intros H. unfold upd31, take. rewrite app_nth2; rewrite firstn_length; [|lia].
  replace (31 - Init.Nat.min (N.to_nat 31) (length r))%nat with 0%nat by lia. reflexivity.
Qed.

Lemma take31_upd31 (f : byte -> byte) (r : bytes) : length r = 32%nat -> take 31 (upd31 f r) = take 31 r.
Proof.
  intros H. unfold upd31. apply take_app_exact. apply blen_take. unfold blen. lia.
Qed.

Lemma upd31_id (r : bytes) : length r = 32%nat -> take 31 r ++ [nth 31 r 0] = r.
Proof.
  intros H. rewrite <- (firstn_skipn 31 r) at 3. unfold take. change (N.to_nat 31) with 31%nat. f_equal.
  rewrite <- (firstn_skipn 31 r) at 1. rewrite app_nth2; rewrite firstn_length; [|lia].
  replace (31 - Init.Nat.min 31 (length r))%nat with 0%nat by lia.
  assert (L : length (skipn 31 r) = 1%nat) by (rewrite skipn_length; lia).
  destruct (skipn 31 r) as [|x [|y l]]; cbn in L; try lia. reflexivity.
Qed.

Lemma upd31_upd31 (f g : byte -> byte) (r : bytes) : length r = 32%nat -> g (f (nth 31 r 0)) = nth 31 r 0 -> upd31 g (upd31 f r) = r.
Proof.
  intros H E. change (upd31 g (upd31 f r)) with (take 31 (upd31 f r) ++ [g (nth 31 (upd31 f r) 0)]).
  rewrite take31_upd31, nth31_upd31 by assumption. rewrite E.
  apply upd31_id. assumption.
Qed.

(* ---- XOR ---- *)
Lemma xor_bytes_length a b : length a = length b -> length (xor_bytes a b) = length a.
Proof.
  revert b; induction a as [|x a IH]; intros [|y b] H; cbn in *; try lia. rewrite IH; lia.
Qed.

Lemma xor_bytes_involutive r t : length r = length t -> xor_bytes r (xor_bytes r t) = t.
Proof.
  revert t; induction r as [|x r IH]; intros [|y t] H; cbn in *; try lia; [reflexivity|].
  rewrite IH by lia. f_equal. rewrite <- N.lxor_assoc, N.lxor_nilpotent. apply N.lxor_0_l.
Qed.

Lemma xor_obfuscate_reveal r t c :
  length r = length t ->
  xor_obfuscate r t = Some c -> xor_reveal c = Some t.
Proof.
  intros Hl. unfold xor_obfuscate. destruct (blen t =? 0) eqn:H0; [discriminate|].
  intros [= <-]. unfold xor_reveal.
  assert (Hx : length (xor_bytes r t) = length r) by (apply xor_bytes_length; assumption).
  assert (Hb : blen (r ++ xor_bytes r t) = 2 * blen r).
  { rewrite blen_app. unfold blen. lia. }
  rewrite Hb.
  destruct (negb ((2 * blen r) mod 2 =? 0) || (2 * blen r =? 0)) eqn:Hc.
  { unfold blen in *. lia. }
  replace (2 * blen r / 2) with (blen r) by lia.
  rewrite take_app_exact, drop_app_exact by reflexivity.
  rewrite xor_bytes_involutive by assumption. reflexivity.
Qed.

(* the empty tag has no encoding the decoder accepts: the encoder rejects it *)
Lemma xor_rejects_empty r : xor_obfuscate r [] = None.
Proof. reflexivity. Qed.
Lemma xor_accepts_nonempty r t : t <> [] -> exists c, xor_obfuscate r t = Some c.
Proof.
  intros H. unfold xor_obfuscate. destruct (blen t =? 0) eqn:H0; [|eauto].
  destruct t; [congruence|]. unfold blen in H0. cbn in H0. lia.
Qed.

Lemma app_inj_length {A} (a b c d : list A) : length a = length c -> a ++ b = c ++ d -> a = c.
Proof.
  revert c; induction a as [|x a IH]; intros [|y c] H E; cbn in *; try lia; [reflexivity|].
  injection E as -> E. f_equal. apply (IH c); [lia|assumption].
Qed.

Lemma xor_fresh r1 r2 t c1 c2 :
  length r1 = length t -> length r2 = length t -> r1 <> r2 ->
  xor_obfuscate r1 t = Some c1 -> xor_obfuscate r2 t = Some c2 -> c1 <> c2.
Proof.
  intros H1 H2 Hr. unfold xor_obfuscate. destruct (blen t =? 0) eqn:H0; [discriminate|].
  intros [= <-] [= <-] E. apply Hr. eapply app_inj_length; [|exact E]. lia.
Qed.

(* ---- Nil ---- *)
Lemma nil_obfuscate_reveal t c : nil_obfuscate t = Some c -> nil_reveal c = Some t.
Proof. intros [= <-]. reflexivity. Qed.

(* ---- CTR / GCM under the laws of the primitives ---- *)
Section CryptoLaws.
  Variable scalar_base_mult : bytes -> option (bytes * bytes).
  Variable repr_to_pub : bytes -> bytes.
  Variable x25519 : bytes -> bytes -> option bytes.
  Variable sha256 : bytes -> bytes.
  Variable aes_ctr : bytes -> bytes -> bytes -> bytes.
  Variable gcm_seal : bytes -> bytes -> bytes -> bytes.
  Variable gcm_open : bytes -> bytes -> bytes -> option bytes.
  Variable pub_of : bytes -> bytes.          (* the station's public key for its private key *)

  (* the representative is 32 octets with the two high bits of the last one clear *)
  Hypothesis representative_shape :
    forall a pa ra, scalar_base_mult a = Some (pa, ra) -> length ra = 32%nat /\ nth 31 ra 0 < 64.
  (* Elligator inverse *)
  Hypothesis elligator_inverse :
    forall a pa ra, scalar_base_mult a = Some (pa, ra) -> repr_to_pub ra = pa.
  (* Diffie-Hellman commutativity *)
  Hypothesis dh_commutes :
    forall a pa ra k, scalar_base_mult a = Some (pa, ra) -> x25519 k pa = x25519 a (pub_of k).
  (* CTR is an involution, GCM open inverts seal, the GCM tag is 16 octets *)
  Hypothesis ctr_involution : forall k iv m, aes_ctr k iv (aes_ctr k iv m) = m.
  Hypothesis gcm_open_seal : forall k n m, gcm_open k n (gcm_seal k n m) = Some m.
  Hypothesis gcm_seal_length : forall k n m, blen (gcm_seal k n m) = blen m + 16.

  Notation first_representable := (first_representable scalar_base_mult).
  Notation obf_header := (obf_header scalar_base_mult).
  Notation shared_hash := (shared_hash scalar_base_mult x25519 sha256).
  Notation reveal_hash := (reveal_hash repr_to_pub x25519 sha256).

  Lemma first_representable_sound cands a pa ra :
    first_representable cands = Some (a, pa, ra) -> scalar_base_mult a = Some (pa, ra).
  Proof.
    induction cands as [|x r IH]; cbn; [discriminate|].
    destruct (scalar_base_mult x) as [[p q]|] eqn:E; [|exact IH].
    intros [= <- <- <-]. exact E.
  Qed.

  (* what the station recomputes from the first 32 octets is what the client hashed *)
  Lemma reveal_hash_of_header r spk_priv hdr h body :
    obf_header r = Some hdr -> shared_hash r (pub_of spk_priv) = Some h ->
    reveal_hash (hdr ++ body) spk_priv = Some h /\ length hdr = 32%nat.
  Proof.
    unfold obf_header, shared_hash, reveal_hash.
    destruct (first_representable (or_cands r)) as [[[a pa] ra]|] eqn:F; [|discriminate].
    apply first_representable_sound in F.
    destruct (representative_shape _ _ _ F) as [L Hi].
    intros [= <-]. destruct (x25519 a (pub_of spk_priv)) as [ss|] eqn:X; [|discriminate].
    intros [= <-].
    assert (L' : length (upd31 (randomize_hi (or_byte r)) ra) = 32%nat) by (apply upd31_length; exact L).
    split; [|exact L'].
    rewrite take_app_exact by (unfold blen; rewrite L'; reflexivity).
    rewrite upd31_upd31; [|exact L|apply clear_randomize_hi; exact Hi].
    rewrite (elligator_inverse _ _ _ F), (dh_commutes _ _ _ spk_priv F), X. reflexivity.
  Qed.

  Lemma ctr_obfuscate_reveal r k t c :
    ctr_obfuscate scalar_base_mult x25519 sha256 aes_ctr r t (pub_of k) = Some c ->
    ctr_reveal repr_to_pub x25519 sha256 aes_ctr c k = Some t.
  Proof.
    unfold ctr_obfuscate, ctr_reveal.
    destruct (negb (blen (pub_of k) =? 32)); [discriminate|].
    destruct (obf_header r) as [hdr|] eqn:Hh; [|discriminate].
    destruct (shared_hash r (pub_of k)) as [h|] eqn:Hs; [|discriminate].
    intros [= <-].
    destruct (reveal_hash_of_header r k hdr h (aes_ctr (take 16 h) (take 16 (drop 16 h)) t) Hh Hs) as [R L].
    rewrite R.
    destruct (blen (hdr ++ aes_ctr (take 16 h) (take 16 (drop 16 h)) t) <? 32) eqn:Hlen.
    { rewrite blen_app in Hlen. unfold blen in Hlen. lia. }
    rewrite drop_app_exact by (unfold blen; rewrite L; reflexivity).
    rewrite ctr_involution. reflexivity.
  Qed.

  Lemma gcm_obfuscate_reveal r k t c :
    gcm_obfuscate scalar_base_mult x25519 sha256 gcm_seal r t (pub_of k) = Some c ->
    gcm_reveal repr_to_pub x25519 sha256 gcm_open c k = Some t.
  Proof.
    unfold gcm_obfuscate, gcm_reveal.
    destruct (negb (blen (pub_of k) =? 32)); [discriminate|].
    destruct (obf_header r) as [hdr|] eqn:Hh; [|discriminate].
    destruct (shared_hash r (pub_of k)) as [h|] eqn:Hs; [|discriminate].
    intros [= <-].
    destruct (reveal_hash_of_header r k hdr h (gcm_seal (take 16 h) (take 12 (drop 16 h)) t) Hh Hs) as [R L].
    rewrite R.
    destruct (blen (hdr ++ gcm_seal (take 16 h) (take 12 (drop 16 h)) t) <? 48) eqn:Hlen.
    { rewrite blen_app, gcm_seal_length in Hlen. unfold blen in Hlen. lia. }
    rewrite drop_app_exact by (unfold blen; rewrite L; reflexivity).
    apply gcm_open_seal.
  Qed.

  (* lengths: the minimum lengths the decoders insist on are met by every encoding *)
  Lemma ctr_encoding_length r spk t c :
    (forall k iv m, blen (aes_ctr k iv m) = blen m) ->
    ctr_obfuscate scalar_base_mult x25519 sha256 aes_ctr r t spk = Some c -> blen c = 32 + blen t.
  Proof.
    intros Hctr. unfold ctr_obfuscate. destruct (negb (blen spk =? 32)); [discriminate|].
    unfold ModelObf.obf_header.
    destruct (first_representable (or_cands r)) as [[[a pa] ra]|] eqn:F; [|discriminate].
    destruct (shared_hash r spk) as [h|]; [|discriminate]. intros [= <-].
    apply first_representable_sound in F. destruct (representative_shape _ _ _ F) as [L _].
    rewrite blen_app, Hctr. unfold blen. rewrite upd31_length by exact L. lia.
  Qed.

  Lemma gcm_encoding_length r spk t c :
    gcm_obfuscate scalar_base_mult x25519 sha256 gcm_seal r t spk = Some c -> blen c = 48 + blen t.
  Proof.
    unfold gcm_obfuscate. destruct (negb (blen spk =? 32)); [discriminate|].
    unfold ModelObf.obf_header.
    destruct (first_representable (or_cands r)) as [[[a pa] ra]|] eqn:F; [|discriminate].
    destruct (shared_hash r spk) as [h|]; [|discriminate]. intros [= <-].
    apply first_representable_sound in F. destruct (representative_shape _ _ _ F) as [L _].
    rewrite blen_app, gcm_seal_length. unfold blen. rewrite upd31_length by exact L. lia.
  Qed.

  (* freshness: the first 32 octets are a function of the randomness alone; two calls whose
     randomness yields different headers yield different encodings of the same tag *)
  Lemma ctr_fresh r1 r2 spk t c1 c2 :
    ctr_obfuscate scalar_base_mult x25519 sha256 aes_ctr r1 t spk = Some c1 ->
    ctr_obfuscate scalar_base_mult x25519 sha256 aes_ctr r2 t spk = Some c2 ->
    obf_header r1 <> obf_header r2 -> c1 <> c2.
  Proof.
    unfold ctr_obfuscate. destruct (negb (blen spk =? 32)); [discriminate|].
    destruct (obf_header r1) as [h1|] eqn:H1; [|discriminate].
    destruct (obf_header r2) as [h2|] eqn:H2; [|destruct (shared_hash r1 spk); discriminate].
    destruct (shared_hash r1 spk); [|discriminate]. destruct (shared_hash r2 spk); [|discriminate].
    intros [= <-] [= <-] Hne E. apply Hne. f_equal.
    eapply app_inj_length; [|exact E].
    unfold ModelObf.obf_header in H1, H2.
    destruct (first_representable (or_cands r1)) as [[[a1 p1] q1]|] eqn:F1; [|discriminate].
    destruct (first_representable (or_cands r2)) as [[[a2 p2] q2]|] eqn:F2; [|discriminate].
    apply first_representable_sound in F1, F2.
    destruct (representative_shape _ _ _ F1) as [L1 _]. destruct (representative_shape _ _ _ F2) as [L2 _].
    injection H1 as <-. injection H2 as <-. rewrite !upd31_length by assumption. reflexivity.
  Qed.

  Lemma gcm_fresh r1 r2 spk t c1 c2 :
    gcm_obfuscate scalar_base_mult x25519 sha256 gcm_seal r1 t spk = Some c1 ->
    gcm_obfuscate scalar_base_mult x25519 sha256 gcm_seal r2 t spk = Some c2 ->
    obf_header r1 <> obf_header r2 -> c1 <> c2.
  Proof.
    unfold gcm_obfuscate. destruct (negb (blen spk =? 32)); [discriminate|].
    destruct (obf_header r1) as [h1|] eqn:H1; [|discriminate].
    destruct (obf_header r2) as [h2|] eqn:H2; [|destruct (shared_hash r1 spk); discriminate].
    destruct (shared_hash r1 spk); [|discriminate]. destruct (shared_hash r2 spk); [|discriminate].
    intros [= <-] [= <-] Hne E. apply Hne. f_equal.
    eapply app_inj_length; [|exact E].
    unfold ModelObf.obf_header in H1, H2.
    destruct (first_representable (or_cands r1)) as [[[a1 p1] q1]|] eqn:F1; [|discriminate].
    destruct (first_representable (or_cands r2)) as [[[a2 p2] q2]|] eqn:F2; [|discriminate].
    apply first_representable_sound in F1, F2.
    destruct (representative_shape _ _ _ F1) as [L1 _]. destruct (representative_shape _ _ _ F2) as [L2 _].
    injection H1 as <-. injection H2 as <-. rewrite !upd31_length by assumption. reflexivity.
  Qed.

  (* the header differs as soon as the representatives differ or the two random high bits differ *)
  Lemma header_differs r1 r2 a1 p1 q1 a2 p2 q2 :
    first_representable (or_cands r1) = Some (a1, p1, q1) ->
    first_representable (or_cands r2) = Some (a2, p2, q2) ->
    q1 <> q2 \/ N.land 192 (or_byte r1) <> N.land 192 (or_byte r2) ->
    obf_header r1 <> obf_header r2.
  Proof.
    intros F1 F2 Hd. unfold ModelObf.obf_header. rewrite F1, F2. intros [= E].
    apply first_representable_sound in F1, F2.
    destruct (representative_shape _ _ _ F1) as [L1 B1]. destruct (representative_shape _ _ _ F2) as [L2 B2].
    assert (E31 : randomize_hi (or_byte r1) (nth 31 q1 0) = randomize_hi (or_byte r2) (nth 31 q2 0)).
    { rewrite <- (nth31_upd31 _ q1 L1), <- (nth31_upd31 _ q2 L2), E. reflexivity. }
    assert (Et : take 31 q1 = take 31 q2).
    { rewrite <- (take31_upd31 (randomize_hi (or_byte r1)) q1 L1), <- (take31_upd31 (randomize_hi (or_byte r2)) q2 L2), E. reflexivity. }
    assert (Elo : nth 31 q1 0 = nth 31 q2 0).
    { rewrite <- (clear_randomize_hi (or_byte r1) _ B1), <- (clear_randomize_hi (or_byte r2) _ B2), E31. reflexivity. }
    destruct Hd as [Hq|Hb].
    - apply Hq. rewrite <- (upd31_id q1 L1), <- (upd31_id q2 L2), Et, Elo. reflexivity.
    - apply Hb. unfold randomize_hi in E31. rewrite Elo in E31.
      (* (x | h1) = (x | h2) with x < 64 and h1, h2 multiples of 64 below 256 *)
      assert (Hh : forall n, N.land (N.lor (nth 31 q2 0) (N.land 192 n)) 192 = N.land 192 n).
      { intros n. rewrite N.land_lor_distr_l.
        replace (N.land (nth 31 q2 0) 192) with 0.
        - rewrite N.lor_0_l, (N.land_comm 192 n), <- N.land_assoc. reflexivity.
        - assert (Hx : nth 31 q2 0 = N.land (nth 31 q2 0) 63).
          { change 63 with (N.ones 6). rewrite N.land_ones. symmetry. apply N.mod_small. exact B2. }
          rewrite Hx, <- N.land_assoc. change (N.land 63 192) with 0. symmetry. apply N.land_0_r. }
      rewrite <- (Hh (or_byte r1)), <- (Hh (or_byte r2)), E31. reflexivity.
  Qed.
End CryptoLaws.

(* the same statements with the laws bundled (the form used in Props.v) *)
Section Bundled.
  Variable sbm : bytes -> option (bytes * bytes).
  Variable r2p : bytes -> bytes.
  Variable x : bytes -> bytes -> option bytes.
  Variable sha : bytes -> bytes.
  Variable ctr : bytes -> bytes -> bytes -> bytes.
  Variable seal : bytes -> bytes -> bytes -> bytes.
  Variable open : bytes -> bytes -> bytes -> option bytes.
  Variable pub_of : bytes -> bytes.
  Hypothesis L : crypto_laws sbm r2p x ctr seal open pub_of.

  Lemma ctr_obfuscate_reveal_b r k t c :
    ctr_obfuscate sbm x sha ctr r t (pub_of k) = Some c -> ctr_reveal r2p x sha ctr c k = Some t.
  Proof. destruct L. eapply ctr_obfuscate_reveal; eauto. Qed.

  Lemma gcm_obfuscate_reveal_b r k t c :
    gcm_obfuscate sbm x sha seal r t (pub_of k) = Some c -> gcm_reveal r2p x sha open c k = Some t.
  Proof. destruct L. eapply gcm_obfuscate_reveal; eauto. Qed.

  Lemma gcm_encoding_length_b r spk t c :
    gcm_obfuscate sbm x sha seal r t spk = Some c -> blen c = 48 + blen t.
  Proof. destruct L. eapply gcm_encoding_length; eauto. Qed.

  Lemma ctr_fresh_b r1 r2 spk t c1 c2 :
    ctr_obfuscate sbm x sha ctr r1 t spk = Some c1 -> ctr_obfuscate sbm x sha ctr r2 t spk = Some c2 ->
    obf_header sbm r1 <> obf_header sbm r2 -> c1 <> c2.
  Proof. destruct L. eapply ctr_fresh; eauto. Qed.

  Lemma gcm_fresh_b r1 r2 spk t c1 c2 :
    gcm_obfuscate sbm x sha seal r1 t spk = Some c1 -> gcm_obfuscate sbm x sha seal r2 t spk = Some c2 ->
    obf_header sbm r1 <> obf_header sbm r2 -> c1 <> c2.
  Proof. destruct L. eapply gcm_fresh; eauto. Qed.

  Lemma header_differs_b r1 r2 a1 p1 q1 a2 p2 q2 :
    first_representable sbm (or_cands r1) = Some (a1, p1, q1) ->
    first_representable sbm (or_cands r2) = Some (a2, p2, q2) ->
    q1 <> q2 \/ N.land 192 (or_byte r1) <> N.land 192 (or_byte r2) ->
    obf_header sbm r1 <> obf_header sbm r2.
  Proof. destruct L. eapply header_differs; eauto. Qed.
End Bundled.
