(* C15 proofs, part 2: names, chunks, request name <-> payload. *)
From CJ Require Import Common.Base Common.BaseProofs C15.Model C15.Proofs C15.ModelName.
From Coq Require Import Lia ZifyN ZifyNat ZifyBool.
Ltac Zify.zify_post_hook ::= Z.div_mod_to_equations.

(* ---- name equality ---- *)
Lemma name_eqb_refl a : name_eqb a a = true.
Proof. induction a as [|x a IH]; cbn; [reflexivity|]. rewrite bytes_eqb_refl, IH. reflexivity. Qed.

Lemma name_eqb_eq a b : name_eqb a b = true <-> a = b.
Proof.
  split; [|intros ->; apply name_eqb_refl].
  revert b; induction a as [|x a IH]; intros [|y b]; cbn; try congruence.
  intros H. apply andb_true_iff in H as [H1 H2]. apply bytes_eqb_eq in H1. f_equal; auto.
Qed.

(* ---- NewName ---- *)
Definition label_ok (l : label) : Prop := 1 <= blen l <= 63.

Lemma labels_check_none n : labels_check n = None <-> Forall label_ok n.
Proof.
  induction n as [|l r IH]; cbn.
  - split; auto.
  - destruct (blen l =? 0) eqn:H0.
    + split; [discriminate|]. intros H. inversion H; subst. unfold label_ok in *. lia.
    + destruct (63 <? blen l) eqn:H1.
      * split; [discriminate|]. intros H. inversion H; subst. unfold label_ok in *. lia.
      * rewrite IH. split.
        -- intros H. constructor; [unfold label_ok; lia|assumption].
        -- intros H. inversion H; assumption.
Qed.

Lemma new_name_ok n n' :
  new_name n = Ok n' <-> n' = n /\ Forall label_ok n /\ name_wire_len n <= 255.
Proof.
  unfold new_name. destruct (labels_check n) eqn:Hc.
  - split; [discriminate|]. intros (_ & H & _). apply labels_check_none in H. congruence.
  - apply labels_check_none in Hc. destruct (255 <? name_wire_len n) eqn:Hl.
    + split; [discriminate|]. intros (_ & _ & H). lia.
    + split.
      * intros [= <-]. repeat split; auto. lia.
      * intros (-> & _ & _). reflexivity.
Qed.

Lemma new_name_rejects n :
  ~ (Forall label_ok n /\ name_wire_len n <= 255) -> exists e, new_name n = Err e.
Proof.
  intros H. destruct (new_name n) as [n'|e|] eqn:E.
  - apply new_name_ok in E as (_ & H1 & H2). tauto.
  - eauto.
  - unfold new_name in E. destruct (labels_check n); [discriminate|].
    destruct (255 <? name_wire_len n); discriminate.
Qed.

Lemma new_name_never_panics n : new_name n <> Panic.
Proof.
  unfold new_name. destruct (labels_check n); [discriminate|].
  destruct (255 <? name_wire_len n); discriminate.
Qed.

Lemma name_ok_spec n : name_ok n = true <-> Forall label_ok n /\ name_wire_len n <= 255.
Proof.
  unfold name_ok. destruct (new_name n) as [n'|e|] eqn:E.
  - apply new_name_ok in E. tauto.
  - split; [discriminate|]. intros H. assert (E' : new_name n = Ok n) by (apply new_name_ok; tauto). congruence.
  - exfalso. eapply new_name_never_panics; eauto.
Qed.

(* ---- the uncompressed wire form ---- *)
Lemma blen_cons (x : byte) l : blen (x :: l) = 1 + blen l.
Proof. unfold blen. cbn [length]. lia. Qed.

Lemma blen_name_wire n : blen (name_wire n) = name_wire_len n.
Proof.
  induction n as [|l r IH]; [reflexivity|].
  cbn [name_wire name_wire_len]. rewrite blen_cons, blen_app, IH. lia.
Qed.

Lemma write_name_aux_fresh n : forall off, Forall label_ok n ->
  exists ents, write_name_aux [] off n = Some (name_wire n, ents, 0).
Proof.
  induction n as [|l r IH]; intros off Hok; [eexists; reflexivity|].
  inversion Hok as [|? ? Hl Hr]; subst. unfold label_ok in Hl.
  cbn [write_name_aux cache_find].
  destruct ((blen l =? 0) || (63 <? blen l)) eqn:Hb; [lia|].
  destruct (IH (off + 1 + blen l) Hr) as [ents E]. rewrite E. eexists; reflexivity.
Qed.

Lemma write_name_fresh off n : Forall label_ok n -> exists c, write_name [] off n = Some (name_wire n, c).
Proof.
  intros H. unfold write_name. destruct (write_name_aux_fresh n off H) as [ents E]. rewrite E. eexists; reflexivity.
Qed.

(* reading a verbatim name back *)
Lemma read_seg_wire n : forall fuel post pos acc,
  Forall label_ok n -> (length n < fuel)%nat ->
  read_seg fuel (name_wire n ++ post) pos acc = SegEnd (rev n ++ acc) (pos + name_wire_len n).
Proof.
  induction n as [|l r IH]; intros fuel post pos acc Hok Hf.
  - destruct fuel; [cbn in Hf; lia|]. reflexivity.
  - destruct fuel; [cbn in Hf; lia|].
    inversion Hok as [|? ? Hl Hr]; subst. unfold label_ok in Hl.
    cbn [name_wire app read_seg].
    destruct (blen l <? 64) eqn:H1; [|lia].
    destruct (blen l =? 0) eqn:H2; [lia|].
    rewrite <- app_assoc.
    destruct (blen (l ++ name_wire r ++ post) <? blen l) eqn:H3.
    { rewrite blen_app in H3. lia. }
    rewrite take_app_exact, drop_app_exact by reflexivity.
    rewrite IH; [|assumption|cbn [length] in Hf; lia].
    cbn [rev name_wire_len]. rewrite <- app_assoc. cbn [app]. f_equal. lia.
Qed.

Lemma length_name_wire n : (length n < length (name_wire n))%nat.
Proof.
  induction n as [|l r IH]; cbn [name_wire length]; [lia|]. rewrite app_length. lia.
Qed.

Lemma read_name_wire pre post n :
  name_ok n = true ->
  read_name (pre ++ name_wire n ++ post) (blen pre) = Ok (n, blen pre + name_wire_len n).
Proof.
  intros Hok. apply name_ok_spec in Hok as [Hl Hw].
  unfold read_name, seg_at. rewrite drop_app_exact by reflexivity.
  rewrite read_seg_wire; [|assumption|].
  - unfold finish_name. rewrite app_nil_r, rev_involutive.
    destruct (255 <? name_wire_len n) eqn:H; [lia|reflexivity].
  - pose proof (length_name_wire n). rewrite !app_length. lia.
Qed.

(* NewName accepts n  ->  a fresh builder's WriteName followed by readName yields n *)
Lemma name_roundtrip n n' :
  new_name n = Ok n' ->
  exists w c, write_name [] 0 n' = Some (w, c) /\ read_name w 0 = Ok (n, name_wire_len n).
Proof.
  intros H. apply new_name_ok in H as (-> & H1 & H2).
  destruct (write_name_fresh 0 n H1) as [c E]. exists (name_wire n), c. split; [exact E|].
  pose proof (read_name_wire [] [] n) as R. cbn [app] in R. rewrite app_nil_r in R.
  change (blen []) with 0 in R. rewrite N.add_0_l in R.
  apply R. apply name_ok_spec. auto.
Qed.

(* ---- chunks ---- *)
Lemma chunks_fuel_concat f : forall n p, 0 < n -> (length p <= f)%nat -> concat (chunks_fuel f n p) = p.
Proof.
  induction f as [|f IH]; intros n p Hn Hf.
  - destruct p; [reflexivity|cbn in Hf; lia].
  - destruct p as [|x p]; [reflexivity|].
    cbn [chunks_fuel concat]. rewrite IH; [apply take_drop|assumption|].
    pose proof (blen_drop n (x :: p)) as Hd. unfold blen in Hd. cbn [length] in *. lia.
Qed.

Lemma chunks_concat n p : 0 < n -> concat (chunks n p) = p.
Proof. intros Hn. apply chunks_fuel_concat; [assumption|lia]. Qed.

Lemma chunks_fuel_sizes f : forall n p, 0 < n -> Forall (fun c => 1 <= blen c <= n) (chunks_fuel f n p).
Proof.
  induction f as [|f IH]; intros n p Hn; [constructor|].
  destruct p as [|x p]; [constructor|]. cbn [chunks_fuel]. constructor; [|apply IH; assumption].
  destruct (N.le_gt_cases n (blen (x :: p))) as [Hc|Hc].
  - rewrite blen_take by assumption. lia.
  - rewrite take_all by lia. rewrite blen_cons in *. lia.
Qed.

Lemma chunks_sizes n p : 0 < n -> Forall (fun c => 1 <= blen c <= n) (chunks n p).
Proof. apply chunks_fuel_sizes. Qed.

(* greedy: every chunk but the last one is full *)
Fixpoint all_but_last_full (n : N) (l : list bytes) : Prop :=
  match l with
  | [] => True
  | [_] => True
  | c :: r => blen c = n /\ all_but_last_full n r
  end.

Lemma chunks_fuel_greedy f : forall n p, 0 < n -> all_but_last_full n (chunks_fuel f n p).
Proof.
  induction f as [|f IH]; intros n p Hn; [exact I|].
  destruct p as [|x p]; [exact I|]. cbn [chunks_fuel].
  specialize (IH n (drop n (x :: p)) Hn).
  destruct (chunks_fuel f n (drop n (x :: p))) as [|c r] eqn:E; [exact I|].
  cbn [all_but_last_full]. split; [|exact IH].
  destruct (N.le_gt_cases n (blen (x :: p))) as [Hc|Hc]; [apply blen_take; assumption|].
  exfalso. assert (Hd : drop n (x :: p) = []).
  { unfold drop. apply skipn_all2. unfold blen in Hc. lia. }
  rewrite Hd in E. destruct f; discriminate.
Qed.

Lemma chunks_greedy n p : 0 < n -> all_but_last_full n (chunks n p).
Proof. apply chunks_fuel_greedy. Qed.

(* the labels made from a payload are valid labels *)
Lemma chunks_labels_ok p : Forall label_ok (chunks 63 p).
Proof. apply chunks_sizes. lia. Qed.

(* ---- TrimSuffix ---- *)
Lemma trim_suffix_app pre dom : trim_suffix (pre ++ dom) dom = Some pre.
Proof.
  unfold trim_suffix. rewrite app_length.
  destruct (length pre + length dom <? length dom)%nat eqn:H; [lia|].
  replace (length pre + length dom - length dom)%nat with (length pre + 0)%nat by lia.
  rewrite skipn_app, firstn_app_2. rewrite Nat.add_comm, Nat.add_sub. cbn [skipn firstn].
  rewrite skipn_all2 by lia. cbn [app]. rewrite name_eqb_refl, app_nil_r. reflexivity.
Qed.

(* ---- payload -> query name -> payload, for an abstract base32 ---- *)
Section RequestName.
  Variable b32enc : bytes -> bytes.            (* base32.StdEncoding (no padding) *)
  Variable b32dec : bytes -> option bytes.
  Hypothesis b32_roundtrip : forall p, wf_bytes p = true -> b32dec (upper (lower (b32enc p))) = Some p.

  Lemma request_name_roundtrip dom p nm :
    wf_bytes p = true ->
    request_name (fun q => lower (b32enc q)) dom p = Ok nm ->
    name_payload b32dec dom nm = Some p.
  Proof.
    unfold request_name, name_payload. intros Hwf H. apply new_name_ok in H as (-> & _ & _).
    rewrite trim_suffix_app, chunks_concat by lia. apply b32_roundtrip. exact Hwf.
  Qed.

  (* the requester reports an error exactly when the name cannot be represented *)
  Lemma request_name_error_iff dom p :
    (exists e, request_name (fun q => lower (b32enc q)) dom p = Err e) <->
    ~ (Forall label_ok dom /\ name_wire_len (chunks 63 (lower (b32enc p)) ++ dom) <= 255).
  Proof.
    unfold request_name. split.
    - intros [e He] [H1 H2].
      assert (E : new_name (chunks 63 (lower (b32enc p)) ++ dom) = Ok (chunks 63 (lower (b32enc p)) ++ dom)).
      { apply new_name_ok. repeat split; [|assumption]. apply Forall_app. split; [apply chunks_labels_ok|assumption]. }
      congruence.
    - intros H. apply new_name_rejects. intros [H1 H2]. apply H. split; [|assumption].
      apply Forall_app in H1. tauto.
  Qed.
End RequestName.

(* ---- Name.String is injective on non-empty names: keying the cache by the label list (model) and by
   the rendered string (code) is the same thing ---- *)
Definition wf_name (n : name) : Prop := Forall (fun l => wf_bytes l = true) n.

Lemma hexdigit_inj a b : a < 16 -> b < 16 -> hexdigit a = hexdigit b -> a = b.
Proof. unfold hexdigit. intros Ha Hb. destruct (a <? 10) eqn:E1, (b <? 10) eqn:E2; lia. Qed.

Lemma plain_not_special b : is_plain b = true -> b <> 46 /\ b <> 92.
Proof. unfold is_plain. intros H. lia. Qed.

(* a tail is either empty or starts with the separating dot *)
Definition tail_ok (t : bytes) : Prop := t = [] \/ exists t', t = 46 :: t'.

Lemma esc_label_inj l1 : forall l2 t1 t2,
  wf_bytes l1 = true -> wf_bytes l2 = true -> tail_ok t1 -> tail_ok t2 ->
  esc_label l1 ++ t1 = esc_label l2 ++ t2 -> l1 = l2 /\ t1 = t2.
Proof.
  induction l1 as [|b1 l1 IH]; intros l2 t1 t2 W1 W2 T1 T2 E.
  - destruct l2 as [|b2 l2]; [auto|]. exfalso. cbn [esc_label flat_map app] in E.
    unfold esc_byte in E. destruct (is_plain b2) eqn:P2.
    + apply plain_not_special in P2 as [P46 _]. destruct T1 as [->|[t' ->]]; cbn in E; [discriminate|]. injection E as E _. congruence.
    + destruct T1 as [->|[t' ->]]; cbn in E; discriminate.
  - destruct l2 as [|b2 l2].
    + exfalso. cbn [esc_label flat_map app] in E. unfold esc_byte in E. destruct (is_plain b1) eqn:P1.
      * apply plain_not_special in P1 as [P46 _]. destruct T2 as [->|[t' ->]]; cbn in E; [discriminate|]. injection E as E _. congruence.
      * destruct T2 as [->|[t' ->]]; cbn in E; discriminate.
    + cbn [wf_bytes forallb] in W1, W2. apply andb_true_iff in W1 as [B1 W1], W2 as [B2 W2]. unfold wf_byte in B1, B2.
      cbn [esc_label flat_map] in E. rewrite <- !app_assoc in E. fold (esc_label l1) in E. fold (esc_label l2) in E.
      unfold esc_byte in E. destruct (is_plain b1) eqn:P1, (is_plain b2) eqn:P2; cbn [app] in E.
      * injection E as -> E. destruct (IH _ _ _ W1 W2 T1 T2 E) as [-> ->]. auto.
      * injection E as -> _. apply plain_not_special in P1. tauto.
      * injection E as <- _. apply plain_not_special in P2. tauto.
      * injection E as Hhi Hlo E.
        apply hexdigit_inj in Hhi; [|lia|lia]. apply hexdigit_inj in Hlo; [|lia|lia].
        assert (b1 = b2) by lia. subst b2.
        destruct (IH _ _ _ W1 W2 T1 T2 E) as [-> ->]. auto.
Qed.

Lemma dotted_tail_ok r : tail_ok (dotted r).
Proof. destruct r as [|l r]; [left; reflexivity|right]. cbn [dotted flat_map app]. eexists; reflexivity. Qed.

Lemma dotted_inj r1 : forall r2, wf_name r1 -> wf_name r2 -> dotted r1 = dotted r2 -> r1 = r2.
Proof.
  induction r1 as [|l1 r1 IH]; intros [|l2 r2] W1 W2 E; cbn [dotted flat_map app] in E; try discriminate; [reflexivity|].
  injection E as E. fold (dotted r1) in E. fold (dotted r2) in E.
  inversion W1; subst. inversion W2; subst.
  destruct (esc_label_inj l1 l2 _ _ ltac:(assumption) ltac:(assumption) (dotted_tail_ok r1) (dotted_tail_ok r2) E) as [-> E'].
  f_equal. apply IH; assumption.
Qed.

Lemma name_string_inj n1 n2 :
  n1 <> [] -> n2 <> [] -> wf_name n1 -> wf_name n2 -> name_string n1 = name_string n2 -> n1 = n2.
Proof.
  destruct n1 as [|l1 r1]; [congruence|]. destruct n2 as [|l2 r2]; [congruence|]. intros _ _ W1 W2 E.
  cbn [name_string] in E. inversion W1; subst. inversion W2; subst.
  destruct (esc_label_inj l1 l2 _ _ ltac:(assumption) ltac:(assumption) (dotted_tail_ok r1) (dotted_tail_ok r2) E) as [-> E'].
  f_equal. apply dotted_inj; assumption.
Qed.

(* hence the two lookups agree on caches of non-empty well-formed suffixes *)
Lemma cache_find_str_eq c k :
  k <> [] -> wf_name k -> (forall e, In e c -> ce_key e <> [] /\ wf_name (ce_key e)) ->
  cache_find_str c k = cache_find c k.
Proof.
  intros Hk Wk. induction c as [|e r IH]; intros Hc; [reflexivity|].
  cbn [cache_find_str cache_find]. destruct (Hc e (or_introl eq_refl)) as [He We].
  destruct (name_eqb (ce_key e) k) eqn:E1.
  - apply name_eqb_eq in E1. rewrite E1, bytes_eqb_refl. reflexivity.
  - destruct (bytes_eqb (name_string (ce_key e)) (name_string k)) eqn:E2.
    + apply bytes_eqb_eq in E2. apply name_string_inj in E2; try assumption.
      rewrite E2, name_eqb_refl in E1. discriminate.
    + apply IH. intros e' He'. apply Hc. right. exact He'.
Qed.

(* ---- TrimSuffix and bytes.ToLower ----
   Whatever the folding function is, a name built as prefix ++ domain is recognised and the prefix returned: this is
   the only way TrimSuffix is used on the round-trip paths (query name = labels ++ domain, answer name = query name). *)
Lemma trim_suffix_gen_app lw pre dom : trim_suffix_gen lw (pre ++ dom) dom = Some pre.
Proof.
  unfold trim_suffix_gen. rewrite app_length.
  destruct (length pre + length dom <? length dom)%nat eqn:H; [lia|].
  replace (length pre + length dom - length dom)%nat with (length pre + 0)%nat by lia.
  rewrite skipn_app, firstn_app_2. rewrite Nat.add_comm, Nat.add_sub. cbn [skipn firstn].
  rewrite skipn_all2 by lia. cbn [app]. rewrite name_eqb_refl, app_nil_r. reflexivity.
Qed.

Lemma trim_suffix_is_gen n s : trim_suffix n s = trim_suffix_gen lower n s.
Proof. reflexivity. Qed.

(* so the ASCII model and the real folding agree on every name that occurs on those paths *)
Lemma trim_suffix_agrees_on_app lw pre dom : trim_suffix_gen lw (pre ++ dom) dom = trim_suffix (pre ++ dom) dom.
Proof. rewrite trim_suffix_gen_app, trim_suffix_app. reflexivity. Qed.

(* and on all-ASCII names they agree for every folding that is `lower` on ASCII strings (bytes.ToLower's fast path) *)
Lemma map_lw_ascii lw n : (forall l, ascii_label l = true -> lw l = lower l) -> ascii_name n = true -> map lw n = map lower n.
Proof.
  intros H. induction n as [|l r IH]; [reflexivity|]. cbn [ascii_name forallb map]. intros E.
  apply andb_true_iff in E as [E1 E2]. rewrite (H l E1), IH by exact E2. reflexivity.
Qed.

Lemma ascii_name_skipn k n : ascii_name n = true -> ascii_name (skipn k n) = true.
Proof.
  revert n; induction k as [|k IH]; intros [|l r] H; cbn; auto. cbn [ascii_name forallb] in H.
  apply andb_true_iff in H as [_ H]. apply IH. exact H.
Qed.

Lemma trim_suffix_gen_ascii lw n s :
  (forall l, ascii_label l = true -> lw l = lower l) -> ascii_name n = true -> ascii_name s = true ->
  trim_suffix_gen lw n s = trim_suffix n s.
Proof.
  intros H Hn Hs. unfold trim_suffix, trim_suffix_gen.
  destruct (length n <? length s)%nat; [reflexivity|].
  pose proof (map_lw_ascii lw _ H (ascii_name_skipn (length n - length s) n Hn)) as E1.
  pose proof (map_lw_ascii lw s H Hs) as E2. unfold name, label, bytes, byte in *. rewrite E1, E2. reflexivity.
Qed.
