(* C15 proofs, part 6: the request/response exchange composes to the identity. *)
From CJ Require Import Common.Base Common.BaseProofs C15.Model C15.Proofs C15.ModelName C15.ProofsName
  C15.ModelDns C15.ProofsDns C15.ModelExch.
From Coq Require Import Lia ZifyN ZifyNat ZifyBool.
Ltac Zify.zify_post_hook ::= Z.div_mod_to_equations.

(* ---- lengths only grow while a message is built ---- *)
Lemma b_name_len st n st' : b_name st n = Ok st' -> blen (fst st) <= blen (fst st').
Proof.
  destruct st as [w c]. unfold b_name. destruct (write_name c (blen w) n) as [[bs c']|]; [|discriminate].
  intros [= <-]. cbn [fst]. rewrite blen_app. lia.
Qed.

Lemma b_question_len st q st' : b_question st q = Ok st' -> blen (fst st) <= blen (fst st').
Proof.
  unfold b_question. destruct (b_name st (q_name q)) as [[w1 c1]|e|] eqn:E; try discriminate.
  intros [= <-]. apply b_name_len in E. cbn [fst b_bytes] in *. rewrite blen_app. lia.
Qed.

Lemma b_rr_len st r st' : b_rr st r = Ok st' -> blen (fst st) + blen (rr_data r) <= blen (fst st').
Proof.
  unfold b_rr. destruct (b_name st (rr_name r)) as [[w1 c1]|e|] eqn:E; try discriminate.
  destruct (65535 <? blen (rr_data r)); [discriminate|].
  intros [= <-]. apply b_name_len in E. cbn [fst b_bytes] in *. unfold rr_tail. rewrite !blen_app. lia.
Qed.

Lemma b_list_q_len l : forall st st', b_list b_question st l = Ok st' -> blen (fst st) <= blen (fst st').
Proof.
  induction l as [|q l IH]; intros st st' H; cbn [b_list] in H; [injection H as <-; lia|].
  destruct (b_question st q) as [st1|e|] eqn:E; try discriminate.
  apply b_question_len in E. apply IH in H. lia.
Qed.

Lemma b_list_rr_len l : forall st st', b_list b_rr st l = Ok st' ->
  blen (fst st) <= blen (fst st') /\ forall a, In a l -> blen (rr_data a) <= blen (fst st').
Proof.
  induction l as [|r l IH]; intros st st' H; cbn [b_list] in H.
  - injection H as <-. split; [lia|intros a []].
  - destruct (b_rr st r) as [st1|e|] eqn:E; try discriminate.
    apply b_rr_len in E. destruct (IH _ _ H) as [H1 H2]. split; [lia|].
    intros a [<-|Ha]; [lia|auto].
Qed.

Lemma wire_an_data_le m w a : wire_message m = Ok w -> In a (m_an m) -> blen (rr_data a) <= blen w.
Proof.
  unfold wire_message. destruct (b_message m) as [[w' c]|e|] eqn:Hb; try discriminate. intros [= <-] Ha.
  unfold b_message in Hb.
  destruct ((65535 <? lenN (m_q m)) || (65535 <? lenN (m_an m)) || (65535 <? lenN (m_ns m)) || (65535 <? lenN (m_ar m))); [discriminate|].
  destruct (b_list b_question (header m, []) (m_q m)) as [st1|e|] eqn:H1; try discriminate.
  destruct (b_list b_rr st1 (m_an m)) as [st2|e|] eqn:H2; try discriminate.
  destruct (b_list b_rr st2 (m_ns m)) as [st3|e|] eqn:H3; try discriminate.
  apply b_list_rr_len in H2, H3, Hb. destruct H2 as [_ H2]. specialize (H2 a Ha).
  cbn [fst] in *. lia.
Qed.

(* ---- TXT never shrinks a payload ---- *)
Lemma enc_txt_fuel_len g : forall p, (length p < g)%nat -> blen p <= blen (enc_txt_fuel g p).
Proof.
  induction g as [|g IH]; intros p Hg; [lia|].
  cbn [enc_txt_fuel]. destruct (255 <? blen p) eqn:Hb.
  - rewrite blen_cons, blen_app.
    assert (Hd : (length (drop 255 p) < g)%nat).
    { pose proof (blen_drop 255 p) as H. unfold blen in *. lia. }
    specialize (IH _ Hd). rewrite blen_drop in IH. rewrite blen_take by lia. lia.
  - rewrite blen_cons. lia.
Qed.

Lemma enc_txt_len p : blen p <= blen (enc_txt p).
Proof. apply enc_txt_fuel_len. lia. Qed.

(* ---- response framing read from a zero-padded buffer ---- *)
Lemma response_roundtrip_padded p e pad :
  add_response_format p = Some e -> remove_response_format (e ++ pad) = Some p.
Proof.
  unfold add_response_format. destruct (blen p <=? 65535) eqn:Hl; [|discriminate].
  intros [= <-]. cbn [app remove_response_format].
  assert (E : 256 * (blen p / 256) + blen p mod 256 = blen p) by lia.
  rewrite E. destruct (blen (p ++ pad) <? blen p) eqn:H2; [rewrite blen_app in H2; lia|].
  rewrite take_app_exact by reflexivity. reflexivity.
Qed.

Lemma take_padded (p : bytes) n k : blen p <= n -> n <= blen p + N.of_nat k ->
  exists pad, take n (p ++ repeat 0 k) = p ++ pad.
Proof.
  intros H1 H2. exists (take (n - blen p) (repeat 0 k)).
  unfold take, blen in *. rewrite firstn_app. f_equal.
  - apply firstn_all2. lia.
  - f_equal. lia.
Qed.

Lemma wf_bytes_cons b l : wf_bytes (b :: l) = wf_byte b && wf_bytes l.
Proof. reflexivity. Qed.

Section ExchangeLaws.
  Variable b32enc : bytes -> bytes.
  Variable b32dec : bytes -> option bytes.
  Variable cipher : Type.
  Variable noise_write : bytes -> bytes -> bytes -> option (bytes * cipher).
  Variable noise_read : bytes -> bytes -> option (bytes * cipher).
  Variable cs_encrypt : cipher -> bytes -> option bytes.
  Variable cs_decrypt : cipher -> bytes -> option bytes.
  Variable pub_of : bytes -> bytes.

  Hypothesis b32_roundtrip : forall p, wf_bytes p = true -> b32dec (upper (lower (b32enc p))) = Some p.
  (* Noise N: what the initiator wrote for the responder's static key is read by the holder of that key
     as the same payload, and the two cipher states returned match (reply direction) *)
  Hypothesis noise_correct : forall rnd k p hs cs,
    noise_write rnd (pub_of k) p = Some (hs, cs) ->
    wf_bytes hs = true /\
    exists cs', noise_read k hs = Some (p, cs') /\
                forall r enc, cs_encrypt cs' r = Some enc -> cs_decrypt cs enc = Some r.

  Notation requester_query := (requester_query b32enc cipher noise_write).
  Notation response_for := (response_for b32dec).
  Notation responder_handle := (responder_handle b32dec cipher noise_read cs_encrypt).
  Notation requester_receive := (requester_receive cipher cs_decrypt).

  (* what the requester's query looks like, and that the responder's checks all pass on it *)
  Lemma request_direction rnd k dom id payload qw cs :
    requester_query rnd (pub_of k) dom id payload = Some (qw, cs) ->
    exists nm hs framed cs',
      noise_write rnd (pub_of k) payload = Some (hs, cs) /\
      name_ok nm = true /\ trim_suffix nm dom <> None /\
      read_message qw = Ok (query_msg id nm) /\
      response_for (query_msg id nm) dom = Some (ok_resp id nm, Some framed) /\
      remove_request_format framed = Some hs /\
      noise_read k hs = Some (payload, cs') /\
      (forall r enc, cs_encrypt cs' r = Some enc -> cs_decrypt cs enc = Some r).
  Proof.
    unfold ModelExch.requester_query.
    destruct (noise_write rnd (pub_of k) payload) as [[hs cs0]|] eqn:Hn; [|discriminate].
    destruct (add_request_format hs) as [framed|] eqn:Hf; [|discriminate].
    destruct (request_name (fun q => lower (b32enc q)) dom framed) as [nm|e|] eqn:Hr; try discriminate.
    destruct (wire_message (query_msg id nm)) as [w|e|] eqn:Hw; try discriminate.
    intros [= <- <-].
    destruct (noise_correct _ _ _ _ _ Hn) as (Hwf & cs' & Hread & Hdec).
    exists nm, hs, framed, cs'.
    assert (Hnm : name_ok nm = true).
    { unfold request_name in Hr. unfold name_ok.
      assert (E : nm = chunks 63 (lower (b32enc framed)) ++ dom) by (apply new_name_ok in Hr; tauto).
      rewrite E in *. rewrite Hr. reflexivity. }
    assert (Hnm_eq : nm = chunks 63 (lower (b32enc framed)) ++ dom).
    { unfold request_name in Hr. apply new_name_ok in Hr. tauto. }
    assert (Hwf_framed : wf_bytes framed = true).
    { unfold add_request_format in Hf. destruct (blen hs <=? 255) eqn:Hl; [|discriminate].
      injection Hf as <-. rewrite wf_bytes_cons, Hwf. unfold wf_byte. lia. }
    assert (Htrim : trim_suffix nm dom = Some (chunks 63 (lower (b32enc framed)))).
    { rewrite Hnm_eq. apply trim_suffix_app. }
    repeat split; auto.
    - rewrite Htrim. discriminate.
    - apply dns_message_roundtrip; [|exact Hw].
      unfold names_ok, names_of, query_msg. cbn [m_q m_an m_ns m_ar map app q_name rr_name opt_rr].
      repeat constructor. exact Hnm.
    - unfold ModelExch.response_for, query_msg. cbn [m_flags m_ar m_q q_name q_type].
      change (negb (N.land 256 32768 =? 0)) with false. cbv iota.
      change (scan_opt [opt_rr 0] false 0) with (OptOk true 4096). cbv iota.
      change (4096 <? 512) with false. cbv iota.
      fold (query_msg id nm). rewrite Htrim.
      change (negb (N.land (N.shiftr 256 11) 15 =? 0)) with false. cbv iota.
      change (negb (rr_type_txt =? rr_type_txt)) with false. cbv iota.
      rewrite chunks_concat by lia. rewrite b32_roundtrip by exact Hwf_framed.
      change (4096 <? max_udp_payload) with false. cbv iota. reflexivity.
    - eapply request_roundtrip. exact Hf.
  Qed.

  (* 1. the responder's callback is given exactly the payload the requester was asked to send *)
  Lemma exchange_request rnd k dom id payload qw cs process :
    requester_query rnd (pub_of k) dom id payload = Some (qw, cs) ->
    fst (responder_handle k dom process qw) = Some payload.
  Proof.
    intros H. destruct (request_direction _ _ _ _ _ _ _ H) as (nm & hs & framed & cs' & _ & _ & _ & Hrd & Hrf & Hrem & Hnr & _).
    unfold ModelExch.responder_handle. rewrite Hrd, Hrf, Hrem, Hnr.
    destruct (process payload) as [r|]; [|reflexivity].
    destruct (cs_encrypt cs' r) as [enc|]; [|reflexivity].
    destruct (add_response_format enc); reflexivity.
  Qed.

  Lemma answer_msg_ok id nm body :
    answer_msg (ok_resp id nm) body =
    {| m_id := id; m_flags := 33792; m_q := [{| q_name := nm; q_type := rr_type_txt; q_class := 1 |}];
       m_an := [{| rr_name := nm; rr_type := rr_type_txt; rr_class := 1; rr_ttl := 60; rr_data := enc_txt body |}];
       m_ns := []; m_ar := [opt_rr 0] |}.
  Proof. reflexivity. Qed.

  Lemma answer_names_ok id nm body : name_ok nm = true -> names_ok (answer_msg (ok_resp id nm) body).
  Proof.
    intros H. rewrite answer_msg_ok. unfold names_ok, names_of. cbn [m_q m_an m_ns m_ar map app q_name rr_name opt_rr].
    repeat constructor; exact H.
  Qed.

  (* what the requester extracts from the responder's answer datagram *)
  Lemma receive_answer cs dom id nm body w :
    name_ok nm = true -> trim_suffix nm dom <> None ->
    wire_message (answer_msg (ok_resp id nm) body) = Ok w ->
    requester_receive cs dom w =
    match remove_response_format (take 4096 (body ++ repeat 0 4096)) with Some enc => cs_decrypt cs enc | None => None end.
  Proof.
    intros Hnm Htrim Hw. unfold ModelExch.requester_receive.
    rewrite (dns_message_roundtrip _ _ (answer_names_ok id nm body Hnm) Hw).
    rewrite answer_msg_ok. unfold response_payload. cbn [m_flags m_an rr_name rr_type rr_data].
    change (N.land 33792 32768 =? 0) with false. change (negb (N.land 33792 15 =? 0)) with false. cbv iota.
    destruct (trim_suffix nm dom) as [pre|]; [|congruence].
    change (rr_type_txt =? rr_type_txt) with true. cbv iota.
    rewrite txt_roundtrip. reflexivity.
  Qed.

  Lemma body_le_wire id nm body w :
    wire_message (answer_msg (ok_resp id nm) body) = Ok w -> blen body <= blen w.
  Proof.
    intros Hw. pose proof (enc_txt_len body) as H1.
    assert (H2 : blen (enc_txt body) <= blen w).
    { eapply (wire_an_data_le _ _ {| rr_name := nm; rr_type := rr_type_txt; rr_class := 1; rr_ttl := 60; rr_data := enc_txt body |} Hw).
      rewrite answer_msg_ok. cbn [m_an]. left. reflexivity. }
    lia.
  Qed.

  Lemma empty_buffer_framing : remove_response_format (take 4096 ([] ++ repeat 0 4096)) = Some [].
  Proof. vm_compute. reflexivity. Qed.

  (* 2. what the callback returns reaches the requester when the answer fits the datagram limit; when it does
     not, the responder substitutes an empty body and the requester is left to decrypt the empty string (an
     authentication failure for any AEAD): never a different answer *)
  Lemma exchange_response rnd k dom id payload qw cs process r :
    requester_query rnd (pub_of k) dom id payload = Some (qw, cs) ->
    process payload = Some r ->
    forall rw, snd (responder_handle k dom process qw) = Some rw ->
      requester_receive cs dom rw = Some r \/ requester_receive cs dom rw = cs_decrypt cs [].
  Proof.
    intros H Hp rw. destruct (request_direction _ _ _ _ _ _ _ H) as (nm & hs & framed & cs' & _ & Hnm & Htrim & Hrd & Hrf & Hrem & Hnr & Hdec).
    unfold ModelExch.responder_handle. rewrite Hrd, Hrf, Hrem, Hnr, Hp.
    destruct (cs_encrypt cs' r) as [enc|] eqn:He; [|discriminate].
    destruct (add_response_format enc) as [fr|] eqn:Hfr; [|discriminate].
    cbn [snd]. unfold datagram.
    destruct (wire_message (answer_msg (ok_resp id nm) fr)) as [w|e|] eqn:Hw; try discriminate.
    destruct (max_udp_payload <? blen w) eqn:Hbig.
    - destruct (wire_message (answer_msg (ok_resp id nm) [])) as [w'|e|] eqn:Hw'; try discriminate.
      intros [= <-]. right.
      rewrite (receive_answer cs dom id nm [] w' Hnm Htrim Hw').
      match goal with |- match ?X with _ => _ end = _ => assert (EX : X = Some []) by (vm_compute; reflexivity); rewrite EX end.
      reflexivity.
    - intros [= <-]. left.
      rewrite (receive_answer cs dom id nm fr w Hnm Htrim Hw).
      assert (Hb : blen fr <= 4096).
      { pose proof (body_le_wire _ _ _ _ Hw). unfold max_udp_payload in Hbig. lia. }
      destruct (take_padded fr 4096 4096 Hb) as [pad ->]; [lia|].
      rewrite (response_roundtrip_padded _ _ pad Hfr). apply Hdec. exact He.
  Qed.

  (* 2'. and it does reach the requester exactly when the full answer is within the limit *)
  Lemma exchange_response_fits rnd k dom id payload qw cs process r :
    requester_query rnd (pub_of k) dom id payload = Some (qw, cs) ->
    process payload = Some r ->
    exists nm cs',
      forall enc fr w, cs_encrypt cs' r = Some enc -> add_response_format enc = Some fr ->
        wire_message (answer_msg (ok_resp id nm) fr) = Ok w -> blen w <= max_udp_payload ->
        responder_handle k dom process qw = (Some payload, Some w) /\ requester_receive cs dom w = Some r.
  Proof.
    intros H Hp. destruct (request_direction _ _ _ _ _ _ _ H) as (nm & hs & framed & cs' & _ & Hnm & Htrim & Hrd & Hrf & Hrem & Hnr & Hdec).
    exists nm, cs'. intros enc fr w He Hfr Hw Hfit.
    unfold ModelExch.responder_handle. rewrite Hrd, Hrf, Hrem, Hnr, Hp, He, Hfr.
    unfold datagram. rewrite Hw.
    destruct (max_udp_payload <? blen w) eqn:Hbig; [lia|]. split; [reflexivity|].
    rewrite (receive_answer cs dom id nm fr w Hnm Htrim Hw).
    assert (Hb : blen fr <= 4096).
    { pose proof (body_le_wire _ _ _ _ Hw). unfold max_udp_payload in Hfit. lia. }
    destruct (take_padded fr 4096 4096 Hb) as [pad ->]; [lia|].
    rewrite (response_roundtrip_padded _ _ pad Hfr). apply Hdec. exact He.
  Qed.
End ExchangeLaws.

Section Bundled.
  Variable b32enc : bytes -> bytes.
  Variable b32dec : bytes -> option bytes.
  Variable cipher : Type.
  Variable noise_write : bytes -> bytes -> bytes -> option (bytes * cipher).
  Variable noise_read : bytes -> bytes -> option (bytes * cipher).
  Variable cs_encrypt : cipher -> bytes -> option bytes.
  Variable cs_decrypt : cipher -> bytes -> option bytes.
  Variable pub_of : bytes -> bytes.
  Hypothesis L : exchange_laws b32enc b32dec cipher noise_write noise_read cs_encrypt cs_decrypt pub_of.

  Lemma exchange_request_b rnd k dom id payload qw cs process :
    requester_query b32enc cipher noise_write rnd (pub_of k) dom id payload = Some (qw, cs) ->
    fst (responder_handle b32dec cipher noise_read cs_encrypt k dom process qw) = Some payload.
  Proof. destruct L. eapply exchange_request; eauto. Qed.

  Lemma exchange_response_b rnd k dom id payload qw cs process r :
    requester_query b32enc cipher noise_write rnd (pub_of k) dom id payload = Some (qw, cs) ->
    process payload = Some r ->
    forall rw, snd (responder_handle b32dec cipher noise_read cs_encrypt k dom process qw) = Some rw ->
      requester_receive cipher cs_decrypt cs dom rw = Some r \/
      requester_receive cipher cs_decrypt cs dom rw = cs_decrypt cs [].
  Proof. destruct L. eapply exchange_response; eauto. Qed.

  Lemma exchange_response_fits_b rnd k dom id payload qw cs process r :
    requester_query b32enc cipher noise_write rnd (pub_of k) dom id payload = Some (qw, cs) ->
    process payload = Some r ->
    exists nm cs',
      forall enc fr w, cs_encrypt cs' r = Some enc -> add_response_format enc = Some fr ->
        wire_message (answer_msg (ok_resp id nm) fr) = Ok w -> blen w <= max_udp_payload ->
        responder_handle b32dec cipher noise_read cs_encrypt k dom process qw = (Some payload, Some w) /\
        requester_receive cipher cs_decrypt cs dom w = Some r.
  Proof. destruct L. eapply exchange_response_fits; eauto. Qed.
End Bundled.

(* ---- concurrent requests ---- *)
From Coq Require Import Permutation.

Lemma read_message_id w m : read_message w = Ok m -> get_u16 w 0 = Some (m_id m).
Proof.
  unfold read_message. destruct (get_u16 w 0) as [id|]; [|discriminate].
  destruct (get_u16 w 2) as [fl|]; [|discriminate]. destruct (get_u16 w 4) as [qd|]; [|discriminate].
  destruct (get_u16 w 6) as [an|]; [|discriminate]. destruct (get_u16 w 8) as [ns|]; [|discriminate].
  destruct (get_u16 w 10) as [ar|]; [|discriminate].
  destruct (read_n read_question (N.to_nat qd) w 12) as [[qs p1]|e|]; try discriminate.
  destruct (read_n read_rr (N.to_nat an) w p1) as [[ans p2]|e|]; try discriminate.
  destruct (read_n read_rr (N.to_nat ns) w p2) as [[nss p3]|e|]; try discriminate.
  destruct (read_n read_rr (N.to_nat ar) w p3) as [[ars p4]|e|]; try discriminate.
  destruct (p4 <? blen w); [discriminate|]. intros [= <-]. reflexivity.
Qed.

Section ConcurrentLaws.
  Variable b32enc : bytes -> bytes.
  Variable b32dec : bytes -> option bytes.
  Variable cipher : Type.
  Variable noise_write : bytes -> bytes -> bytes -> option (bytes * cipher).
  Variable noise_read : bytes -> bytes -> option (bytes * cipher).
  Variable cs_encrypt : cipher -> bytes -> option bytes.
  Variable cs_decrypt : cipher -> bytes -> option bytes.
  Variable pub_of : bytes -> bytes.
  Hypothesis L : exchange_laws b32enc b32dec cipher noise_write noise_read cs_encrypt cs_decrypt pub_of.

  (* one requester's exchange: randomness, DNS ID, payload, the query datagram and the reply cipher it holds *)
  Record xreq := { x_rnd : bytes; x_id : N; x_payload : bytes; x_qw : bytes; x_cs : cipher }.
  Definition xreq_ok (k : bytes) (dom : name) (x : xreq) : Prop :=
    requester_query b32enc cipher noise_write (x_rnd x) (pub_of k) dom (x_id x) (x_payload x) = Some (x_qw x, x_cs x).

  Notation handle := (responder_handle b32dec cipher noise_read cs_encrypt).
  Notation serve := (serve b32dec cipher noise_read cs_encrypt).

  (* the arrival order does not matter: the served pairs are the same up to that order *)
  Lemma serve_permutation k dom process a1 a2 : Permutation a1 a2 -> Permutation (serve k dom process a1) (serve k dom process a2).
  Proof. apply Permutation_map. Qed.

  (* any number of requesters, their queries arriving in any order, possibly among other datagrams:
     every requester's query is served with the response computed from that query alone; the callback is given
     that requester's payload; and the response - the one carrying its own DNS ID - decodes under its own cipher
     to the callback's answer for its own payload *)
  Lemma exchange_concurrent k dom process reqs arrived :
    Forall (xreq_ok k dom) reqs ->
    (forall x, In x reqs -> In (x_qw x) arrived) ->
    Forall (fun x =>
      In (x_qw x, snd (handle k dom process (x_qw x))) (serve k dom process arrived) /\
      get_u16 (x_qw x) 0 = Some (x_id x) /\
      fst (handle k dom process (x_qw x)) = Some (x_payload x) /\
      forall r rw, process (x_payload x) = Some r -> snd (handle k dom process (x_qw x)) = Some rw ->
        requester_receive cipher cs_decrypt (x_cs x) dom rw = Some r \/
        requester_receive cipher cs_decrypt (x_cs x) dom rw = cs_decrypt (x_cs x) []) reqs.
  Proof.
    intros Hok Harr. apply Forall_forall. intros x Hx.
    rewrite Forall_forall in Hok. specialize (Hok x Hx). unfold xreq_ok in Hok.
    split; [|split; [|split]].
    - unfold ModelExch.serve. apply in_map_iff. exists (x_qw x). split; [reflexivity|apply Harr; exact Hx].
    - destruct L as [Lb Ln].
      destruct (request_direction b32enc b32dec cipher noise_write noise_read cs_encrypt cs_decrypt pub_of Lb Ln _ _ _ _ _ _ _ Hok)
        as (nm & hs & framed & cs' & _ & _ & _ & Hrd & _).
      apply read_message_id in Hrd. exact Hrd.
    - eapply exchange_request_b; eauto.
    - intros r rw Hp Hs. eapply exchange_response_b; eauto.
  Qed.

  (* the response that reaches a requester carries that requester's DNS ID *)
  Lemma exchange_response_id k dom process x r :
    xreq_ok k dom x -> process (x_payload x) = Some r ->
    forall rw, snd (handle k dom process (x_qw x)) = Some rw -> get_u16 rw 0 = Some (x_id x).
  Proof.
    intros Hok Hp rw. unfold xreq_ok in Hok. destruct L as [Lb Ln].
    destruct (request_direction b32enc b32dec cipher noise_write noise_read cs_encrypt cs_decrypt pub_of Lb Ln _ _ _ _ _ _ _ Hok)
      as (nm & hs & framed & cs' & _ & Hnm & Htrim & Hrd & Hrf & Hrem & Hnr & Hdec).
    unfold ModelExch.responder_handle. rewrite Hrd, Hrf, Hrem, Hnr, Hp.
    destruct (cs_encrypt cs' r) as [enc|]; [|discriminate].
    destruct (add_response_format enc) as [fr|]; [|discriminate].
    cbn [snd]. unfold datagram.
    destruct (wire_message (answer_msg (ok_resp (x_id x) nm) fr)) as [w|e|] eqn:Hw; try discriminate.
    destruct (max_udp_payload <? blen w).
    - destruct (wire_message (answer_msg (ok_resp (x_id x) nm) [])) as [w'|e|] eqn:Hw'; try discriminate.
      intros [= <-].
      pose proof (dns_message_roundtrip _ _ (answer_names_ok (x_id x) nm [] Hnm) Hw') as R.
      apply read_message_id in R. rewrite answer_msg_ok in R. exact R.
    - intros [= <-].
      pose proof (dns_message_roundtrip _ _ (answer_names_ok (x_id x) nm fr Hnm) Hw) as R.
      apply read_message_id in R. rewrite answer_msg_ok in R. exact R.
  Qed.
End ConcurrentLaws.
