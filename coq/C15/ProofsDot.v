(* C15 proofs, part 8: DoT framing round trip over a stream. *)
From CJ Require Import Common.Base Common.BaseProofs C15.Model C15.Proofs C15.ModelDot.
From Coq Require Import Lia ZifyN ZifyNat ZifyBool.
Ltac Zify.zify_post_hook ::= Z.div_mod_to_equations.

Lemma dot_frame_ok p : blen p <= 65535 -> dot_frame p = Some (dot_fr p).
Proof. intros H. unfold dot_frame. destruct (65535 <? blen p) eqn:E; [lia|reflexivity]. Qed.

Lemma dot_frame_rejects p : 65535 < blen p -> dot_frame p = None.
Proof. intros H. unfold dot_frame. destruct (65535 <? blen p) eqn:E; [reflexivity|lia]. Qed.

Lemma dot_send_ok msgs : Forall (fun p => blen p <= 65535) msgs ->
  dot_send msgs = (flat_map dot_fr msgs, false).
Proof.
  induction 1 as [|p r Hp _ IH]; [reflexivity|]. cbn [dot_send flat_map]. rewrite (dot_frame_ok p Hp), IH. reflexivity.
Qed.

Lemma dot_recv_fuel_roundtrip msgs : forall fuel,
  Forall (fun p => blen p <= 65535) msgs ->
  (length (flat_map dot_fr msgs) < fuel)%nat ->
  dot_recv_fuel fuel (flat_map dot_fr msgs) = (msgs, true).
Proof.
  induction msgs as [|p r IH]; intros fuel H Hf.
  - destruct fuel; [cbn in Hf; lia|reflexivity].
  - inversion H as [|? ? Hp Hr]; subst. cbn [flat_map] in *. unfold dot_fr at 1. unfold dot_fr at 1 in Hf. cbn [app] in *. destruct fuel; [lia|].
    cbn [dot_recv_fuel].
    assert (E : 256 * (blen p / 256) + blen p mod 256 = blen p) by lia. rewrite E.
    set (S' := flat_map dot_fr r) in *.
    destruct (blen (p ++ S') <? blen p) eqn:E2; [rewrite blen_app in E2; lia|].
    rewrite take_app_exact, drop_app_exact by reflexivity.
    rewrite IH; [reflexivity|exact Hr|]. cbn [length] in Hf. rewrite app_length in Hf. lia.
Qed.

(* every queue of messages that fit the prefix is read back exactly, and the stream ends cleanly *)
Lemma dot_roundtrip msgs s :
  Forall (fun p => blen p <= 65535) msgs -> dot_send msgs = (s, false) -> dot_recv s = (msgs, true).
Proof.
  intros H Hs. rewrite (dot_send_ok msgs H) in Hs. injection Hs as <-.
  apply dot_recv_fuel_roundtrip; [exact H|lia].
Qed.

(* a stream cut inside a frame never yields a message that was not sent: the complete frames are delivered, then an error *)
Lemma dot_recv_truncated msgs p k :
  Forall (fun q => blen q <= 65535) msgs -> blen p <= 65535 -> (k < 2 + length p)%nat -> (0 < k)%nat ->
  dot_recv (flat_map dot_fr msgs ++ firstn k (dot_fr p)) = (msgs, false).
Proof.
  intros H Hp Hk Hk0. unfold dot_recv.
  set (fr := dot_fr).
  set (tail := firstn k (dot_fr p)).
  assert (G : forall fuel, (length (flat_map fr msgs ++ tail) < fuel)%nat ->
                           dot_recv_fuel fuel (flat_map fr msgs ++ tail) = (msgs, false)).
  { induction msgs as [|q r IH]; intros fuel Hf.
    - cbn [flat_map app] in *. destruct fuel; [lia|]. unfold tail.
      destruct k as [|[|k]]; [lia| |]; unfold dot_fr.
      + reflexivity.
      + cbn [firstn dot_recv_fuel].
        assert (E : 256 * (blen p / 256) + blen p mod 256 = blen p) by lia. rewrite E.
        destruct (blen (firstn k p) <? blen p) eqn:E2; [reflexivity|].
        unfold blen in E2. rewrite firstn_length in E2. cbn [length] in Hk. lia.
    - inversion H as [|? ? Hq Hr]; subst. cbn [flat_map] in *. rewrite <- app_assoc in *. unfold fr at 1. unfold fr at 1 in Hf. unfold dot_fr at 1. unfold dot_fr at 1 in Hf.
      cbn [app] in *. destruct fuel; [lia|]. cbn [dot_recv_fuel].
      assert (E : 256 * (blen q / 256) + blen q mod 256 = blen q) by lia. rewrite E.
      destruct (blen (q ++ flat_map fr r ++ tail) <? blen q) eqn:E2; [rewrite blen_app in E2; lia|].
      rewrite take_app_exact, drop_app_exact by reflexivity.
      rewrite (IH Hr); [reflexivity|]. cbn [length] in Hf. rewrite app_length in Hf. lia. }
  apply G. subst fr tail. lia.
Qed.
