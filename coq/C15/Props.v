(* C15 property theorems: statements + `exact lemma` only. *)
From CJ Require Import Common.Base C15.Model C15.Proofs C15.ModelName C15.ProofsName.

Theorem C15_request_format_roundtrip :
  forall p e, add_request_format p = Some e -> remove_request_format e = Some p.
Proof. exact request_roundtrip. Qed.
Print Assumptions C15_request_format_roundtrip.

Theorem C15_request_format_rejects_long :
  forall p, 255 < blen p -> add_request_format p = None.
Proof. exact request_rejects. Qed.
Print Assumptions C15_request_format_rejects_long.

Theorem C15_request_format_accepts_short :
  forall p, blen p <= 255 -> exists e, add_request_format p = Some e.
Proof. exact request_accepts. Qed.
Print Assumptions C15_request_format_accepts_short.

Theorem C15_response_format_roundtrip :
  forall p e, add_response_format p = Some e -> remove_response_format e = Some p.
Proof. exact response_roundtrip. Qed.
Print Assumptions C15_response_format_roundtrip.

Theorem C15_response_format_rejects_long :
  forall p, 65535 < blen p -> add_response_format p = None.
Proof. exact response_rejects. Qed.
Print Assumptions C15_response_format_rejects_long.

Theorem C15_txt_roundtrip : forall p, dec_txt (enc_txt p) = Some p.
Proof. exact txt_roundtrip. Qed.
Print Assumptions C15_txt_roundtrip.

(* ---- DNS names ---- *)
Theorem C15_new_name_accepts_exactly :
  forall n n', new_name n = Ok n' <-> n' = n /\ Forall (fun l => 1 <= blen l <= 63) n /\ name_wire_len n <= 255.
Proof. exact new_name_ok. Qed.
Print Assumptions C15_new_name_accepts_exactly.

Theorem C15_new_name_rejects :
  forall n, ~ (Forall (fun l => 1 <= blen l <= 63) n /\ name_wire_len n <= 255) -> exists e, new_name n = Err e.
Proof. exact new_name_rejects. Qed.
Print Assumptions C15_new_name_rejects.

Theorem C15_name_roundtrip :
  forall n n', new_name n = Ok n' -> read_name (fst (write_name [] 0 n')) 0 = Ok (n, name_wire_len n).
Proof. exact name_roundtrip. Qed.
Print Assumptions C15_name_roundtrip.

Theorem C15_name_read_in_context :
  forall pre post n, name_ok n = true ->
    read_name (pre ++ name_wire n ++ post) (blen pre) = Ok (n, blen pre + name_wire_len n).
Proof. exact read_name_wire. Qed.
Print Assumptions C15_name_read_in_context.

Theorem C15_chunks_concat : forall n p, 0 < n -> concat (chunks n p) = p.
Proof. exact chunks_concat. Qed.
Print Assumptions C15_chunks_concat.

Theorem C15_labels_ok : forall p, Forall (fun c => 1 <= blen c <= 63) (chunks 63 p).
Proof. exact chunks_labels_ok. Qed.
Print Assumptions C15_labels_ok.

Theorem C15_chunks_greedy : forall n p, 0 < n -> all_but_last_full n (chunks n p).
Proof. exact chunks_greedy. Qed.
Print Assumptions C15_chunks_greedy.

Theorem C15_request_name_roundtrip :
  forall (b32enc : bytes -> bytes) (b32dec : bytes -> option bytes),
    (forall p, wf_bytes p = true -> b32dec (upper (lower (b32enc p))) = Some p) ->
    forall dom p nm, wf_bytes p = true -> request_name (fun q => lower (b32enc q)) dom p = Ok nm -> name_payload b32dec dom nm = Some p.
Proof. exact request_name_roundtrip. Qed.
Print Assumptions C15_request_name_roundtrip.

Theorem C15_request_name_error_iff :
  forall (b32enc : bytes -> bytes) dom p,
    (exists e, request_name (fun q => lower (b32enc q)) dom p = Err e) <->
    ~ (Forall (fun l => 1 <= blen l <= 63) dom /\ name_wire_len (chunks 63 (lower (b32enc p)) ++ dom) <= 255).
Proof. exact request_name_error_iff. Qed.
Print Assumptions C15_request_name_error_iff.
