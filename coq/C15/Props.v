(* C15 property theorems: statements + `exact lemma` only. *)
From CJ Require Import Common.Base C15.Model C15.Proofs.

Theorem C15_request_format_roundtrip :
  forall p e, add_request_format p = Some e -> remove_request_format e = Some p.
Proof. exact request_roundtrip. Qed.
Print Assumptions C15_request_format_roundtrip.

Theorem C15_request_format_rejects_long :
  forall p, 255 < blen p -> add_request_format p = None.
Proof. exact request_rejects. Qed.
Print Assumptions C15_request_format_rejects_long.

Theorem C15_request_format_accepts_short :
  forall p, blen p <= 255 -> exists e, add_request_format p = Some e.
Proof. exact request_accepts. Qed.
Print Assumptions C15_request_format_accepts_short.

Theorem C15_response_format_roundtrip :
  forall p e, add_response_format p = Some e -> remove_response_format e = Some p.
Proof. exact response_roundtrip. Qed.
Print Assumptions C15_response_format_roundtrip.

Theorem C15_response_format_rejects_long :
  forall p, 65535 < blen p -> add_response_format p = None.
Proof. exact response_rejects. Qed.
Print Assumptions C15_response_format_rejects_long.

Theorem C15_txt_roundtrip : forall p, dec_txt (enc_txt p) = Some p.
Proof. exact txt_roundtrip. Qed.
Print Assumptions C15_txt_roundtrip.
