(* C15 property theorems: statements + `exact lemma` only. *)
From CJ Require Import Common.Base C15.Model C15.Proofs C15.ModelName C15.ProofsName C15.ModelObf C15.ProofsObf C15.ModelAny C15.ProofsAny C15.ModelDns C15.ProofsDns C15.ModelExch C15.ProofsExch C15.ModelB32 C15.ProofsB32 C15.ModelPb C15.ProofsPb C15.ModelDot C15.ProofsDot C15.ProofsCount C15.ProofsTxtLen.

Theorem C15_request_format_roundtrip :
  forall p e, add_request_format p = Some e -> remove_request_format e = Some p.
Proof. exact request_roundtrip. Qed.
Print Assumptions C15_request_format_roundtrip.

Theorem C15_request_format_rejects_long :
  forall p, 255 < blen p -> add_request_format p = None.
Proof. exact request_rejects. Qed.
Print Assumptions C15_request_format_rejects_long.

Theorem C15_request_format_accepts_short :
  forall p, blen p <= 255 -> exists e, add_request_format p = Some e.
Proof. exact request_accepts. Qed.
Print Assumptions C15_request_format_accepts_short.

Theorem C15_response_format_roundtrip :
  forall p e, add_response_format p = Some e -> remove_response_format e = Some p.
Proof. exact response_roundtrip. Qed.
Print Assumptions C15_response_format_roundtrip.

Theorem C15_response_format_rejects_long :
  forall p, 65535 < blen p -> add_response_format p = None.
Proof. exact response_rejects. Qed.
Print Assumptions C15_response_format_rejects_long.

Theorem C15_txt_roundtrip : forall p, dec_txt (enc_txt p) = Some p.
Proof. exact txt_roundtrip. Qed.
Print Assumptions C15_txt_roundtrip.

(* ---- DNS names ---- *)
Theorem C15_new_name_accepts_exactly :
  forall n n', new_name n = Ok n' <-> n' = n /\ Forall (fun l => 1 <= blen l <= 63) n /\ name_wire_len n <= 255.
Proof. exact new_name_ok. Qed.
Print Assumptions C15_new_name_accepts_exactly.

Theorem C15_new_name_rejects :
  forall n, ~ (Forall (fun l => 1 <= blen l <= 63) n /\ name_wire_len n <= 255) -> exists e, new_name n = Err e.
Proof. exact new_name_rejects. Qed.
Print Assumptions C15_new_name_rejects.

Theorem C15_name_roundtrip :
  forall n n', new_name n = Ok n' ->
    exists w c, write_name [] 0 n' = Some (w, c) /\ read_name w 0 = Ok (n, name_wire_len n).
Proof. exact name_roundtrip. Qed.
Print Assumptions C15_name_roundtrip.

Theorem C15_name_read_in_context :
  forall pre post n, name_ok n = true ->
    read_name (pre ++ name_wire n ++ post) (blen pre) = Ok (n, blen pre + name_wire_len n).
Proof. exact read_name_wire. Qed.
Print Assumptions C15_name_read_in_context.

Theorem C15_chunks_concat : forall n p, 0 < n -> concat (chunks n p) = p.
Proof. exact chunks_concat. Qed.
Print Assumptions C15_chunks_concat.

Theorem C15_labels_ok : forall p, Forall (fun c => 1 <= blen c <= 63) (chunks 63 p).
Proof. exact chunks_labels_ok. Qed.
Print Assumptions C15_labels_ok.

Theorem C15_chunks_greedy : forall n p, 0 < n -> all_but_last_full n (chunks n p).
Proof. exact chunks_greedy. Qed.
Print Assumptions C15_chunks_greedy.

Theorem C15_request_name_roundtrip :
  forall (b32enc : bytes -> bytes) (b32dec : bytes -> option bytes),
    (forall p, wf_bytes p = true -> b32dec (upper (lower (b32enc p))) = Some p) ->
    forall dom p nm, wf_bytes p = true -> request_name (fun q => lower (b32enc q)) dom p = Ok nm -> name_payload b32dec dom nm = Some p.
Proof. exact request_name_roundtrip. Qed.
Print Assumptions C15_request_name_roundtrip.

Theorem C15_request_name_error_iff :
  forall (b32enc : bytes -> bytes) dom p,
    (exists e, request_name (fun q => lower (b32enc q)) dom p = Err e) <->
    ~ (Forall (fun l => 1 <= blen l <= 63) dom /\ name_wire_len (chunks 63 (lower (b32enc p)) ++ dom) <= 255).
Proof. exact request_name_error_iff. Qed.
Print Assumptions C15_request_name_error_iff.

(* Name.String (the key of the builder's cache in the Go code) is injective on non-empty names, so the
   model's cache, keyed by the label list, makes the same lookups *)
Theorem C15_name_string_injective :
  forall n1 n2, n1 <> [] -> n2 <> [] -> wf_name n1 -> wf_name n2 -> name_string n1 = name_string n2 -> n1 = n2.
Proof. exact name_string_inj. Qed.
Print Assumptions C15_name_string_injective.

Theorem C15_cache_key_equivalence :
  forall c k, k <> [] -> wf_name k -> (forall e, In e c -> ce_key e <> [] /\ wf_name (ce_key e)) ->
    cache_find_str c k = cache_find c k.
Proof. exact cache_find_str_eq. Qed.
Print Assumptions C15_cache_key_equivalence.

(* TrimSuffix folds case with bytes.ToLower (UTF-8 aware beyond ASCII).  For every folding function a name built as
   prefix ++ domain is recognised - the only use on the round-trip paths - so the ASCII model agrees with the real
   function there; and on all-ASCII names they agree whenever the folding is ASCII lower-casing on ASCII strings. *)
Theorem C15_trim_suffix_any_folding : forall lw pre dom, trim_suffix_gen lw (pre ++ dom) dom = Some pre.
Proof. exact trim_suffix_gen_app. Qed.
Print Assumptions C15_trim_suffix_any_folding.

Theorem C15_trim_suffix_model_exact_on_ascii :
  forall lw n s, (forall l, ascii_label l = true -> lw l = lower l) -> ascii_name n = true -> ascii_name s = true ->
    trim_suffix_gen lw n s = trim_suffix n s.
Proof. exact trim_suffix_gen_ascii. Qed.
Print Assumptions C15_trim_suffix_model_exact_on_ascii.

(* ---- tag obfuscators (randomness is an explicit argument) ---- *)
Theorem C15_byte_fact : forall n r, r < 64 -> N.land (N.lor r (N.land 192 n)) 63 = r.
Proof. exact clear_randomize_hi. Qed.
Print Assumptions C15_byte_fact.

Theorem C15_xor_obfuscate_reveal :
  forall r t c, length r = length t -> xor_obfuscate r t = Some c -> xor_reveal c = Some t.
Proof. exact xor_obfuscate_reveal. Qed.
Print Assumptions C15_xor_obfuscate_reveal.

Theorem C15_xor_rejects_empty : forall r, xor_obfuscate r [] = None.
Proof. exact xor_rejects_empty. Qed.
Print Assumptions C15_xor_rejects_empty.

Theorem C15_xor_accepts_nonempty : forall r t, t <> [] -> exists c, xor_obfuscate r t = Some c.
Proof. exact xor_accepts_nonempty. Qed.
Print Assumptions C15_xor_accepts_nonempty.

Theorem C15_xor_fresh :
  forall r1 r2 t c1 c2, length r1 = length t -> length r2 = length t -> r1 <> r2 ->
    xor_obfuscate r1 t = Some c1 -> xor_obfuscate r2 t = Some c2 -> c1 <> c2.
Proof. exact xor_fresh. Qed.
Print Assumptions C15_xor_fresh.

Theorem C15_nil_obfuscate_reveal : forall t c, nil_obfuscate t = Some c -> nil_reveal c = Some t.
Proof. exact nil_obfuscate_reveal. Qed.
Print Assumptions C15_nil_obfuscate_reveal.

Theorem C15_ctr_obfuscate_reveal :
  forall sbm r2p x sha ctr seal open pub_of, crypto_laws sbm r2p x ctr seal open pub_of ->
  forall r k t c, ctr_obfuscate sbm x sha ctr r t (pub_of k) = Some c -> ctr_reveal r2p x sha ctr c k = Some t.
Proof. exact ctr_obfuscate_reveal_b. Qed.
Print Assumptions C15_ctr_obfuscate_reveal.

Theorem C15_gcm_obfuscate_reveal :
  forall sbm r2p x sha ctr seal open pub_of, crypto_laws sbm r2p x ctr seal open pub_of ->
  forall r k t c, gcm_obfuscate sbm x sha seal r t (pub_of k) = Some c -> gcm_reveal r2p x sha open c k = Some t.
Proof. exact gcm_obfuscate_reveal_b. Qed.
Print Assumptions C15_gcm_obfuscate_reveal.

Theorem C15_gcm_encoding_length :
  forall sbm r2p x sha ctr seal open pub_of, crypto_laws sbm r2p x ctr seal open pub_of ->
  forall r spk t c, gcm_obfuscate sbm x sha seal r t spk = Some c -> blen c = 48 + blen t.
Proof. exact gcm_encoding_length_b. Qed.
Print Assumptions C15_gcm_encoding_length.

Theorem C15_ctr_fresh :
  forall sbm r2p x sha ctr seal open pub_of, crypto_laws sbm r2p x ctr seal open pub_of ->
  forall r1 r2 spk t c1 c2,
    ctr_obfuscate sbm x sha ctr r1 t spk = Some c1 -> ctr_obfuscate sbm x sha ctr r2 t spk = Some c2 ->
    obf_header sbm r1 <> obf_header sbm r2 -> c1 <> c2.
Proof. exact ctr_fresh_b. Qed.
Print Assumptions C15_ctr_fresh.

Theorem C15_gcm_fresh :
  forall sbm r2p x sha ctr seal open pub_of, crypto_laws sbm r2p x ctr seal open pub_of ->
  forall r1 r2 spk t c1 c2,
    gcm_obfuscate sbm x sha seal r1 t spk = Some c1 -> gcm_obfuscate sbm x sha seal r2 t spk = Some c2 ->
    obf_header sbm r1 <> obf_header sbm r2 -> c1 <> c2.
Proof. exact gcm_fresh_b. Qed.
Print Assumptions C15_gcm_fresh.

Theorem C15_header_differs :
  forall sbm r2p x ctr seal open pub_of, crypto_laws sbm r2p x ctr seal open pub_of ->
  forall r1 r2 a1 p1 q1 a2 p2 q2,
    first_representable sbm (or_cands r1) = Some (a1, p1, q1) ->
    first_representable sbm (or_cands r2) = Some (a2, p2, q2) ->
    q1 <> q2 \/ N.land 192 (or_byte r1) <> N.land 192 (or_byte r2) ->
    obf_header sbm r1 <> obf_header sbm r2.
Proof. exact header_differs_b. Qed.
Print Assumptions C15_header_differs.

(* ---- URL-less Any (protobuf wire codec abstract: unmarshal inverts marshal) ---- *)
Theorem C15_anypb_nourl_roundtrip :
  forall (mtype msg : Type) (type_of : msg -> mtype) (url_of : mtype -> string)
         (marshal : msg -> bytes) (unmarshal : mtype -> bytes -> option msg),
    (forall m, unmarshal (type_of m) (marshal m) = Some m) ->
    forall m, unmarshal_anypb_to mtype msg url_of unmarshal (Some (pack_nourl msg marshal m)) (type_of m) = Ok (Some m).
Proof. exact anypb_nourl_roundtrip. Qed.
Print Assumptions C15_anypb_nourl_roundtrip.

Theorem C15_anypb_url_roundtrip :
  forall (mtype msg : Type) (type_of : msg -> mtype) (url_of : mtype -> string)
         (marshal : msg -> bytes) (unmarshal : mtype -> bytes -> option msg),
    (forall m, unmarshal (type_of m) (marshal m) = Some m) ->
    forall m u, fix_legacy_url u = url_of (type_of m) ->
      unmarshal_anypb_to mtype msg url_of unmarshal (Some {| any_url := u; any_value := marshal m |}) (type_of m) = Ok (Some m).
Proof. exact anypb_url_roundtrip. Qed.
Print Assumptions C15_anypb_url_roundtrip.

Theorem C15_anypb_wrong_url_rejected :
  forall (mtype msg : Type) (url_of : mtype -> string) (unmarshal : mtype -> bytes -> option msg) a dst,
    fix_legacy_url (any_url a) <> EmptyString -> fix_legacy_url (any_url a) <> url_of dst ->
    unmarshal_anypb_to mtype msg url_of unmarshal (Some a) dst = Err EWrongType.
Proof. exact anypb_wrong_url_rejected. Qed.
Print Assumptions C15_anypb_wrong_url_rejected.


(* the chunking loop of requester.send cuts a payload of length L into exactly ceil(L/n) labels (n = 63 on the wire):
   with C15_chunks_concat / C15_labels_ok / C15_chunks_greedy this fixes the label sequence completely *)
Theorem C15_chunks_count : forall n p, 0 < n -> N.of_nat (length (chunks n p)) = (blen p + n - 1) / n.
Proof. exact chunks_count. Qed.
Print Assumptions C15_chunks_count.

Theorem C15_chunks63_count : forall p, N.of_nat (length (chunks 63 p)) = (blen p + 62) / 63.
Proof. exact chunks63_count. Qed.
Print Assumptions C15_chunks63_count.

Theorem C15_chunks_nil_iff : forall n p, 0 < n -> (chunks n p = [] <-> p = []).
Proof. exact chunks_nil_iff. Qed.
Print Assumptions C15_chunks_nil_iff.

(* dns.EncodeRDataTXT: k octets of text become exactly k + max(1, ceil(k/255)) octets of RDATA (one length octet per
   character-string; the empty text is the single empty character-string), and the RDATA is never empty *)
Theorem C15_txt_length : forall p, blen (enc_txt p) = blen p + N.max 1 ((blen p + 254) / 255).
Proof. exact enc_txt_len. Qed.
Print Assumptions C15_txt_length.

Theorem C15_txt_nonempty : forall p, enc_txt p <> [].
Proof. exact enc_txt_nonempty. Qed.
Print Assumptions C15_txt_nonempty.
