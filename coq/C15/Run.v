(* C15: evaluation of the model on recorded cases (correspondence check). *)
From CJ Require Import Common.Base C15.Model C15.ModelName C15.ModelObf C15.ModelAny C15.ModelDns C15.ModelB32 C15.ModelExch C15.ModelPb C15.ModelDot C15.ModelSeq C15.ModelStream.

Definition obs := (bool * bytes * bool * bytes)%type.

Definition of_opt (o : option bytes) : bool * bytes :=
  match o with Some b => (true, b) | None => (false, []) end.

Definition rt (enc : bytes -> option bytes) (dec : bytes -> option bytes) (d : bytes) : obs :=
  match enc d with
  | None => (false, [], false, [])
  | Some e => let '(ok2, o2) := of_opt (dec e) in (true, e, ok2, o2)
  end.

Definition single (dec : bytes -> option bytes) (d : bytes) : obs :=
  let '(ok, o) := of_opt (dec d) in (ok, o, false, []).

(* op codes: 0 rt_req, 1 rt_resp, 2 rem_req, 3 rem_resp, 4 rt_txt, 5 dec_txt *)
Definition model (op : N) (d : bytes) : obs :=
  match op with
  | 0 => rt add_request_format remove_request_format d
  | 1 => rt add_response_format remove_response_format d
  | 2 => single remove_request_format d
  | 3 => single remove_response_format d
  | 4 => rt (fun p => Some (enc_txt p)) dec_txt d
  | _ => single dec_txt d
  end.

Definition obs_spec := (bool * bspec * bool * bspec)%type.
Definition obs_matches (a : obs) (b : obs_spec) : bool :=
  let '(a1, a2, a3, a4) := a in let '(b1, b2, b3, b4) := b in
  Bool.eqb a1 b1 && bspec_matches b2 a2 && Bool.eqb a3 b3 && bspec_matches b4 a4.

Definition chk_fmt (c : N * bspec * obs_spec) : bool :=
  let '(op, d, o) := c in obs_matches (model op (bspec_val d)) o.

(* ---- names ---- *)
(* error classes as numbers: 0 = no error *)
Definition name_err_code (e : name_err) : N :=
  match e with EZeroLabel => 1 | ELabelTooLong => 2 | ENameTooLong => 3 end.
Definition rd_err_code (e : rd_err) : N :=
  match e with EEof => 1 | EReserved => 2 | ETooManyPtr => 3 | ERdNameTooLong => 4 | ETrailing => 5 end.
Definition panic_code : N := 99.

(* observed: (error class of NewName, bytes written, error class of readName, labels read, reader position) *)
Definition name_rt_obs := (N * bytes * N * name * N)%type.
Definition model_name_rt (n : name) : name_rt_obs :=
  match new_name n with
  | Err e => (name_err_code e, [], 0, [], 0)
  | Panic => (panic_code, [], 0, [], 0)
  | Ok n' =>
    match write_name [] 0 n' with
    | None => (0, [], panic_code, [], 0)
    | Some (w, _) =>
      match read_name w 0 with
      | Ok (n2, p) => (0, w, 0, n2, p)
      | Err e => (0, w, rd_err_code e, [], 0)
      | Panic => (0, w, panic_code, [], 0)
      end
    end
  end.
Definition name_rt_eqb (a b : name_rt_obs) : bool :=
  let '(a1, a2, a3, a4, a5) := a in let '(b1, b2, b3, b4, b5) := b in
  (a1 =? b1) && bytes_eqb a2 b2 && (a3 =? b3) && name_eqb a4 b4 && (a5 =? b5).

(* observed: (error class, labels, position) *)
Definition read_name_obs := (N * name * N)%type.
Definition model_read_name (d : bytes) (pos : N) : read_name_obs :=
  match read_name d pos with
  | Ok (n, p) => (0, n, p)
  | Err e => (rd_err_code e, [], 0)
  | Panic => (panic_code, [], 0)
  end.
Definition read_name_eqb (a b : read_name_obs) : bool :=
  let '(a1, a2, a3) := a in let '(b1, b2, b3) := b in
  (a1 =? b1) && name_eqb a2 b2 && (a3 =? b3).

Definition model_trim (n s : name) : bool * name :=
  match trim_suffix n s with Some p => (true, p) | None => (false, []) end.

(* send: e = the observed coding of the payload (lower-case base32, abstract in the
   model); the observable is whether the requester could build the query name and
   which one it built *)
Definition model_send_name (e : bytes) (dom : name) : N * name :=
  match new_name (chunks 63 e ++ dom) with
  | Ok n => (0, n)
  | Err er => (name_err_code er, [])
  | Panic => (panic_code, [])
  end.

(* ---- obfuscators ----
   XOR and Nil are compared exactly (the random bytes are read off the observed
   encoding: "the observed outcome is one the model allows").  For CTR and GCM
   the primitives are abstract; the model is instantiated with stand-ins that
   have the right lengths, and only what does not depend on the primitives is
   compared: which inputs are accepted, and the length of the result. *)
Definition zeros (n : N) : bytes := repeat 0 (N.to_nat n).
Definition st_sbm (a : bytes) : option (bytes * bytes) := Some (zeros 32, zeros 32).
Definition st_r2p (r : bytes) : bytes := zeros 32.
Definition st_x25519 (a p : bytes) : option bytes := Some (zeros 32).
Definition st_sha (b : bytes) : bytes := zeros 32.
Definition st_ctr (k iv m : bytes) : bytes := m.
Definition st_seal (k n m : bytes) : bytes := m ++ zeros 16.
Definition st_open (k n c : bytes) : option bytes := if blen c <? 16 then None else Some (take (blen c - 16) c).
Definition st_rand : obf_rand := {| or_cands := [zeros 32]; or_byte := 0 |}.

Definition opt_len (o : option bytes) : bool * N := match o with Some b => (true, blen b) | None => (false, 0) end.
Definition opt_eqb (o : option bytes) (ok : bool) (b : bytes) : bool :=
  match o with Some x => ok && bytes_eqb x b | None => negb ok end.

(* variants: 0 xor, 1 nil, 2 ctr, 3 gcm *)
Definition chk_obf (v : N) (t : bytes) (publen : N) (ok : bool) (c1 : bytes) (ok2 : bool) (rev : bytes) : bool :=
  match v with
  | 0 => opt_eqb (xor_obfuscate (take (blen t) c1) t) ok c1 && opt_eqb (xor_reveal c1) ok2 rev
  | 1 => opt_eqb (nil_obfuscate t) ok c1 && opt_eqb (nil_reveal c1) ok2 rev
  | 2 => let '(mok, mlen) := opt_len (ctr_obfuscate st_sbm st_x25519 st_sha st_ctr st_rand t (zeros publen)) in
         Bool.eqb ok mok && (negb ok || ((blen c1 =? mlen) && ok2))
  | _ => let '(mok, mlen) := opt_len (gcm_obfuscate st_sbm st_x25519 st_sha st_seal st_rand t (zeros publen)) in
         Bool.eqb ok mok && (negb ok || ((blen c1 =? mlen) && ok2))
  end.

Definition chk_reveal (v : N) (c : bytes) (ok : bool) (out : bytes) : bool :=
  match v with
  | 0 => opt_eqb (xor_reveal c) ok out
  | 1 => opt_eqb (nil_reveal c) ok out
  | 2 => let '(mok, mlen) := opt_len (ctr_reveal st_r2p st_x25519 st_sha st_ctr c (zeros 32)) in
         Bool.eqb ok mok && (negb ok || (blen out =? mlen))
  | _ => let '(mok, _) := opt_len (gcm_reveal st_r2p st_x25519 st_sha st_open c (zeros 32)) in
         mok || negb ok       (* the model rejects (too short) -> the code rejects; authentication failures are the primitive's *)
  end.

(* ---- URL-less Any ----
   message types: 0 GenericTransportParams, 1 PrefixTransportParams, 2 DTLSTransportParams, 3 ClientToStation.
   The wire codec is abstract in the model; here it is a stand-in that keeps the type with the fields, so a
   value of one type never decodes as another (what protobuf does with such bytes is outside the model and
   those cases are left unconstrained). *)
Definition any_url_of (t : N) : string :=
  match t with
  | 0 => "type.googleapis.com/proto.GenericTransportParams"
  | 1 => "type.googleapis.com/proto.PrefixTransportParams"
  | 2 => "type.googleapis.com/proto.DTLSTransportParams"
  | _ => "type.googleapis.com/proto.ClientToStation"
  end%string.
Definition st_msg := (N * list N)%type.
Definition st_marshal (m : st_msg) : bytes := fst m :: snd m.
Definition st_unmarshal (t : N) (b : bytes) : option st_msg :=
  match b with k :: f => if k =? t then Some (k, f) else None | [] => None end.

Definition chk_any (nilsrc : bool) (kind dst : N) (url : string) (fields : list N) (ok2 : bool) (fout : list N) (url_after : string) : bool :=
  let src := if nilsrc then None else Some {| any_url := url; any_value := st_marshal (kind, fields) |} in
  match unmarshal_anypb_to N st_msg any_url_of st_unmarshal src dst with
  | Ok None => ok2 && forallb (N.eqb 0) fout
  | Ok (Some (_, f)) => ok2 && list_eqb N.eqb f fout && String.eqb url_after (any_url_of dst)
  | Err EWrongType => negb ok2
  | Err EUnmarshal => true
  | Panic => false
  end.

(* ---- DNS messages ---- *)
Definition cq := (name * N * N)%type.
Definition crr := (name * N * N * N * bspec)%type.
Definition cmsg := (N * N * list cq * list crr * list crr * list crr)%type.
Definition to_q (q : cq) : question := let '(n, t, c) := q in {| q_name := n; q_type := t; q_class := c |}.
Definition to_rr (r : crr) : rr := let '(n, t, c, ttl, d) := r in {| rr_name := n; rr_type := t; rr_class := c; rr_ttl := ttl; rr_data := bspec_val d |}.
Definition to_msg (m : cmsg) : message :=
  let '(id, fl, q, an, ns, ar) := m in
  {| m_id := id; m_flags := fl; m_q := map to_q q; m_an := map to_rr an; m_ns := map to_rr ns; m_ar := map to_rr ar |}.
Definition q_matches (a : question) (b : cq) : bool :=
  let '(n, t, c) := b in name_eqb (q_name a) n && (q_type a =? t) && (q_class a =? c).
Definition rr_matches (a : rr) (b : crr) : bool :=
  let '(n, t, c, ttl, d) := b in
  name_eqb (rr_name a) n && (rr_type a =? t) && (rr_class a =? c) && (rr_ttl a =? ttl) && bspec_matches d (rr_data a).
Fixpoint all2 {A B} (f : A -> B -> bool) (a : list A) (b : list B) : bool :=
  match a, b with
  | [], [] => true
  | x :: a', y :: b' => f x y && all2 f a' b'
  | _, _ => false
  end.
Definition msg_matches (a : message) (b : cmsg) : bool :=
  let '(id, fl, q, an, ns, ar) := b in
  (m_id a =? id) && (m_flags a =? fl) && all2 q_matches (m_q a) q && all2 rr_matches (m_an a) an
  && all2 rr_matches (m_ns a) ns && all2 rr_matches (m_ar a) ar.
Definition empty_cmsg : cmsg := (0, 0, [], [], [], []).

(* code1: 0 ok, 1 overflow, 99 panic; code2: reader error class *)
Definition chk_msg_rt (m : cmsg) (code1 : N) (out : bspec) (code2 : N) (back : cmsg) : bool :=
  match wire_message (to_msg m) with
  | Panic => code1 =? panic_code
  | Err EOverflow => code1 =? 1
  | Ok w =>
    (code1 =? 0) && bspec_matches out w &&
    match read_message w with
    | Ok m2 => (code2 =? 0) && msg_matches m2 back
    | Err e => code2 =? rd_err_code e
    | Panic => false
    end
  end.

Definition chk_msg_dec (d : bytes) (code : N) (back : cmsg) : bool :=
  match read_message d with
  | Ok m2 => (code =? 0) && msg_matches m2 back
  | Err e => code =? rd_err_code e
  | Panic => false
  end.

(* ---- the exchange ----
   base32 is instantiated with the concrete coding of ModelB32.  The Noise layer is random: its
   messages are read off the observed datagrams and only their lengths are compared
   (handshake message = 48 + payload, reply = 16 + answer octets). *)
Definition b32l (p : bytes) : bytes := lower (b32_encode p).

(* responder.responseFor on a parsed query: (has response, flags, has payload, payload) *)
Definition chk_query (m : cmsg) (dom : name) (hasresp : bool) (flags : N) (haspay : bool) (payload : bytes) : bool :=
  match response_for b32_decode (to_msg m) dom with
  | None => negb hasresp
  | Some (resp, None) => hasresp && (flags =? m_flags resp) && negb haspay
  | Some (resp, Some p) => hasresp && (flags =? m_flags resp) && haspay && bytes_eqb p payload
  end.

Definition res_bytes_eqb (r : result wr_err bytes) (b : bytes) : bool :=
  match r with Ok w => bytes_eqb w b | _ => false end.

(* one exchange over loopback: qw / rw = the datagrams seen on the requester's socket,
   plen / rlen = lengths of the request payload and of the callback's answer,
   fallback = the requester reported a decryption failure (oversized answer replaced by an empty body) *)
Definition chk_exch (dom : name) (plen : N) (qw : bytes) (rlen : N) (rw : bytes) (fallback : bool) : bool :=
  match read_message qw with
  | Ok q =>
    match m_q q with
    | [qu] =>
      let nm := q_name qu in
      let id := m_id q in
      match name_payload b32_decode dom nm with
      | Some framed =>
        (blen framed =? plen + 49) &&
        match remove_request_format framed with
        | Some hs => (blen hs =? plen + 48) && option_eqb bytes_eqb (add_request_format hs) (Some framed)
        | None => false
        end &&
        match request_name b32l dom framed with Ok nm' => name_eqb nm nm' | _ => false end &&
        res_bytes_eqb (wire_message (query_msg id nm)) qw &&
        match read_message rw with
        | Ok a =>
          match response_payload a dom with
          | Some body =>
            (if fallback then blen body =? 0
             else match remove_response_format body with Some enc => (blen enc =? rlen + 16) && (blen body =? rlen + 18) | None => false end) &&
            res_bytes_eqb (wire_message (answer_msg (ok_resp id nm) body)) rw &&
            (blen rw <=? max_udp_payload)
          | None => false
          end
        | _ => false
        end
      | None => false
      end
    | _ => false
    end
  | _ => false
  end.

(* ---- protobuf codec ----
   typed observation of a message: per kind the optional fields; unknown fields are observed as raw bytes
   (Go keeps their original encoding) and compared after decoding them with the raw layer *)
Definition wval_eqb (a b : wval) : bool :=
  match a, b with
  | WVarint x, WVarint y => x =? y
  | WFixed64 x, WFixed64 y | WBytes x, WBytes y | WFixed32 x, WFixed32 y => bytes_eqb x y
  | _, _ => false
  end.
Definition field_eqb (a b : field) : bool := (fst a =? fst b) && wval_eqb (snd a) (snd b).
Definition unk_matches (model : list field) (raw : bytes) : bool :=
  match dec_fields raw with Ok fs => list_eqb field_eqb model fs | _ => false end.
Definition unk_of_raw (raw : bytes) : list field := match dec_fields raw with Ok fs => fs | _ => [] end.
Definition ob_eqb (a b : option bool) : bool := option_eqb Bool.eqb a b.
Definition oz_eqb (a b : option Z) : bool := option_eqb Z.eqb a b.
Definition on_eqb (a b : option N) : bool := option_eqb N.eqb a b.
Definition oby_eqb (a b : option bytes) : bool := option_eqb bytes_eqb a b.

Definition caddr := (option bytes * option N * bytes)%type.      (* ip, port, raw unknown *)
Definition addr_matches (a : addr_pb) (o : caddr) : bool :=
  let '(ip, port, unk) := o in oby_eqb (a_ip a) ip && on_eqb (a_port a) port && unk_matches (a_unk a) unk.
Definition oaddr_matches (a : option addr_pb) (o : option caddr) : bool :=
  match a, o with Some x, Some y => addr_matches x y | None, None => true | _, _ => false end.
Definition to_addr (o : caddr) : addr_pb := let '(ip, port, unk) := o in {| a_ip := ip; a_port := port; a_unk := unk_of_raw unk |}.

Inductive pbval :=
| PGeneric (rand : option bool) (unk : bytes)
| PPrefix (id : option Z) (prefix : option bytes) (flush : option Z) (rand : option bool) (unk : bytes)
| PDtls (src4 src6 : option caddr) (rand unordered : option bool) (unk : bytes)
| PAny (url value unk : bytes)
| PNone.

(* the model's verdict on unmarshalling d as the kind of the observation o (ok = Go returned no error) *)
Definition res_matches {A} (r : result pb_err A) (ok : bool) (f : A -> bool) : bool :=
  match r with
  | Ok m => ok && f m
  | Err PbErr => negb ok
  | Err PbUnsupported => true          (* groups, non-ASCII type URLs: outside the model *)
  | Panic => false
  end.
Definition chk_pb_dec (kind : N) (d : bytes) (ok : bool) (o : pbval) : bool :=
  match kind with
  | 0 => res_matches (unmarshal_generic d) ok (fun m => match o with PGeneric r u => ob_eqb (g_rand m) r && unk_matches (g_unk m) u | _ => false end)
  | 1 => res_matches (unmarshal_prefix d) ok (fun m => match o with
           | PPrefix i p f r u => oz_eqb (p_id m) i && oby_eqb (p_prefix m) p && oz_eqb (p_flush m) f && ob_eqb (p_rand m) r && unk_matches (p_unk m) u
           | _ => false end)
  | 2 => res_matches (unmarshal_dtls d) ok (fun m => match o with
           | PDtls a4 a6 r un u => oaddr_matches (d_src4 m) a4 && oaddr_matches (d_src6 m) a6 && ob_eqb (d_rand m) r && ob_eqb (d_unordered m) un && unk_matches (d_unk m) u
           | _ => false end)
  | _ => res_matches (unmarshal_any d) ok (fun m => match o with
           | PAny url v u => bytes_eqb (y_url m) url && bytes_eqb (y_value m) v && unk_matches (y_unk m) u
           | _ => false end)
  end.

(* proto.Marshal of the message described by v produced `out` *)
Definition chk_pb_enc (v : pbval) (out : bytes) : bool :=
  match v with
  | PGeneric r u => bytes_eqb (marshal_generic {| g_rand := r; g_unk := unk_of_raw u |}) out
  | PPrefix i p f r u => bytes_eqb (marshal_prefix {| p_id := i; p_prefix := p; p_flush := f; p_rand := r; p_unk := unk_of_raw u |}) out
  | PDtls a4 a6 r un u => bytes_eqb (marshal_dtls {| d_src4 := option_map to_addr a4; d_src6 := option_map to_addr a6; d_rand := r; d_unordered := un; d_unk := unk_of_raw u |}) out
  | PAny url v u => bytes_eqb (marshal_any {| y_url := url; y_value := v; y_unk := unk_of_raw u |}) out
  | PNone => false
  end.

(* the station's path: Any bytes -> proto.Unmarshal -> UnmarshalAnypbTo(dst): URL check, then the value's bytes as dst.
   url_of = the expected type URL of dst, as in chk_any *)
Definition chk_anypb_bytes (dst : N) (d : bytes) (ok1 ok2 : bool) (o : pbval) : bool :=
  match unmarshal_any d with
  | Ok a =>
    ok1 &&
    let u := fix_legacy_url (string_of_list_ascii (map ascii_of_N (y_url a))) in
    if negb (String.eqb u EmptyString) && negb (String.eqb u (any_url_of dst)) then negb ok2
    else chk_pb_dec dst (y_value a) ok2 o
  | Err PbErr => negb ok1
  | Err PbUnsupported => true
  | Panic => false
  end.

(* ---- DoT framing ---- *)
Definition chk_dot_rt (msgs : list bspec) (stream : bspec) (panicked : bool) (got : list bspec) (clean : bool) : bool :=
  let '(s, pn) := dot_send (map bspec_val msgs) in
  Bool.eqb pn panicked && bspec_matches stream s &&
  let '(ms, ok) := dot_recv s in all2 (fun m sp => bspec_matches sp m) ms got && Bool.eqb ok clean.
Definition chk_dot_recv (s : bytes) (got : list bytes) (clean : bool) : bool :=
  let '(ms, ok) := dot_recv s in list_eqb bytes_eqb ms got && Bool.eqb ok clean.

Inductive vcase :=
| CFmt (op : N) (d : bspec) (o : obs_spec)
| CNameRt (n : name) (o : name_rt_obs)
| CReadName (d : bytes) (pos : N) (o : read_name_obs)
| CTrim (n s : name) (ok : bool) (pre : name)
| CChunks (d : bspec) (n : N) (out : list bytes)
| CSendName (e : bytes) (dom : name) (code : N) (qname : name)
| CObf (v : N) (t : bytes) (publen : N) (ok : bool) (c1 : bytes) (ok2 : bool) (rev : bytes)
| CReveal (v : N) (c : bytes) (ok : bool) (out : bytes)
| CAny (nilsrc : bool) (kind dst : N) (url : string) (fields : list N) (ok2 : bool) (fout : list N) (url_after : string)
| CMsgRt (m : cmsg) (code1 : N) (out : bspec) (code2 : N) (back : cmsg)
| CMsgDec (d : bytes) (code : N) (back : cmsg)
| CQuery (m : cmsg) (dom : name) (hasresp : bool) (flags : N) (haspay : bool) (payload : bytes)
| CExch (dom : name) (plen : N) (qw : bytes) (rlen : N) (rw : bytes) (fallback : bool)
| CNameStr (n : name) (s : bytes)
| CPbDec (kind : N) (d : bytes) (ok : bool) (o : pbval)
| CPbEnc (v : pbval) (out : bytes)
| CAnyBytes (dst : N) (d : bytes) (ok1 ok2 : bool) (o : pbval)
| CDotRt (msgs : list bspec) (stream : bspec) (panicked : bool) (got : list bspec) (clean : bool)
| CDotRecv (s : bytes) (got : list bytes) (clean : bool)
| CTrimNA (n s : name) (ok : bool) (pre : name)
(* a batch: k calls of one encoder in a row (or from two concurrent callers) whose results the caller all keeps, then k
   calls of the decoder; each item is the single case of that encoder built from what the caller HOLDS when the last
   call has returned.  The model's encoders and decoders are pure functions of (input, randomness), so the model's
   batch result is the list of its single results (ModelSeq.enc_each / dec_each, the C15_seq theorems): the batch
   agrees with the model iff every held item does. *)
| CBatch (items : list vcase)
(* the same batch evaluated through the sequence functions the C15_seq theorems are about (ModelSeq.enc_each_d /
   dec_each_d / enc_each / dec_each): codec e on the inputs xs, compared position by position with what the caller
   holds after the last encoder call and with what the decoder calls returned; XOR with the pads read off the encodings *)
| CSeqD (e : N) (xs : list bspec) (os : list obs_spec)
| CSeqXor (ts : list bytes) (os : list obs)
(* the AES helpers of obfuscate.go have the stream-cipher shape of ModelStream: ks / gks = what they made of as many
   zero octets (the keystream; for GCM followed by an authenticator), out / gout = what they made of m *)
| CStream (m ks out gks gout : bytes).

(* codecs: 0 request framing, 1 response framing, 4 TXT, 11 the Nil obfuscator *)
Definition seq_codec (e : N) : (bytes -> option bytes) * (bytes -> option bytes) :=
  match e with
  | 0 => (add_request_format, remove_request_format)
  | 1 => (add_response_format, remove_response_format)
  | 4 => (fun p => Some (enc_txt p), dec_txt)
  | 11 => (nil_obfuscate, nil_reveal)
  | _ => (fun _ => None, fun _ => None)
  end.
Definition held_matches (c d : option bytes) (o : obs_spec) : bool :=
  let '(ok, o1, ok2, o2) := o in
  match c with
  | None => negb ok
  | Some c' => ok && bspec_matches o1 c' &&
               match d with Some d' => ok2 && bspec_matches o2 d' | None => negb ok2 end
  end.
Fixpoint all3 {A B C} (f : A -> B -> C -> bool) (a : list A) (b : list B) (c : list C) : bool :=
  match a, b, c with
  | [], [], [] => true
  | x :: a', y :: b', z :: c' => f x y z && all3 f a' b' c'
  | _, _, _ => false
  end.
Definition chk_seq_d (e : N) (xs : list bspec) (os : list obs_spec) : bool :=
  let '(f, g) := seq_codec e in
  let cs := enc_each_d f (map bspec_val xs) in
  all3 held_matches cs (dec_each_d g cs) os.
Definition lit_obs (o : obs) : obs_spec := let '(a, b, c, d) := o in (a, Lit b, c, Lit d).
Definition chk_seq_xor (ts : list bytes) (os : list obs) : bool :=
  let pads := map (fun to => take (blen (fst to)) (snd (fst (fst (snd to))))) (combine ts os) in
  let xs := map (fun t => ([], t)) ts in
  let cs := enc_each xor_enc pads xs in
  (length ts =? length os)%nat && all3 held_matches cs (dec_each xor_dec (map fst xs) cs) (map lit_obs os).

Definition nth_stream (ks : bytes) (i : nat) : byte := nth i ks 0.
Definition chk_stream (m ks out gks gout : bytes) : bool :=
  (blen ks =? blen m) && bytes_eqb (ctr_of (fun _ _ => nth_stream ks) [] [] m) out &&
  (blen gks =? blen m + 16) && (blen gout =? blen m + 16) &&
  bytes_eqb (take (blen m) (seal_of (fun _ _ => nth_stream gks) (fun _ _ _ => []) [] [] m)) (take (blen m) gout).

Definition chk1 (c : vcase) : bool :=
  match c with
  | CFmt op d o => chk_fmt (op, d, o)
  | CNameRt n o => name_rt_eqb (model_name_rt n) o
  | CReadName d pos o => read_name_eqb (model_read_name d pos) o
  | CTrim n s ok pre => let '(ok', pre') := model_trim n s in Bool.eqb ok ok' && name_eqb pre pre'
  | CChunks d n out => name_eqb (chunks n (bspec_val d)) out
  | CSendName e dom code qn => let '(c', n') := model_send_name e dom in (code =? c') && name_eqb qn n'
  | CObf v t pl ok c1 ok2 rev => chk_obf v t pl ok c1 ok2 rev
  | CReveal v c ok out => chk_reveal v c ok out
  | CAny nl k d u f ok2 fo ua => chk_any nl k d u f ok2 fo ua
  | CMsgRt m c1 o c2 b => chk_msg_rt m c1 o c2 b
  | CMsgDec d c b => chk_msg_dec d c b
  | CQuery m d hr fl hp p => chk_query m d hr fl hp p
  | CExch d pl qw rl rw fb => chk_exch d pl qw rl rw fb
  | CNameStr n s => bytes_eqb (name_string n) s
  | CPbDec k d ok o => chk_pb_dec k d ok o
  | CPbEnc v out => chk_pb_enc v out
  | CAnyBytes dst d ok1 ok2 o => chk_anypb_bytes dst d ok1 ok2 o
  | CDotRt ms st pn got cl => chk_dot_rt ms st pn got cl
  | CDotRecv s got cl => chk_dot_recv s got cl
  (* labels with non-ASCII bytes: bytes.ToLower is UTF-8 aware there; if the ASCII model matches, Go matches with the
     same prefix; if it does not, Go may still match (e.g. two invalid bytes both become U+FFFD): unconstrained *)
  | CTrimNA n s ok pre => match trim_suffix n s with Some p => ok && name_eqb pre p | None => true end
  | CBatch _ => false      (* batches do not nest *)
  | CSeqD e xs os => chk_seq_d e xs os
  | CSeqXor ts os => chk_seq_xor ts os
  | CStream m ks out gks gout => chk_stream m ks out gks gout
  end.

Definition chk (c : vcase) : bool :=
  match c with
  | CBatch items => forallb chk1 items
  | _ => chk1 c
  end.
