(* C15: evaluation of the model on recorded cases (correspondence check). *)
From CJ Require Import Common.Base C15.Model.

Definition obs := (bool * bytes * bool * bytes)%type.

Definition of_opt (o : option bytes) : bool * bytes :=
  match o with Some b => (true, b) | None => (false, []) end.

Definition rt (enc : bytes -> option bytes) (dec : bytes -> option bytes) (d : bytes) : obs :=
  match enc d with
  | None => (false, [], false, [])
  | Some e => let '(ok2, o2) := of_opt (dec e) in (true, e, ok2, o2)
  end.

Definition single (dec : bytes -> option bytes) (d : bytes) : obs :=
  let '(ok, o) := of_opt (dec d) in (ok, o, false, []).

(* op codes: 0 rt_req, 1 rt_resp, 2 rem_req, 3 rem_resp, 4 rt_txt, 5 dec_txt *)
Definition model (op : N) (d : bytes) : obs :=
  match op with
  | 0 => rt add_request_format remove_request_format d
  | 1 => rt add_response_format remove_response_format d
  | 2 => single remove_request_format d
  | 3 => single remove_response_format d
  | 4 => rt (fun p => Some (enc_txt p)) dec_txt d
  | _ => single dec_txt d
  end.

Definition obs_spec := (bool * bspec * bool * bspec)%type.
Definition obs_matches (a : obs) (b : obs_spec) : bool :=
  let '(a1, a2, a3, a4) := a in let '(b1, b2, b3, b4) := b in
  Bool.eqb a1 b1 && bspec_matches b2 a2 && Bool.eqb a3 b3 && bspec_matches b4 a4.

Definition chk (c : N * bspec * obs_spec) : bool :=
  let '(op, d, o) := c in obs_matches (model op (bspec_val d)) o.
