(* C15 proofs, part 4: URL-less Any round trip. *)
From CJ Require Import Common.Base C15.ModelAny.
Local Open Scope string_scope.

Section AnypbLaws.
  Variable mtype : Type.
  Variable msg : Type.
  Variable type_of : msg -> mtype.
  Variable url_of : mtype -> string.
  Variable marshal : msg -> bytes.
  Variable unmarshal : mtype -> bytes -> option msg.
  Hypothesis unmarshal_marshal : forall m, unmarshal (type_of m) (marshal m) = Some m.

  Notation unmarshal_anypb_to := (unmarshal_anypb_to mtype msg url_of unmarshal).

  (* the URL-less packing is inverted exactly *)
  Lemma anypb_nourl_roundtrip m :
    unmarshal_anypb_to (Some (pack_nourl msg marshal m)) (type_of m) = Ok (Some m).
  Proof.
    unfold ModelAny.unmarshal_anypb_to, pack_nourl. cbn. rewrite unmarshal_marshal. reflexivity.
  Qed.

  (* with the URL kept (any URL that the legacy rewrite maps to the expected one, in particular the
     expected one itself when it does not mention "tapdance.") *)
  Lemma anypb_url_roundtrip m u :
    fix_legacy_url u = url_of (type_of m) ->
    unmarshal_anypb_to (Some {| any_url := u; any_value := marshal m |}) (type_of m) = Ok (Some m).
  Proof.
    intros H. unfold ModelAny.unmarshal_anypb_to. cbn [any_url any_value]. rewrite H, String.eqb_refl, andb_false_r.
    rewrite unmarshal_marshal. reflexivity.
  Qed.

  (* a non-empty URL of another type is rejected, never decoded as the wrong type *)
  Lemma anypb_wrong_url_rejected a dst :
    fix_legacy_url (any_url a) <> "" -> fix_legacy_url (any_url a) <> url_of dst ->
    unmarshal_anypb_to (Some a) dst = Err EWrongType.
  Proof.
    intros H1 H2. unfold ModelAny.unmarshal_anypb_to.
    apply String.eqb_neq in H1, H2. rewrite H1, H2. reflexivity.
  Qed.

  Lemma anypb_nil_src dst : unmarshal_anypb_to None dst = Ok None.
  Proof. reflexivity. Qed.
End AnypbLaws.

(* the legacy rewrite on the two URL shapes in use *)
Example legacy_rewrites :
  fix_legacy_url "type.googleapis.com/tapdance.GenericTransportParams" = "type.googleapis.com/proto.GenericTransportParams"
  /\ fix_legacy_url "type.googleapis.com/proto.GenericTransportParams" = "type.googleapis.com/proto.GenericTransportParams"
  /\ fix_legacy_url "" = "".
Proof. split; [vm_compute; reflexivity|]. split; vm_compute; reflexivity. Qed.
