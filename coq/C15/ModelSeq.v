(* C15 model, part 10: SEQUENCES of encoder calls whose results are all kept by the caller.

   Every encoder of the property is, in the model, a pure function of (the randomness its call draws, its input);
   every decoder a pure function of (what the decoding side holds - a private key, or nothing -, the encoding).
   A batch of k calls is therefore the position-wise lifting below: call i draws r_i and is given x_i, the caller
   keeps the whole list of results, and only afterwards is every kept result decoded.  Nothing a later call does
   can reach an earlier result - that is exactly what an implementation that hands out recycled storage breaks,
   and what the batch lanes of the tie compare with the code.  Definitions only. *)
From CJ Require Export Common.Base.
From CJ Require Import C15.Model C15.ModelName C15.ModelObf C15.ModelDns C15.ModelPb C15.ModelB32.

Section Seq.
  Variables R A K B C : Type.
  Variable enc : R -> A -> option C.     (* one encoder call: its random draw, its input; None = rejected with an error *)
  Variable dec : K -> C -> option B.     (* one decoder call *)
  Variable key : A -> K.                 (* what the decoding side is given for this item *)
  Variable val : A -> B.                 (* the value the round trip must give back *)

  (* k calls in a row; the caller keeps every result *)
  Fixpoint enc_each (rs : list R) (xs : list A) : list (option C) :=
    match rs, xs with
    | r :: rs', x :: xs' => enc r x :: enc_each rs' xs'
    | _, _ => []
    end.

  (* afterwards: every kept encoding is decoded (a rejected call left nothing to decode) *)
  Fixpoint dec_each (ks : list K) (cs : list (option C)) : list (option B) :=
    match ks, cs with
    | k :: ks', c :: cs' => match c with Some c' => dec k c' | None => None end :: dec_each ks' cs'
    | _, _ => []
    end.

  (* what must come back: the value of every accepted input, position by position *)
  Fixpoint accepted (rs : list R) (xs : list A) : list (option B) :=
    match rs, xs with
    | r :: rs', x :: xs' => match enc r x with Some _ => Some (val x) | None => None end :: accepted rs' xs'
    | _, _ => []
    end.
End Seq.
Arguments enc_each {R A C}. Arguments dec_each {K B C}. Arguments accepted {R A B C}.

(* the encodings the caller holds *)
Definition somes {C} (l : list (option C)) : list C := flat_map (fun o => match o with Some c => [c] | None => [] end) l.

(* deterministic encoders draw nothing *)
Definition enc_each_d {A C} (f : A -> option C) (xs : list A) : list (option C) := map f xs.
Definition dec_each_d {B C} (g : C -> option B) (cs : list (option C)) : list (option B) :=
  map (fun c => match c with Some c' => g c' | None => None end) cs.
Definition accepted_d {A C} (f : A -> option C) (xs : list A) : list (option A) :=
  map (fun x => match f x with Some _ => Some x | None => None end) xs.

Definition ok_opt {E A} (r : result E A) : option A := match r with Ok a => Some a | _ => None end.

(* ---- the encoders of the property as single calls ---- *)
(* a name through NewName and a fresh message builder; readName on what the builder returned *)
Definition name_enc (n : name) : option bytes :=
  match new_name n with
  | Ok n' => match write_name [] 0 n' with Some (w, _) => Some w | None => None end
  | _ => None
  end.
Definition name_dec (w : bytes) : option name := match read_name w 0 with Ok (n, _) => Some n | _ => None end.

Definition msg_enc (m : message) : option bytes := ok_opt (wire_message m).
Definition msg_dec (b : bytes) : option message := ok_opt (read_message b).

(* requester.encodeName / responder.responseFor with the concrete base32 of ModelB32 *)
Definition qname_enc (dom : name) (p : bytes) : option name := ok_opt (request_name (fun q => lower (b32_encode q)) dom p).
Definition qname_dec (dom : name) (n : name) : option bytes := name_payload b32_decode dom n.

(* transport parameters packed URL-less by the client, unpacked by the station into the type the transport expects *)
Definition anypb_enc (m : pbmsg) : option bytes := Some (client_pack_nourl m).
Definition anypb_dec (ty : N) (s : bytes) : option pbmsg := match station_unpack s ty with Ok (Some m) => Some m | _ => None end.

(* tag obfuscators: an item is (station private key, tag); the client is given the public key, the station its private key *)
Definition obf_item := (bytes * bytes)%type.
Definition xor_enc (r : bytes) (x : obf_item) : option bytes := xor_obfuscate r (snd x).
Definition xor_dec (k c : bytes) : option bytes := xor_reveal c.

(* two draws differ visibly: the representatives found differ, or the two random high bits do *)
Definition draws_differ (sbm : bytes -> option (bytes * bytes)) (r1 r2 : obf_rand) : Prop :=
  forall a1 p1 q1 a2 p2 q2,
    first_representable sbm (or_cands r1) = Some (a1, p1, q1) ->
    first_representable sbm (or_cands r2) = Some (a2, p2, q2) ->
    q1 <> q2 \/ N.land 192 (or_byte r1) <> N.land 192 (or_byte r2).
Definition headers_differ (sbm : bytes -> option (bytes * bytes)) (r1 r2 : obf_rand) : Prop :=
  forall h1 h2, obf_header sbm r1 = Some h1 -> obf_header sbm r2 = Some h2 -> h1 <> h2.
