(* C15 model, part 3: the tag obfuscators of pkg/transports/obfuscate.go.
   XOR and Nil are concrete.  CTR and GCM are functions of the cryptographic
   primitives, which are section variables here (their laws are hypotheses of
   the proofs, not of the definitions).  All randomness is an explicit argument.
   Definitions only; executable once the primitives are instantiated. *)
From CJ Require Export Common.Base.

(* ---- XOR ---- *)
Fixpoint xor_bytes (a b : bytes) : bytes :=
  match a, b with
  | x :: a', y :: b' => N.lxor x y :: xor_bytes a' b'
  | _, _ => []
  end.

(* r = the lp bytes drawn from crypto/rand; an empty tag is rejected (its encoding
   would be empty, which TryReveal refuses) *)
Definition xor_obfuscate (r t : bytes) : option bytes :=
  if blen t =? 0 then None else Some (r ++ xor_bytes r t).

Definition xor_reveal (c : bytes) : option bytes :=
  if negb (blen c mod 2 =? 0) || (blen c =? 0) then None
  else let n := blen c / 2 in Some (xor_bytes (take n c) (drop n c)).

(* ---- Nil ---- *)
Definition nil_obfuscate (t : bytes) : option bytes := Some t.
Definition nil_reveal (c : bytes) : option bytes := Some c.

(* ---- the representative's last octet ---- *)
Definition upd31 (f : byte -> byte) (r : bytes) : bytes := take 31 r ++ [f (nth 31 r 0)].
Definition randomize_hi (n : byte) (b : byte) : byte := N.lor b (N.land 192 n).   (* representative[31] |= 0xC0 & n *)
Definition clear_hi (b : byte) : byte := N.land b 63.                             (* representative[31] &= 0x3F *)

Section Crypto.
  (* extra25519.ScalarBaseMult: None = this private key has no representative (ok = false) *)
  Variable scalar_base_mult : bytes -> option (bytes * bytes).        (* private -> (public, representative) *)
  Variable repr_to_pub : bytes -> bytes.                              (* extra25519.RepresentativeToPublicKey *)
  Variable x25519 : bytes -> bytes -> option bytes.                   (* curve25519.X25519 (None = error) *)
  Variable sha256 : bytes -> bytes.
  Variable aes_ctr : bytes -> bytes -> bytes -> bytes.                (* key iv data *)
  Variable gcm_seal : bytes -> bytes -> bytes -> bytes.               (* key nonce plaintext *)
  Variable gcm_open : bytes -> bytes -> bytes -> option bytes.        (* key nonce ciphertext *)

  (* the loop `for ok := false; !ok;`: candidates drawn from crypto/rand until one has a representative *)
  Fixpoint first_representable (cands : list bytes) : option (bytes * bytes * bytes) :=
    match cands with
    | [] => None
    | a :: r => match scalar_base_mult a with
                | Some (pa, ra) => Some (a, pa, ra)
                | None => first_representable r
                end
    end.

  (* randomness of one Obfuscate call: the candidate private keys and the byte for the two high bits *)
  Record obf_rand := { or_cands : list bytes; or_byte : byte }.

  (* the first 32 octets of the encoding; depends on the randomness only *)
  Definition obf_header (r : obf_rand) : option bytes :=
    match first_representable (or_cands r) with
    | None => None
    | Some (_, _, ra) => Some (upd31 (randomize_hi (or_byte r)) ra)
    end.

  Definition shared_hash (r : obf_rand) (station_pub : bytes) : option bytes :=
    match first_representable (or_cands r) with
    | None => None
    | Some (a, _, _) => match x25519 a station_pub with None => None | Some ss => Some (sha256 ss) end
    end.

  Definition reveal_hash (c priv : bytes) : option bytes :=
    match x25519 priv (repr_to_pub (upd31 clear_hi (take 32 c))) with
    | None => None
    | Some ss => Some (sha256 ss)
    end.

  (* CTRObfuscator *)
  Definition ctr_obfuscate (r : obf_rand) (t station_pub : bytes) : option bytes :=
    if negb (blen station_pub =? 32) then None
    else match obf_header r, shared_hash r station_pub with
         | Some hdr, Some h => Some (hdr ++ aes_ctr (take 16 h) (take 16 (drop 16 h)) t)
         | _, _ => None
         end.

  Definition ctr_reveal (c priv : bytes) : option bytes :=
    if blen c <? 32 then None
    else match reveal_hash c priv with
         | None => None
         | Some h => Some (aes_ctr (take 16 h) (take 16 (drop 16 h)) (drop 32 c))
         end.

  (* GCMObfuscator *)
  Definition gcm_obfuscate (r : obf_rand) (t station_pub : bytes) : option bytes :=
    if negb (blen station_pub =? 32) then None
    else match obf_header r, shared_hash r station_pub with
         | Some hdr, Some h => Some (hdr ++ gcm_seal (take 16 h) (take 12 (drop 16 h)) t)
         | _, _ => None
         end.

  Definition gcm_reveal (c priv : bytes) : option bytes :=
    if blen c <? 48 then None
    else match reveal_hash c priv with
         | None => None
         | Some h => gcm_open (take 16 h) (take 12 (drop 16 h)) (drop 32 c)
         end.
End Crypto.

(* The laws assumed of the primitives (hypotheses of the CTR/GCM theorems; trusted base). *)
Record crypto_laws
  (scalar_base_mult : bytes -> option (bytes * bytes)) (repr_to_pub : bytes -> bytes)
  (x25519 : bytes -> bytes -> option bytes)
  (aes_ctr : bytes -> bytes -> bytes -> bytes)
  (gcm_seal : bytes -> bytes -> bytes -> bytes) (gcm_open : bytes -> bytes -> bytes -> option bytes)
  (pub_of : bytes -> bytes) : Prop := {
  (* the representative is 32 octets with the two high bits of the last one clear *)
  law_representative_shape : forall a pa ra, scalar_base_mult a = Some (pa, ra) -> length ra = 32%nat /\ nth 31 ra 0 < 64;
  (* Elligator inverse *)
  law_elligator_inverse : forall a pa ra, scalar_base_mult a = Some (pa, ra) -> repr_to_pub ra = pa;
  (* Diffie-Hellman commutativity: station private k with client public pa = client private a with station public *)
  law_dh_commutes : forall a pa ra k, scalar_base_mult a = Some (pa, ra) -> x25519 k pa = x25519 a (pub_of k);
  law_ctr_involution : forall k iv m, aes_ctr k iv (aes_ctr k iv m) = m;
  law_gcm_open_seal : forall k n m, gcm_open k n (gcm_seal k n m) = Some m;
  law_gcm_seal_length : forall k n m, blen (gcm_seal k n m) = blen m + 16
}.
