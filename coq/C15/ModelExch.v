(* C15 model, part 6: the encrypted request/response exchange of the DNS registrar.
     requester.sendHandshake / DNSPacketConn.send        payload -> noise -> framing -> base32 labels -> query
     responder.RecvAndRespond / responseFor / craftResponse / dnsRespToUDPResp
     requester.recvLoop / dnsResponsePayload / RequestAndRecv
   base32 and the Noise N handshake are section variables.  Definitions only. *)
From CJ Require Export Common.Base C15.Model C15.ModelName C15.ModelDns.

Definition max_udp_payload : N := 1232.          (* 1280 - 40 - 8 *)
Definition rr_type_txt : N := 16.
Definition rr_type_opt : N := 41.

Definition opt_rr (ttl : N) : rr :=
  {| rr_name := []; rr_type := rr_type_opt; rr_class := 4096; rr_ttl := ttl; rr_data := [] |}.

(* DNSPacketConn.send: the query carrying one packet *)
Definition query_msg (id : N) (nm : name) : message :=
  {| m_id := id; m_flags := 256;
     m_q := [{| q_name := nm; q_type := rr_type_txt; q_class := 1 |}];
     m_an := []; m_ns := []; m_ar := [opt_rr 0] |}.

(* the loop over query.Additional in responseFor *)
Inductive opt_scan := OptOk (have : bool) (psize : N) | OptFormErr | OptBadVers.
Fixpoint scan_opt (ars : list rr) (have : bool) (psize : N) : opt_scan :=
  match ars with
  | [] => OptOk have psize
  | r :: rest =>
    if rr_type r =? rr_type_opt then
      if have then OptFormErr
      else if N.land (N.shiftr (rr_ttl r) 16) 255 =? 0 then scan_opt rest true (rr_class r)
      else OptBadVers
    else scan_opt rest have psize
  end.

Definition resp_base (q : message) (flags : N) (ar : list rr) : message :=
  {| m_id := m_id q; m_flags := flags; m_q := m_q q; m_an := []; m_ns := []; m_ar := ar |}.

(* the response skeleton for a well-formed query: QR, AA, no error, the query's question, an OPT record *)
Definition ok_resp (id : N) (nm : name) : message :=
  resp_base (query_msg id nm) 33792 [opt_rr 0].

Section Exchange.
  Variable b32enc : bytes -> bytes.                 (* base32.StdEncoding without padding *)
  Variable b32dec : bytes -> option bytes.
  Variable cipher : Type.                           (* noise.CipherState *)
  (* initiator: HandshakeState.WriteMessage(nil, payload) -> message, cipher for the reply *)
  Variable noise_write : bytes -> bytes -> bytes -> option (bytes * cipher).   (* randomness, responder public key, payload *)
  (* responder: HandshakeState.ReadMessage(nil, msg) -> payload, cipher for the reply *)
  Variable noise_read : bytes -> bytes -> option (bytes * cipher).             (* responder private key, message *)
  Variable cs_encrypt : cipher -> bytes -> option bytes.
  Variable cs_decrypt : cipher -> bytes -> option bytes.

  (* ---- requester: RequestAndRecv up to the datagram on the wire ---- *)
  (* None: an error is reported or nothing is sent *)
  Definition requester_query (rnd spk : bytes) (dom : name) (id : N) (payload : bytes) : option (bytes * cipher) :=
    match noise_write rnd spk payload with
    | None => None
    | Some (hs, cs) =>
      match add_request_format hs with
      | None => None
      | Some framed =>
        match request_name (fun q => lower (b32enc q)) dom framed with
        | Ok nm => match wire_message (query_msg id nm) with
                   | Ok w => Some (w, cs)
                   | _ => None
                   end
        | _ => None
        end
      end
    end.

  (* ---- responder.responseFor: None = no response at all; payload None = an error response ---- *)
  Definition response_for (q : message) (dom : name) : option (message * option bytes) :=
    if negb (N.land (m_flags q) 32768 =? 0) then None
    else
      match scan_opt (m_ar q) false 0 with
      | OptFormErr => Some (resp_base q (N.lor 32768 1) [opt_rr 0], None)
      | OptBadVers => Some (resp_base q 32768 [opt_rr 16777216], None)
      | OptOk have psize =>
        let ar := if have then [opt_rr 0] else [] in
        let psize := if psize <? 512 then 512 else psize in
        match m_q q with
        | [qu] =>
          match trim_suffix (q_name qu) dom with
          | None => Some (resp_base q (N.lor 32768 3) ar, None)
          | Some prefix =>
            let fl := N.lor 32768 1024 in
            if negb (N.land (N.shiftr (m_flags q) 11) 15 =? 0) then Some (resp_base q (N.lor fl 4) ar, None)
            else if negb (q_type qu =? rr_type_txt) then Some (resp_base q (N.lor fl 3) ar, None)
            else match b32dec (upper (concat prefix)) with
                 | None => Some (resp_base q (N.lor fl 3) ar, None)
                 | Some payload =>
                   if psize <? max_udp_payload then Some (resp_base q (N.lor fl 1) ar, None)
                   else Some (resp_base q fl ar, Some payload)
                 end
          end
        | _ => Some (resp_base q (N.lor 32768 1) ar, None)
        end
      end.

  (* responder.dnsRespToUDPResp *)
  Definition answer_msg (resp : message) (body : bytes) : message :=
    match m_q resp with
    | [qu] =>
      if N.land (m_flags resp) 15 =? 0 then
        {| m_id := m_id resp; m_flags := m_flags resp; m_q := m_q resp;
           m_an := [{| rr_name := q_name qu; rr_type := q_type qu; rr_class := q_class qu; rr_ttl := 60; rr_data := enc_txt body |}];
           m_ns := m_ns resp; m_ar := m_ar resp |}
      else resp
    | _ => resp
    end.

  (* the datagram written for a response message and a body; an oversized one is replaced by an empty body *)
  Definition datagram (resp : message) (body : bytes) : option bytes :=
    match wire_message (answer_msg resp body) with
    | Ok w => if max_udp_payload <? blen w
              then match wire_message (answer_msg resp []) with Ok w' => Some w' | _ => None end
              else Some w
    | _ => None
    end.

  (* RecvAndRespond for one parsable datagram: (what the callback was given, the datagram sent back) *)
  Definition responder_handle (priv : bytes) (dom : name) (process : bytes -> option bytes) (qw : bytes)
    : option bytes * option bytes :=
    match read_message qw with
    | Ok q =>
      match response_for q dom with
      | None => (None, None)
      | Some (resp, None) => (None, datagram resp [])
      | Some (resp, Some coded) =>
        match remove_request_format coded with
        | None => (None, None)
        | Some hs =>
          match noise_read priv hs with
          | None => (None, None)
          | Some (p, cs) =>
            match process p with
            | None => (Some p, None)
            | Some r =>
              match cs_encrypt cs r with
              | None => (Some p, None)
              | Some enc =>
                match add_response_format enc with
                | None => (Some p, None)
                | Some framed => (Some p, datagram resp framed)
                end
              end
            end
          end
        end
      end
    | _ => (None, None)
    end.

  (* ---- requester: dnsResponsePayload; None = nil ---- *)
  Definition response_payload (resp : message) (dom : name) : option bytes :=
    if N.land (m_flags resp) 32768 =? 0 then None
    else if negb (N.land (m_flags resp) 15 =? 0) then None
    else match m_an resp with
         | [a] => match trim_suffix (rr_name a) dom with
                  | None => None
                  | Some _ => if rr_type a =? rr_type_txt then dec_txt (rr_data a) else None
                  end
         | _ => None
         end.

  (* recvLoop + RequestAndRecv on one datagram from the responder: the 4096-octet receive buffer
     is zero-filled, the packet is copied into it and the framing is removed from the whole buffer *)
  Definition requester_receive (cs : cipher) (dom : name) (dgram : bytes) : option bytes :=
    match read_message dgram with
    | Ok resp =>
      let p := match response_payload resp dom with Some p => p | None => [] end in
      let buf := take 4096 (p ++ repeat 0 4096) in
      match remove_response_format buf with
      | None => None
      | Some enc => cs_decrypt cs enc
      end
    | _ => None
    end.
End Exchange.

(* The laws assumed of base32 and of the Noise N handshake (hypotheses of the exchange theorems). *)
Record exchange_laws
  (b32enc : bytes -> bytes) (b32dec : bytes -> option bytes) (cipher : Type)
  (noise_write : bytes -> bytes -> bytes -> option (bytes * cipher))
  (noise_read : bytes -> bytes -> option (bytes * cipher))
  (cs_encrypt cs_decrypt : cipher -> bytes -> option bytes)
  (pub_of : bytes -> bytes) : Prop := {
  law_b32_roundtrip : forall p, wf_bytes p = true -> b32dec (upper (lower (b32enc p))) = Some p;
  (* what the initiator wrote for the responder's static key is read by the holder of that key as the
     same payload, and the cipher states the two sides obtain match in the reply direction *)
  law_noise_correct : forall rnd k p hs cs,
    noise_write rnd (pub_of k) p = Some (hs, cs) ->
    wf_bytes hs = true /\
    exists cs', noise_read k hs = Some (p, cs') /\
                forall r enc, cs_encrypt cs' r = Some enc -> cs_decrypt cs enc = Some r
}.

(* ---- many requests: RecvAndRespond starts one handler per datagram; each handler works on its own copy of
   the datagram, so what is sent back is a function of that datagram alone, whatever else arrives meanwhile.
   The responder serving a sequence of datagrams (in their arrival order) is therefore `map`: ---- *)
Section Serve.
  Variable b32dec : bytes -> option bytes.
  Variable cipher : Type.
  Variable noise_read : bytes -> bytes -> option (bytes * cipher).
  Variable cs_encrypt : cipher -> bytes -> option bytes.
  (* (datagram, what the handler of that datagram sends back to its sender) *)
  Definition serve (priv : bytes) (dom : name) (process : bytes -> option bytes) (arrived : list bytes)
    : list (bytes * option bytes) :=
    map (fun q => (q, snd (responder_handle b32dec cipher noise_read cs_encrypt priv dom process q))) arrived.
End Serve.
