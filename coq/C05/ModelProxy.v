(* C05 — Proxy() around the relay: the covert dial step with its error paths, the PROXY header
   step, and the process-wide statistics (ProxyStats) the tunnels share.  Definitions only.

   proxies.go Proxy():
     covertConn, err := net.Dial("tcp", reg.Covert)
     if e := generalizeErr(err); e != nil { CovertDialErr = e.Error() }
     if CovertDialErr != "" { Print; return }                      -- nothing opened, nothing counted
     defer covertConn.Close()
     if ProxyHeader { if writePROXYHeader(...) != nil { return } } -- covert closed, no summary, gauge untouched
     wg.Add(2); addSession(); go halfPipe(up); go halfPipe(down); wg.Wait(); removeSession(); Print

   The ONLY state tunnels share is ProxyStats (package level).  [pstats] is that state; [proxy] maps
   it and one tunnel's inputs to the new state and the tunnel's own outcome. *)
From CJ Require Import Common.Base C05.Model.

Record pstats := {
  ps_sessions : Z;                       (* sessionsProxying (gauge) *)
  ps_new_up : N; ps_new_down : N;        (* newBytesUp / newBytesDown: addBytes after every Write *)
  ps_compl_up : N; ps_compl_down : N;    (* completeBytesUp / Down: addCompleted in each direction's cleanup *)
  ps_zero_up : N; ps_zero_down : N;      (* zeroByteTunnelsUp / Down *)
  ps_completed : N;                      (* completedSessions: counted on the upload direction only *)
}.

Inductive hdr := HNone | HOk | HFail.    (* PROXY header: not requested | written | its Write failed *)

Record pin := {
  p_dial : option gerr;                  (* None: net.Dial succeeded; Some e: it returned e *)
  p_hdr : hdr;
  p_ka : kind;                           (* what sort of connection the client one is (covert: always TCP) *)
  p_up : tscript; p_down : tscript;      (* what the two connections do during the relay *)
  p_sched : list tid;                    (* the scheduler's choices *)
}.

Inductive pexit :=
  | XDialFailed (e : gerr)               (* CovertDialErr recorded, summary printed, return *)
  | XDialNil                             (* Dial failed with an error generalizeErr maps to nil: Proxy goes on with a nil
                                            connection and panics.  net.Dial does not return such errors (EOF, EPIPE,
                                            net.ErrClosed, os.ErrClosed): kept visible, outside the theorems' hypotheses *)
  | XHeaderFailed
  | XRelayed.

Record pout := {
  x_exit : pexit;
  x_up : bytes; x_down : bytes;          (* delivered to the covert / to the client *)
  x_bytes_up : N; x_bytes_down : N;      (* tunnelStats.BytesUp / BytesDown *)
  x_client_closed : bool;                (* by Proxy (the handler closes it afterwards in any case) *)
  x_covert_closed : bool;
  x_printed : bool;                      (* the "proxy closed {...}" summary *)
  x_client_err : option gerr; x_covert_err : option gerr;
  x_opsA : list cop; x_opsB : list cop;
}.

Definition no_relay (x : pexit) (covert_closed printed : bool) : pout :=
  {| x_exit := x; x_up := []; x_down := []; x_bytes_up := 0; x_bytes_down := 0;
     x_client_closed := false; x_covert_closed := covert_closed; x_printed := printed;
     x_client_err := None; x_covert_err := None; x_opsA := []; x_opsB := [] |}.

(* the relay, run to the end: the given schedule, then round robin *)
Definition relay_final (ka : kind) (g0 : Z) (su sd : tscript) (s : list tid) : cfg :=
  let c1 := run (init_cfg_k ka KTcp g0 su sd) s in run c1 (round_robin (measure c1)).

Definition b2N (b : bool) : N := if b then 1 else 0.

Definition add_relay (g : pstats) (c : cfg) : pstats :=
  let bu := counted (th_acc (up c)) in
  let bd := counted (th_acc (down c)) in
  {| ps_sessions := gauge c;
     ps_new_up := ps_new_up g + bu; ps_new_down := ps_new_down g + bd;
     ps_compl_up := ps_compl_up g + bu; ps_compl_down := ps_compl_down g + bd;
     ps_zero_up := ps_zero_up g + b2N (bu =? 0); ps_zero_down := ps_zero_down g + b2N (bd =? 0);
     ps_completed := ps_completed g + 1 |}.

Definition relay_out (c : cfg) : pout :=
  {| x_exit := XRelayed;
     x_up := delivered (th_acc (up c)); x_down := delivered (th_acc (down c));
     x_bytes_up := counted (th_acc (up c)); x_bytes_down := counted (th_acc (down c));
     x_client_closed := closedA c; x_covert_closed := closedB c; x_printed := true;
     x_client_err := client_err c; x_covert_err := covert_err c;
     x_opsA := opsA c; x_opsB := opsB c |}.

Definition proxy (g : pstats) (i : pin) : pstats * pout :=
  match p_dial i with
  | Some e =>
      match generalize e with
      | Some ge => (g, no_relay (XDialFailed ge) false true)
      | None => (g, no_relay XDialNil false false)
      end
  | None =>
      match p_hdr i with
      | HFail => (g, no_relay XHeaderFailed true false)
      | _ => let c := relay_final (p_ka i) (ps_sessions g) (p_up i) (p_down i) (p_sched i) in
             (add_relay g c, relay_out c)
      end
  end.

(* tunnels one after the other in one process *)
Fixpoint proxy_seq (g : pstats) (is : list pin) : pstats * list pout :=
  match is with
  | [] => (g, [])
  | i :: is' => let '(g1, o) := proxy g i in
                let '(g2, os) := proxy_seq g1 is' in (g2, o :: os)
  end.

Definition pstats0 : pstats :=
  {| ps_sessions := 0; ps_new_up := 0; ps_new_down := 0; ps_compl_up := 0; ps_compl_down := 0;
     ps_zero_up := 0; ps_zero_down := 0; ps_completed := 0 |}.

(* the gauge of a configuration moved by d: everything else equal *)
Definition shift (d : Z) (c : cfg) : cfg :=
  {| closedA := closedA c; closedB := closedB c; ncloseA := ncloseA c; ncloseB := ncloseB c;
     kindA := kindA c; kindB := kindB c; opsA := opsA c; opsB := opsB c;
     up := up c; down := down c; clU := clU c; clD := clD c;
     wg := wg c; gauge := (gauge c + d)%Z; main := main c; client_err := client_err c; covert_err := covert_err c |}.
