(* C05 — a TCP socket as the relay's destination: its kernel SEND QUEUE and the close mode.
   Definitions only.

   halfPipe counts a byte as forwarded when dst.Write accepted it.  On a real *net.TCPConn that
   means "copied into the socket's send queue"; whether it reaches the peer is decided by what
   the station does to the socket afterwards.  closeConn does  SetLinger(l); Close()  on every
   *net.TCPConn (Model.close_ops KTcp, l = linger_secs = 10).  Linux semantics modelled here:

     Close with SO_LINGER l > 0   the FIN is queued behind the data; the kernel keeps delivering
                                  what is queued for up to l seconds (Close blocks that long),
                                  after which the rest is dropped and the connection reset
     Close with SO_LINGER 0       the queue is DISCARDED and the connection is reset at once:
                                  the peer reads what had already arrived, then ECONNRESET
     Close with SO_LINGER off     the kernel delivers the queue in the background, then FIN
     CloseWrite                   the queue is delivered, then FIN; the descriptor stays open
     CloseRead                    no effect on the sending half
     any call on a closed descriptor fails and changes nothing (net.ErrClosed)

   The environment (network + peer) acts through [Deliver n] (the peer takes up to n more bytes
   out of the queue, in order) and [Tick] (one second passes).
   Not modelled: a Close while the station's RECEIVE queue still holds unread data (Linux then
   resets instead of sending FIN) — the relay's other direction is assumed to have read what
   arrived; segment loss / retransmission (Deliver is reliable, in order). *)
From CJ Require Import Common.Base C05.Model.

Inductive pend := PEof | PReset.          (* how the peer's stream ends after the bytes it got *)

Inductive phase :=
  | Open                      (* descriptor open, sending half open *)
  | WrShut                    (* CloseWrite: FIN queued behind the data, descriptor still open *)
  | Lingering (t : nat)       (* closed with SO_LINGER > 0 while data is queued: t seconds left *)
  | Background                (* closed with SO_LINGER off: the kernel keeps delivering *)
  | Ended (e : pend).         (* the peer's stream has its end: EOF after [s_got], or a reset *)

Record sock := {
  s_ph : phase;
  s_q : bytes;                (* send queue: accepted by Write, not yet at the peer *)
  s_got : bytes;              (* what the peer has received, in order *)
  s_linger : option nat;      (* SO_LINGER: None = off, Some seconds *)
  s_fd_closed : bool;         (* the station's descriptor is closed *)
  s_rd_shut : bool;           (* shutdown(SHUT_RD) was called *)
  s_wr_shut_call : bool;      (* shutdown(SHUT_WR) was called (CloseWrite) *)
}.

Definition sock0 : sock :=
  {| s_ph := Open; s_q := []; s_got := []; s_linger := None; s_fd_closed := false;
     s_rd_shut := false; s_wr_shut_call := false |}.

Definition with_ph (s : sock) (p : phase) : sock :=
  {| s_ph := p; s_q := s_q s; s_got := s_got s; s_linger := s_linger s; s_fd_closed := s_fd_closed s;
     s_rd_shut := s_rd_shut s; s_wr_shut_call := s_wr_shut_call s |}.
Definition with_q (s : sock) (q : bytes) : sock :=
  {| s_ph := s_ph s; s_q := q; s_got := s_got s; s_linger := s_linger s; s_fd_closed := s_fd_closed s;
     s_rd_shut := s_rd_shut s; s_wr_shut_call := s_wr_shut_call s |}.
Definition with_linger (s : sock) (l : option nat) : sock :=
  {| s_ph := s_ph s; s_q := s_q s; s_got := s_got s; s_linger := l; s_fd_closed := s_fd_closed s;
     s_rd_shut := s_rd_shut s; s_wr_shut_call := s_wr_shut_call s |}.
Definition with_closed (s : sock) : sock :=
  {| s_ph := s_ph s; s_q := s_q s; s_got := s_got s; s_linger := s_linger s; s_fd_closed := true;
     s_rd_shut := s_rd_shut s; s_wr_shut_call := s_wr_shut_call s |}.
Definition with_rd_shut (s : sock) : sock :=
  {| s_ph := s_ph s; s_q := s_q s; s_got := s_got s; s_linger := s_linger s; s_fd_closed := s_fd_closed s;
     s_rd_shut := true; s_wr_shut_call := s_wr_shut_call s |}.
Definition with_wr_call (s : sock) : sock :=
  {| s_ph := s_ph s; s_q := s_q s; s_got := s_got s; s_linger := s_linger s; s_fd_closed := s_fd_closed s;
     s_rd_shut := s_rd_shut s; s_wr_shut_call := true |}.
(* the peer takes the first n queued bytes *)
Definition move (n : nat) (s : sock) : sock :=
  {| s_ph := s_ph s; s_q := skipn n (s_q s); s_got := s_got s ++ firstn n (s_q s); s_linger := s_linger s;
     s_fd_closed := s_fd_closed s; s_rd_shut := s_rd_shut s; s_wr_shut_call := s_wr_shut_call s |}.

(* the FIN goes out as soon as nothing is queued in front of it *)
Definition settle (s : sock) : sock :=
  match s_q s with
  | [] => match s_ph s with
          | WrShut | Lingering _ | Background => with_ph s (Ended PEof)
          | _ => s
          end
  | _ => s
  end.

(* the station's calls, with their arguments *)
Inductive sop := SWrite (b : bytes) | SSetLinger (l : nat) | SCloseWrite | SCloseRead | SClose.

Definition accepts_writes (s : sock) : bool :=
  negb (s_fd_closed s) && match s_ph s with Open => true | _ => false end.

Definition sop_step (s : sock) (o : sop) : sock :=
  if s_fd_closed s then s else
  match o with
  | SWrite b => match s_ph s with Open => with_q s (s_q s ++ b) | _ => s end
  | SSetLinger l => with_linger s (Some l)
  | SCloseWrite => match s_ph s with Open => settle (with_ph (with_wr_call s) WrShut) | _ => s end
  | SCloseRead => with_rd_shut s
  | SClose =>
      let s1 := with_closed s in
      match s_ph s with
      | Open | WrShut =>
          match s_linger s with
          | Some O => with_q (with_ph s1 (Ended PReset)) []          (* abort: drop the queue, RST *)
          | Some (S l) => settle (with_ph s1 (Lingering (S l)))
          | None => settle (with_ph s1 Background)
          end
      | _ => s1
      end
  end.

Inductive ev := Op (o : sop) | Deliver (n : nat) | Tick.

Definition sstep (s : sock) (e : ev) : sock :=
  match e with
  | Op o => sop_step s o
  | Deliver n => match s_ph s with Ended _ => s | _ => settle (move n s) end
  | Tick => match s_ph s with
            | Lingering (S (S t)) => with_ph s (Lingering (S t))
            | Lingering _ => with_q (with_ph s (Ended PReset)) []      (* linger time over: reset *)
            | _ => s
            end
  end.

Definition srun (s : sock) (es : list ev) : sock := fold_left sstep es s.

(* ---- vocabulary of the theorems *)

(* everything the station's Writes handed to the socket *)
Fixpoint written (es : list ev) : bytes :=
  match es with
  | [] => []
  | Op (SWrite b) :: es' => b ++ written es'
  | _ :: es' => written es'
  end.

(* a history in which the station has not shut anything down yet (Writes, SetLinger, and anything
   the environment does) *)
Fixpoint no_shutdown (es : list ev) : bool :=
  match es with
  | [] => true
  | Op (SWrite _) :: es' | Op (SSetLinger _) :: es' => no_shutdown es'
  | Op _ :: _ => false
  | _ :: es' => no_shutdown es'
  end.

(* "the peer keeps reading and drains the queue within the linger time": the deliveries of [es]
   add up to [need] bytes before the t-th Tick.  (Station calls in [es] are allowed: they hit a
   closed descriptor.) *)
Fixpoint drained_before (es : list ev) (t need : nat) : bool :=
  match need with
  | O => true
  | S _ =>
      match es with
      | [] => false
      | Deliver n :: es' => drained_before es' t (need - n)
      | Tick :: es' => match t with S (S t') => drained_before es' (S t') need | _ => false end
      | Op _ :: es' => drained_before es' t need
      end
  end.

(* environment events only *)
Fixpoint env_only (es : list ev) : bool :=
  match es with [] => true | Op _ :: _ => false | _ :: es' => env_only es' end.
Fixpoint delivered_total (es : list ev) : nat :=
  match es with [] => 0 | Deliver n :: es' => n + delivered_total es' | _ :: es' => delivered_total es' end.

(* the relay's shutdown-call log of a connection, as socket calls *)
Definition sop_of_cop (o : cop) : sop :=
  match o with CSetLinger l => SSetLinger l | CClose => SClose end.
Definition ops_events (ops : list cop) : list ev := map (fun o => Op (sop_of_cop o)) ops.
