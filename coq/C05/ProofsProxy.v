(* C05 — proofs about Proxy(): gauge, shared statistics, independence of a tunnel from the history. *)
From CJ Require Import Common.Base C05.Model C05.Proofs C05.Sched C05.ModelProxy.
From Coq Require Import Lia ZifyN ZifyNat ZifyBool.

(* ---- the relay never looks at the gauge: shifting it commutes with every step *)
Ltac sc := match goal with |- context [stats_close ?a ?b ?x ?y] => destruct (stats_close a b x y) end.
Lemma step_shift d c t : step (shift d c) t = shift d (step c t).
Proof.
  destruct c as [cA cB nA nB kA kB oA oB u dn cu cd w g m ce ve].
  destruct t; unfold step, shift;
    cbn [closedA closedB ncloseA ncloseB kindA kindB opsA opsB up down clU clD wg gauge main client_err covert_err].
  - destruct (th_pc u); try reflexivity. sc. reflexivity.
  - destruct (th_pc dn); try reflexivity. sc. reflexivity.
  - destruct cu; try reflexivity. cbv zeta. sc. reflexivity.
  - destruct cd; try reflexivity. cbv zeta. sc. reflexivity.
  - destruct m; [destruct w|..]; try reflexivity.
    cbn [closedA closedB ncloseA ncloseB kindA kindB opsA opsB up down clU clD wg gauge main client_err covert_err].
    f_equal. lia.
Qed.

Lemma run_shift d s : forall c, run (shift d c) s = shift d (run c s).
Proof.
  induction s as [|t s IH]; intros c; [reflexivity|].
  cbn [run fold_left]. fold (run (step (shift d c) t) s). fold (run (step c t) s).
  rewrite step_shift. apply IH.
Qed.

Lemma measure_shift d c : measure (shift d c) = measure c.
Proof. reflexivity. Qed.

Lemma init_shift ka kb g0 d su sd : init_cfg_k ka kb (g0 + d) su sd = shift d (init_cfg_k ka kb g0 su sd).
Proof. unfold init_cfg_k, shift. cbn. f_equal. lia. Qed.

Lemma relay_final_shift ka g0 d su sd s :
  relay_final ka (g0 + d) su sd s = shift d (relay_final ka g0 su sd s).
Proof.
  unfold relay_final. rewrite init_shift, run_shift, measure_shift, run_shift. reflexivity.
Qed.

Lemma relay_out_shift d c : relay_out (shift d c) = relay_out c.
Proof. reflexivity. Qed.

(* ---- the finished relay *)
Lemma relay_final_finished ka g0 su sd s : finished (relay_final ka g0 su sd s) = true.
Proof.
  unfold relay_final. apply (round_robin_finishes g0); [|lia].
  apply inv_run, inv_init_k.
Qed.

Lemma relay_final_inv ka g0 su sd s : inv g0 (relay_final ka g0 su sd s).
Proof. unfold relay_final. apply inv_run, inv_run, inv_init_k. Qed.

Lemma relay_final_gauge ka g0 su sd s : gauge (relay_final ka g0 su sd s) = g0.
Proof.
  pose proof (relay_final_inv ka g0 su sd s) as I.
  pose proof (relay_final_finished ka g0 su sd s) as F.
  destruct (finished_torn_down g0 _ I F) as (_ & _ & _ & G & _). exact G.
Qed.

(* ---- Proxy() *)

(* the session gauge is back at its value on EVERY path (dial failure, header failure, relay) *)
Lemma proxy_gauge_restored g i : ps_sessions (fst (proxy g i)) = ps_sessions g.
Proof.
  unfold proxy. destruct (p_dial i) as [e|].
  - destruct (generalize e); reflexivity.
  - destruct (p_hdr i); try reflexivity; cbn [fst add_relay ps_sessions]; apply relay_final_gauge.
Qed.

(* a tunnel's own outcome does not depend on the process-wide state it starts from *)
Lemma proxy_outcome_history_free g g' i : snd (proxy g i) = snd (proxy g' i).
Proof.
  unfold proxy. destruct (p_dial i) as [e|].
  - destruct (generalize e); reflexivity.
  - destruct (p_hdr i); try reflexivity; cbn [snd];
      replace (ps_sessions g') with (ps_sessions g + (ps_sessions g' - ps_sessions g))%Z by lia;
      rewrite relay_final_shift, relay_out_shift; reflexivity.
Qed.

(* what a relayed tunnel reports and how it ends *)
Lemma relay_out_facts ka g0 su sd s :
  let o := relay_out (relay_final ka g0 su sd s) in
  x_bytes_up o = N.of_nat (length (x_up o)) /\ x_bytes_down o = N.of_nat (length (x_down o)) /\
  x_client_closed o = true /\ x_covert_closed o = true /\ x_printed o = true /\
  In CClose (x_opsA o) /\ In CClose (x_opsB o).
Proof.
  set (c := relay_final ka g0 su sd s).
  pose proof (relay_final_inv ka g0 su sd s) as I. fold c in I.
  pose proof (relay_final_finished ka g0 su sd s) as F. fold c in F.
  destruct (finished_torn_down _ _ I F) as (HA & HB & _).
  pose proof (i_au _ _ I) as Cu. pose proof (i_ad _ _ I) as Cd. unfold acc_ok in Cu, Cd.
  pose proof (i_ncA _ _ I HA) as NA. pose proof (i_ncB _ _ I HB) as NB.
  pose proof (i_opsA _ _ I) as OA. pose proof (i_opsB _ _ I) as OB.
  cbn zeta. unfold relay_out.
  cbn [x_bytes_up x_bytes_down x_up x_down x_client_closed x_covert_closed x_printed x_opsA x_opsB].
  split; [exact Cu|]. split; [exact Cd|]. split; [exact HA|]. split; [exact HB|]. split; [reflexivity|].
  split; [rewrite OA | rewrite OB]; apply close_in_ops; assumption.
Qed.

Lemma proxy_relayed_faithful g i :
  let o := snd (proxy g i) in
  x_exit o = XRelayed ->
  x_bytes_up o = N.of_nat (length (x_up o)) /\ x_bytes_down o = N.of_nat (length (x_down o)) /\
  x_client_closed o = true /\ x_covert_closed o = true /\ x_printed o = true /\
  In CClose (x_opsA o) /\ In CClose (x_opsB o).
Proof.
  unfold proxy. destruct (p_dial i) as [e|].
  - destruct (generalize e); cbn; discriminate.
  - destruct (p_hdr i); cbn [snd]; [intros _; apply relay_out_facts | intros _; apply relay_out_facts | cbn; discriminate].
Qed.

(* the paths on which nothing is relayed leave every shared counter alone *)
Lemma proxy_no_relay_touches_nothing g i :
  x_exit (snd (proxy g i)) <> XRelayed -> fst (proxy g i) = g /\ x_up (snd (proxy g i)) = [] /\ x_down (snd (proxy g i)) = [].
Proof.
  unfold proxy. destruct (p_dial i) as [e|].
  - destruct (generalize e); cbn; auto.
  - destruct (p_hdr i); cbn; auto; intros H; exfalso; apply H; reflexivity.
Qed.

(* the shared counters grow by exactly what the tunnel reports *)
Lemma proxy_stats_additive g i :
  let g1 := fst (proxy g i) in let o := snd (proxy g i) in
  x_exit o = XRelayed ->
  ps_new_up g1 = ps_new_up g + x_bytes_up o /\ ps_new_down g1 = ps_new_down g + x_bytes_down o /\
  ps_compl_up g1 = ps_compl_up g + x_bytes_up o /\ ps_compl_down g1 = ps_compl_down g + x_bytes_down o /\
  ps_zero_up g1 = ps_zero_up g + b2N (x_bytes_up o =? 0) /\ ps_zero_down g1 = ps_zero_down g + b2N (x_bytes_down o =? 0) /\
  ps_completed g1 = ps_completed g + 1.
Proof.
  unfold proxy. destruct (p_dial i) as [e|].
  - destruct (generalize e); cbn; discriminate.
  - destruct (p_hdr i); cbn [fst snd]; try (cbn; discriminate); intros _; cbn; repeat split; reflexivity.
Qed.

(* tunnels in sequence: whatever the earlier tunnels were and however they ended (dial failure,
   header failure, a direction leaving through a failing SetDeadline, faults of any kind), the k-th
   tunnel's outcome is the outcome of the same tunnel in a fresh process *)
Lemma proxy_seq_independent : forall is g g' k i,
  nth_error is k = Some i ->
  nth_error (snd (proxy_seq g is)) k = Some (snd (proxy g' i)).
Proof.
  induction is as [|j is IH]; intros g g' k i H; [destruct k; discriminate|].
  cbn [proxy_seq]. destruct (proxy g j) as [g1 o] eqn:E1. destruct (proxy_seq g1 is) as [g2 os] eqn:E2.
  cbn [snd]. destruct k as [|k]; cbn [nth_error] in *.
  - inversion H; subst j. f_equal. rewrite <- (proxy_outcome_history_free g g' i). rewrite E1. reflexivity.
  - specialize (IH g1 g' k i H). rewrite E2 in IH. exact IH.
Qed.

Lemma proxy_seq_gauge : forall is g, ps_sessions (fst (proxy_seq g is)) = ps_sessions g.
Proof.
  induction is as [|j is IH]; intros g; [reflexivity|].
  cbn [proxy_seq]. destruct (proxy g j) as [g1 o] eqn:E1. destruct (proxy_seq g1 is) as [g2 os] eqn:E2.
  cbn [fst]. specialize (IH g1). rewrite E2 in IH. cbn [fst] in IH. rewrite IH.
  pose proof (proxy_gauge_restored g j) as G. rewrite E1 in G. exact G.
Qed.
