(* C05 property theorems: statements + `exact lemma` only. *)
From CJ Require Import Common.Base C05.Model C05.Proofs C05.Sched C05.ModelTcp C05.ProofsTcp C05.ModelProxy C05.ProofsProxy.

(* One direction of the relay delivers exactly the three-line specification [ideal]: the data of
   every Read up to and including the first one that carries an error, cut only by the first
   failing or short Write (or by a failing SetDeadline, which stops the loop). *)
Theorem C05_delivered_is_prefix_and_complete :
  forall r w d cdst csrc closer_first,
    out_delivered (half_pipe_full r w d cdst csrc closer_first) = ideal r w d.
Proof. exact delivered_is_ideal. Qed.
Print Assumptions C05_delivered_is_prefix_and_complete.

(* [ideal] never invents, duplicates or reorders: it is a prefix of everything that was read ... *)
Theorem C05_ideal_is_prefix :
  forall r w d, exists q, all_data r = ideal r w d ++ q.
Proof. exact ideal_is_prefix. Qed.
Print Assumptions C05_ideal_is_prefix.

(* ... and it is complete: with working writes and deadlines it is everything read up to and
   INCLUDING the read that returned the error. *)
Theorem C05_ideal_complete :
  forall r w d, first_fail d = None -> writes_ok (map fst (upto_err r)) w ->
    ideal r w d = all_data (upto_err r).
Proof. exact ideal_complete. Qed.
Print Assumptions C05_ideal_complete.

Theorem C05_counts_equal_delivered :
  forall r w d cdst csrc closer_first,
    out_counted (half_pipe_full r w d cdst csrc closer_first) =
    N.of_nat (length (out_delivered (half_pipe_full r w d cdst csrc closer_first))).
Proof. exact counts_equal_delivered. Qed.
Print Assumptions C05_counts_equal_delivered.

Theorem C05_half_pipe_closes_both :
  forall r w d cdst csrc closer_first,
    closed_src (half_pipe_full r w d cdst csrc closer_first) = true /\
    closed_dst (half_pipe_full r w d cdst csrc closer_first) = true.
Proof. exact torn_down_seq. Qed.
Print Assumptions C05_half_pipe_closes_both.

(* ---------------- the two-direction relay, for all scripts and ALL schedules ----------------
   [run (init_cfg g0 su sd) s] is the state after the scheduler has granted the calls of the five
   threads (Up, Down, their asynchronous source closers, the caller waiting on the WaitGroup) in
   the order [s]; a schedule entry naming a thread that cannot run is skipped. *)

(* always_torn_down: whenever nothing is left to run, both connections have received Close, both
   directions and the caller have returned, the WaitGroup is at zero and the session gauge is back
   at its previous value.  [closer_over st t]: the source closer has returned, or it sits inside
   a Close that the connection's script says never returns. *)
Theorem C05_always_torn_down :
  forall g0 su sd s,
    let c := run (init_cfg g0 su sd) s in
    finished c = true ->
    closedA c = true /\ closedB c = true /\ wg c = O /\ gauge c = g0 /\
    closer_over (clU c) (up c) /\ closer_over (clD c) (down c) /\ main c = MDone /\
    th_pc (up c) = PDone /\ th_pc (down c) = PDone.
Proof. exact relay_torn_down. Qed.
Print Assumptions C05_always_torn_down.

(* "no goroutine is left behind", precisely: when nothing is left to run every thread of the relay
   has returned, except a source closer blocked inside its connection's own Close — which can
   only be the case for a connection whose Close never returns; with connections whose Close
   returns, none is left.  (The caller returns in either case: that is why the source is closed
   asynchronously.  The synchronous Close(dst) is assumed to return; for TCP it is bounded by
   SetLinger(10 s).) *)
Theorem C05_no_goroutine_left_behind :
  forall g0 su sd s,
    let c := run (init_cfg g0 su sd) s in
    finished c = true ->
    th_pc (up c) = PDone /\ th_pc (down c) = PDone /\ main c = MDone /\
    (clU c = CDone \/ (clU c = CBlocked /\ t_csrc_blocks su = true)) /\
    (clD c = CDone \/ (clD c = CBlocked /\ t_csrc_blocks sd = true)) /\
    (t_csrc_blocks su = false -> clU c = CDone) /\ (t_csrc_blocks sd = false -> clD c = CDone).
Proof. exact relay_no_goroutine_left. Qed.
Print Assumptions C05_no_goroutine_left_behind.

(* always_torn_down for every KIND of connection (closeConn treats *net.TCPConn differently from
   the rest): whatever the kinds, both connections receive a full Close — the shutdown calls a
   connection gets are whole closeConn sequences of its kind (TCP: SetLinger, Close; other: Close),
   so "only one half is shut down" is not something the relay does *)
Theorem C05_always_torn_down_every_kind :
  forall ka kb g0 su sd s,
    let c := run (init_cfg_k ka kb g0 su sd) s in
    finished c = true ->
    closedA c = true /\ closedB c = true /\ wg c = O /\ gauge c = g0 /\ main c = MDone /\
    th_pc (up c) = PDone /\ th_pc (down c) = PDone /\
    In CClose (opsA c) /\ In CClose (opsB c) /\
    opsA c = concat (repeat (close_ops ka) (ncloseA c)) /\
    opsB c = concat (repeat (close_ops kb) (ncloseB c)).
Proof. exact relay_torn_down_every_kind. Qed.
Print Assumptions C05_always_torn_down_every_kind.

(* ... no schedule can get stuck before that point ... *)
Theorem C05_no_deadlock :
  forall g0 su sd s,
    let c := run (init_cfg g0 su sd) s in
    finished c = false -> exists t, enabled c t = true.
Proof. exact relay_no_deadlock. Qed.
Print Assumptions C05_no_deadlock.

(* ... every schedule makes at most [measure] effective steps (so every fair schedule ends) ... *)
Theorem C05_terminates_within_bound :
  forall g0 su sd s, (effective (init_cfg g0 su sd) s <= measure (init_cfg g0 su sd))%nat.
Proof. exact relay_bounded. Qed.
Print Assumptions C05_terminates_within_bound.

(* ... and after any prefix the run can be completed (by the round robin the driver uses) *)
Theorem C05_every_prefix_completes :
  forall g0 su sd s,
    let c := run (init_cfg g0 su sd) s in
    finished (run c (round_robin (measure c))) = true.
Proof. exact always_completes. Qed.
Print Assumptions C05_every_prefix_completes.

(* delivered_is_prefix_and_complete / counts_equal_delivered inside the relay: under every schedule
   each direction delivers [ideal] of the results its own calls returned (including the
   "use of closed connection" results caused by the other direction's teardown) *)
Theorem C05_relay_delivers_ideal :
  forall g0 su sd s,
    let c := run (init_cfg g0 su sd) s in
    finished c = true ->
    delivered (th_acc (up c)) = ideal (th_rlog (up c)) (th_wlog (up c)) (th_dlog (up c)) /\
    delivered (th_acc (down c)) = ideal (th_rlog (down c)) (th_wlog (down c)) (th_dlog (down c)) /\
    counted (th_acc (up c)) = N.of_nat (length (delivered (th_acc (up c)))) /\
    counted (th_acc (down c)) = N.of_nat (length (delivered (th_acc (down c)))).
Proof. exact relay_delivers. Qed.
Print Assumptions C05_relay_delivers_ideal.

Theorem C05_relay_counts_at_every_moment :
  forall g0 su sd s,
    let c := run (init_cfg g0 su sd) s in
    counted (th_acc (up c)) = N.of_nat (length (delivered (th_acc (up c)))) /\
    counted (th_acc (down c)) = N.of_nat (length (delivered (th_acc (down c)))).
Proof. exact relay_counts_always. Qed.
Print Assumptions C05_relay_counts_at_every_moment.

(* ---------------- real TCP: the socket's send queue and the close mode (C05/ModelTcp.v) ----------------
   halfPipe counts a byte when dst.Write accepted it, i.e. when it sits in the socket's send queue.
   Whether it reaches the peer is decided by the shutdown calls AND THEIR ARGUMENTS. *)

(* the pinned close sequence  SetLinger(l), l > 0; Close : every byte the station wrote before the
   close reaches a peer that drains the queue before the linger time is over — whatever the
   chunking of the writes, however deliveries and seconds interleave before and after — and the
   peer's stream then ends with a clean end of stream *)
Theorem C05_tcp_linger_close_delivers_everything :
  forall l pre es,
    no_shutdown pre = true ->
    drained_before es (S l) (length (s_q (srun sock0 pre))) = true ->
    let f := srun sock0 (pre ++ [Op (SSetLinger (S l)); Op SClose] ++ es) in
    s_got f = written pre /\ s_ph f = Ended PEof.
Proof. exact tcp_linger_close_delivers_all. Qed.
Print Assumptions C05_tcp_linger_close_delivers_everything.

(* the variant  SetLinger(0); Close : the peer gets exactly what had arrived before the close —
   everything still queued is lost — and its stream ends with a reset, never with end of stream,
   whatever happens afterwards *)
Theorem C05_tcp_linger0_close_discards_queue :
  forall pre es,
    no_shutdown pre = true ->
    let s1 := srun sock0 pre in
    let f := srun sock0 (pre ++ [Op (SSetLinger 0); Op SClose] ++ es) in
    s_got f = s_got s1 /\ s_ph f = Ended PReset /\ written pre = s_got f ++ s_q s1.
Proof. exact tcp_linger0_close_discards. Qed.
Print Assumptions C05_tcp_linger0_close_discards_queue.

Theorem C05_linger0_variant_refuted :
  forall pre es,
    no_shutdown pre = true -> s_q (srun sock0 pre) <> [] ->
    let f := srun sock0 (pre ++ ops_events [CSetLinger 0; CClose] ++ es) in
    s_got f <> written pre /\ s_ph f = Ended PReset.
Proof. exact linger0_variant_refuted. Qed.
Print Assumptions C05_linger0_variant_refuted.

(* CloseWrite: the queue is delivered, then FIN, without a time limit; the descriptor stays open *)
Theorem C05_tcp_closewrite_delivers_everything :
  forall pre es,
    no_shutdown pre = true -> env_only es = true ->
    (length (s_q (srun sock0 pre)) <= delivered_total es)%nat ->
    let f := srun sock0 (pre ++ [Op SCloseWrite] ++ es) in
    s_got f = written pre /\ s_ph f = Ended PEof /\ s_fd_closed f = false.
Proof. exact tcp_closewrite_delivers_all. Qed.
Print Assumptions C05_tcp_closewrite_delivers_everything.

(* the relay closes every connection from both directions (and once more from Proxy): on a socket
   all those closeConn sequences act like ONE  SetLinger(linger_secs); Close *)
Theorem C05_tcp_repeated_close_is_one_close :
  forall n s,
    srun s (ops_events (concat (repeat (close_ops KTcp) (S n)))) =
    srun s [Op (SSetLinger linger_secs); Op SClose].
Proof. exact repeated_close_ops. Qed.
Print Assumptions C05_tcp_repeated_close_is_one_close.

(* "forwards faithfully" judged AT THE PEER, for all scripts and all schedules of the relay: in a
   finished run whose covert connection is a TCP socket, the bytes the upload direction delivered
   (= ideal of what its calls returned, theorem C05_relay_delivers_ideal) are exactly what a covert
   peer receives that drains the socket within the linger time; their number is the reported byte
   count; then comes a clean end of stream.  The socket's shutdown calls are the relay's own log
   [opsB c], arguments included. *)
Theorem C05_relay_tcp_covert_peer_receives_counted :
  forall ka g0 su sd s pre es,
    let c := run (init_cfg_k ka KTcp g0 su sd) s in
    finished c = true ->
    no_shutdown pre = true -> written pre = delivered (th_acc (up c)) ->
    drained_before es linger_secs (length (s_q (srun sock0 pre))) = true ->
    let f := srun sock0 (pre ++ ops_events (opsB c) ++ es) in
    s_got f = delivered (th_acc (up c)) /\
    N.of_nat (length (s_got f)) = counted (th_acc (up c)) /\
    s_ph f = Ended PEof.
Proof. exact relay_tcp_covert_peer_gets_counted. Qed.
Print Assumptions C05_relay_tcp_covert_peer_receives_counted.

Theorem C05_relay_tcp_client_peer_receives_counted :
  forall kb g0 su sd s pre es,
    let c := run (init_cfg_k KTcp kb g0 su sd) s in
    finished c = true ->
    no_shutdown pre = true -> written pre = delivered (th_acc (down c)) ->
    drained_before es linger_secs (length (s_q (srun sock0 pre))) = true ->
    let f := srun sock0 (pre ++ ops_events (opsA c) ++ es) in
    s_got f = delivered (th_acc (down c)) /\
    N.of_nat (length (s_got f)) = counted (th_acc (down c)) /\
    s_ph f = Ended PEof.
Proof. exact relay_tcp_client_peer_gets_counted. Qed.
Print Assumptions C05_relay_tcp_client_peer_receives_counted.

(* ---------------- Proxy() around the relay: dial step, header step, shared statistics (C05/ModelProxy.v) ---------------- *)

(* the session gauge is back at its previous value on EVERY path through Proxy: a failing dial, a
   failing PROXY header, and the relay under every schedule with every script *)
Theorem C05_proxy_gauge_restored_on_every_path :
  forall g i, ps_sessions (fst (proxy g i)) = ps_sessions g.
Proof. exact proxy_gauge_restored. Qed.
Print Assumptions C05_proxy_gauge_restored_on_every_path.

(* a relayed tunnel reports exactly what it delivered, in both directions, has closed both
   connections (a full Close on each) and has printed its summary *)
Theorem C05_proxy_relayed_tunnel_reports_delivered :
  forall g i, let o := snd (proxy g i) in
    x_exit o = XRelayed ->
    x_bytes_up o = N.of_nat (length (x_up o)) /\ x_bytes_down o = N.of_nat (length (x_down o)) /\
    x_client_closed o = true /\ x_covert_closed o = true /\ x_printed o = true /\
    In CClose (x_opsA o) /\ In CClose (x_opsB o).
Proof. exact proxy_relayed_faithful. Qed.
Print Assumptions C05_proxy_relayed_tunnel_reports_delivered.

(* the paths that relay nothing (dial failed, header failed) forward nothing and leave every
   process-wide counter alone *)
Theorem C05_proxy_early_exit_touches_nothing :
  forall g i, x_exit (snd (proxy g i)) <> XRelayed ->
    fst (proxy g i) = g /\ x_up (snd (proxy g i)) = [] /\ x_down (snd (proxy g i)) = [].
Proof. exact proxy_no_relay_touches_nothing. Qed.
Print Assumptions C05_proxy_early_exit_touches_nothing.

(* the process-wide statistics grow by exactly what the tunnel reports (refinement of ProxyStats) *)
Theorem C05_proxy_stats_grow_by_reported_counts :
  forall g i, let g1 := fst (proxy g i) in let o := snd (proxy g i) in
    x_exit o = XRelayed ->
    ps_new_up g1 = ps_new_up g + x_bytes_up o /\ ps_new_down g1 = ps_new_down g + x_bytes_down o /\
    ps_compl_up g1 = ps_compl_up g + x_bytes_up o /\ ps_compl_down g1 = ps_compl_down g + x_bytes_down o /\
    ps_zero_up g1 = ps_zero_up g + b2N (x_bytes_up o =? 0) /\ ps_zero_down g1 = ps_zero_down g + b2N (x_bytes_down o =? 0) /\
    ps_completed g1 = ps_completed g + 1.
Proof. exact proxy_stats_additive. Qed.
Print Assumptions C05_proxy_stats_grow_by_reported_counts.

(* tunnels one after the other in one process share nothing but those counters: the k-th tunnel's
   outcome (bytes delivered, counts, closes, error strings, shutdown calls) is that of the same tunnel
   in a fresh process, however the earlier tunnels ended *)
Theorem C05_tunnels_in_sequence_are_independent :
  forall is g g' k i,
    nth_error is k = Some i ->
    nth_error (snd (proxy_seq g is)) k = Some (snd (proxy g' i)).
Proof. exact proxy_seq_independent. Qed.
Print Assumptions C05_tunnels_in_sequence_are_independent.

Theorem C05_tunnels_in_sequence_restore_gauge :
  forall is g, ps_sessions (fst (proxy_seq g is)) = ps_sessions g.
Proof. exact proxy_seq_gauge. Qed.
Print Assumptions C05_tunnels_in_sequence_restore_gauge.
