(* C05 property theorems: statements + `exact lemma` only. *)
From CJ Require Import Common.Base C05.Model C05.Proofs.

(* One direction of the relay delivers exactly the three-line specification [ideal]: the data of
   every Read up to and including the first one that carries an error, cut only by the first
   failing or short Write (or by a failing SetDeadline, which stops the loop). *)
Theorem C05_delivered_is_prefix_and_complete :
  forall r w d cdst csrc closer_first,
    out_delivered (half_pipe_full r w d cdst csrc closer_first) = ideal r w d.
Proof. exact delivered_is_ideal. Qed.
Print Assumptions C05_delivered_is_prefix_and_complete.

(* [ideal] never invents, duplicates or reorders: it is a prefix of everything that was read ... *)
Theorem C05_ideal_is_prefix :
  forall r w d, exists q, all_data r = ideal r w d ++ q.
Proof. exact ideal_is_prefix. Qed.
Print Assumptions C05_ideal_is_prefix.

(* ... and it is complete: with working writes and deadlines it is everything read up to and
   INCLUDING the read that returned the error. *)
Theorem C05_ideal_complete :
  forall r w d, first_fail d = None -> writes_ok (map fst (upto_err r)) w ->
    ideal r w d = all_data (upto_err r).
Proof. exact ideal_complete. Qed.
Print Assumptions C05_ideal_complete.

Theorem C05_counts_equal_delivered :
  forall r w d cdst csrc closer_first,
    out_counted (half_pipe_full r w d cdst csrc closer_first) =
    N.of_nat (length (out_delivered (half_pipe_full r w d cdst csrc closer_first))).
Proof. exact counts_equal_delivered. Qed.
Print Assumptions C05_counts_equal_delivered.

Theorem C05_half_pipe_closes_both :
  forall r w d cdst csrc closer_first,
    closed_src (half_pipe_full r w d cdst csrc closer_first) = true /\
    closed_dst (half_pipe_full r w d cdst csrc closer_first) = true.
Proof. exact torn_down_seq. Qed.
Print Assumptions C05_half_pipe_closes_both.
