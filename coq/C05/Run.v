(* C05: evaluation of the model on recorded cases (correspondence check). *)
From CJ Require Import Common.Base C05.Model C05.ModelTcp C05.ModelProxy.

(* error kinds as small numbers: 0 none, 1 eof, 2 reset, 3 pipe, 4 timeout, 5 closed, 6 refused,
   7 aborted, 8 unreach, 9 short, 10+n other n *)
Definition dec_err (n : N) : option gerr :=
  match n with
  | 0 => None | 1 => Some EOF | 2 => Some Reset | 3 => Some Pipe | 4 => Some Timeout | 5 => Some Closed
  | 6 => Some Refused | 7 => Some Aborted | 8 => Some Unreach | 9 => Some Short
  | _ => Some (Other (n - 10))
  end.
Definition enc_err (e : option gerr) : N :=
  match e with
  | None => 0 | Some EOF => 1 | Some Reset => 2 | Some Pipe => 3 | Some Timeout => 4 | Some Closed => 5
  | Some Refused => 6 | Some Aborted => 7 | Some Unreach => 8 | Some Short => 9 | Some (Other n) => 10 + n
  end.

(* a thread script as the driver writes it *)
Definition ts_spec := (list (bspec * N) * list (N * N) * list N * N * N * bool)%type.
Definition dec_ts (s : ts_spec) : tscript :=
  let '(rs, ws, ds, cd, cs, blk) := s in
  {| t_reads := map (fun x => (bspec_val (fst x), dec_err (snd x))) rs;
     t_writes := map (fun x => (N.to_nat (fst x), dec_err (snd x))) ws;
     t_dls := map dec_err ds; t_cdst := dec_err cd; t_csrc := dec_err cs; t_csrc_blocks := blk |}.

(* observed: delivered, counted, read-side error field, write-side error field, reads, writes, deadlines *)
Definition hobs := (bspec * N * N * N * N * N * N)%type.

(* half mode: closer_first says whether the source closer's Close ran before Close(dst) *)
Definition chk_half (c : ts_spec * bool * hobs) : bool :=
  let '(s, cf, o) := c in
  let t := dec_ts s in
  let out := half_pipe_full (t_reads t) (t_writes t) (t_dls t) (t_cdst t) (if t_csrc_blocks t then None else t_csrc t) cf in
  let '(dv, cnt, re, we, nr, nw, nd) := o in
  bspec_matches dv (out_delivered out) && (out_counted out =? cnt) &&
  (enc_err (out_rd_err out) =? re) && (enc_err (out_wr_err out) =? we) &&
  (N.of_nat (out_reads out) =? nr) && (N.of_nat (out_writes out) =? nw) && (N.of_nat (out_dls out) =? nd) &&
  closed_src out && closed_dst out.

Definition dec_tid (n : N) : tid :=
  match n with 0 => TUp | 1 => TDown | 2 => TUpCl | 3 => TDownCl | _ => TMain end.

(* pair mode: observed recvA recvB bytesUp bytesDown clientErr covertErr ncloseA ncloseB
   (up reads, writes, dls) (down reads, writes, dls) *)
Definition pobs := (bspec * bspec * N * N * N * N * N * N * (N * N * N) * (N * N * N) * N)%type.

Definition final_cfg (su sd : tscript) (sched : list N) : cfg :=
  let c0 := init_cfg 0 su sd in
  let c1 := run c0 (map dec_tid sched) in
  run c1 (round_robin (measure c1)).

Definition chk_pair (c : ts_spec * ts_spec * list N * pobs) : bool :=
  let '(su, sd, sched, o) := c in
  let f := final_cfg (dec_ts su) (dec_ts sd) sched in
  let '(ra, rb, bu, bd, ce, ve, na, nb, (ur, uw, ud), (dr, dw, dd), nblk) := o in
  let ua := th_acc (up f) in let da := th_acc (down f) in
  finished f &&
  bspec_matches ra (delivered da) && bspec_matches rb (delivered ua) &&
  (counted ua =? bu) && (counted da =? bd) &&
  (enc_err (client_err f) =? ce) && (enc_err (covert_err f) =? ve) &&
  (* the driver plays the caller itself and does not make Proxy's final covertConn.Close() *)
  (N.of_nat (ncloseA f) =? na) && (N.of_nat (ncloseB f) =? nb + 1) &&
  (N.of_nat (n_reads ua) =? ur) && (N.of_nat (n_writes ua) =? uw) && (N.of_nat (n_dls ua) =? ud) &&
  (N.of_nat (n_reads da) =? dr) && (N.of_nat (n_writes da) =? dw) && (N.of_nat (n_dls da) =? dd) &&
  closedA f && closedB f && (Nat.eqb (wg f) 0) && (gauge f =? 0)%Z &&
  (* goroutines still alive after everything returned = closers inside a Close that blocks *)
  ((match clU f with CBlocked => 1 | _ => 0 end) + (match clD f with CBlocked => 1 | _ => 0 end) =? nblk).

(* real-TCP lane: both connections are *net.TCPConn.  Whatever the peers do, the model (for kinds
   KTcp, KTcp; the peers' behaviour is abstracted by "every call eventually returns") ends with the
   caller returned and a full SetLinger+Close sequence on both connections.
   observed: the kinds the driver saw, Proxy returned, each reading peer saw its connection closed *)
Definition empty_ts : tscript :=
  {| t_reads := []; t_writes := []; t_dls := []; t_cdst := None; t_csrc := None; t_csrc_blocks := false |}.
Definition chk_tcp (c : bool * bool * bool * bool * bool) : bool :=
  let '(ka_tcp, kb_tcp, returned, closed_a, closed_b) := c in
  let k := fun b : bool => if b then KTcp else KOther in
  let c0 := init_cfg_k (k ka_tcp) (k kb_tcp) 0 empty_ts empty_ts in
  let f := run c0 (round_robin (measure c0)) in
  finished f && Bool.eqb (match main f with MDone => true | _ => false end) returned &&
  Bool.eqb (closedA f && existsb (fun o => match o with CClose => true | _ => false end) (opsA f)) closed_a &&
  Bool.eqb (closedB f && existsb (fun o => match o with CClose => true | _ => false end) (opsB f)) closed_b &&
  (if ka_tcp then match opsA f with CSetLinger _ :: CClose :: _ => true | _ => false end else true) &&
  (if kb_tcp then match opsB f with CSetLinger _ :: CClose :: _ => true | _ => false end else true).

(* ---- fourth wave: the shutdown calls AND their arguments, read back from the sockets themselves.
   A probe is what the driver read from one of the station's sockets through a duplicate descriptor
   after Proxy returned: (found, SO_LINGER on, SO_LINGER seconds, shutdown(SHUT_WR) seen,
   shutdown(SHUT_RD) seen, the station's own descriptor is closed).  The model's prediction is its
   own shutdown-call log of that connection, executed on the socket model. *)
Definition sprobe := (bool * bool * N * bool * bool * bool)%type.
Definition chk_probe (ops : list cop) (p : sprobe) : bool :=
  let '(found, on, secs, swr, srd, oc) := p in
  let f := srun sock0 (ops_events ops) in
  found && Bool.eqb (s_fd_closed f) oc &&
  (match s_linger f with None => negb on | Some l => on && (N.of_nat l =? secs) end) &&
  Bool.eqb (s_wr_shut_call f) swr && Bool.eqb (s_rd_shut f) srd.

Definition tcp_final : cfg :=
  let c0 := init_cfg_k KTcp KTcp 0 empty_ts empty_ts in run c0 (round_robin (measure c0)).

Definition chk_tcp_ops (c : sprobe * sprobe) : bool :=
  let '(pa, pb) := c in
  finished tcp_final && chk_probe (opsA tcp_final) pa && chk_probe (opsB tcp_final) pb.

(* the slow-but-complete reader: [sent] bytes went in at one side, the peer at the other side got
   [got], the tunnel reports [counted], the peer's stream ended with EOF or not, and the peer needed
   [ms] milliseconds from the sender's end of stream to its own.  The model is executed on the
   same run in units of 64 KiB: the station writes everything, the relay's shutdown-call log of the
   destination socket follows, whole seconds pass, the peer takes the rest.  Where the model says
   "everything arrives, then EOF" the observation must say the same. *)
Definition chk_tcp_slow (c : bool * N * N * N * bool * N) : bool :=
  let '(upward, sent, got, counted, eof, ms) := c in
  let units := N.to_nat (sent / 65536 + 1) in
  let secs := N.to_nat (ms / 1000) in
  let ops := if upward then opsB tcp_final else opsA tcp_final in
  let f := srun sock0 ([Op (SWrite (repeat 0 units))] ++ ops_events ops ++ repeat Tick secs ++ [Deliver units]) in
  match s_ph f with
  | Ended PEof => if Nat.eqb (length (s_got f)) units then (got =? sent) && (counted =? sent) && eof else true
  | _ => true
  end.

(* ---- tunnels in sequence through the real Proxy(): kinds 0 normal (the client hands over [ups] and stays silent,
   the covert destination sends [downs] and ends its stream once it has everything), 1 dial fails (refused),
   2 PROXY header cannot be written, 3 a direction leaves through a failing SetDeadline.
   observed per tunnel: exit (0 relayed and summary printed, 1 dial error in the summary, 2 returned without summary),
   bytes the covert / the client received, BytesUp, BytesDown, Proxy closed the client connection, summary printed,
   whether the byte-level outcome is schedule-independent (compared) and the deltas of the process-wide ProxyStats
   (newUp, newDown, completeUp, completeDown, zeroUp, zeroDown, completedSessions) *)
Definition seq_tun := (N * list bspec * list bspec)%type.
Definition seq_obs := (N * bspec * bspec * N * N * bool * bool * bool * (N * N * N * N * N * N * N))%type.

Definition mk_script (chunks : list bytes) (final : option gerr) (dls : dscript) : tscript :=
  {| t_reads := map (fun c => (c, None)) chunks ++ (match final with Some e => [([], Some e)] | None => [] end);
     t_writes := []; t_dls := dls; t_cdst := None; t_csrc := None; t_csrc_blocks := false |}.

Definition mk_pin (t : seq_tun) : pin :=
  let '(k, ups, downs) := t in
  let u := map bspec_val ups in let d := map bspec_val downs in
  match k with
  | 1 => {| p_dial := Some Refused; p_hdr := HNone; p_ka := KOther; p_up := empty_ts; p_down := empty_ts; p_sched := [] |}
  | 2 => {| p_dial := None; p_hdr := HFail; p_ka := KOther; p_up := empty_ts; p_down := empty_ts; p_sched := [] |}
  | 3 => {| p_dial := None; p_hdr := HNone; p_ka := KOther; p_up := mk_script [] None [Some (Other 3)];
            p_down := empty_ts; p_sched := [] |}
  | _ => (* the upload direction forwards all its chunks and waits in Read; the download direction forwards its
            chunks, meets the end of stream and tears the tunnel down; then everything runs to the end *)
         {| p_dial := None; p_hdr := HNone; p_ka := KOther; p_up := mk_script u None []; p_down := mk_script d (Some EOF) [];
            p_sched := repeat TUp (2 + 4 * length u) ++ repeat TDown (2 + 4 * length d + 2) |}
  end.

Definition exit_code (x : pexit) : N :=
  match x with XRelayed => 0 | XDialFailed _ => 1 | XHeaderFailed => 2 | XDialNil => 3 end.

Definition chk_seq_one (pi : pin) (o : pout) (ob : seq_obs) : bool :=
  let '(ex, cg, kg, bu, bd, closed, printed, cmp, (nu, nd, cu, cd, zu, zd, cs)) := ob in
  let g1 := fst (proxy pstats0 pi) in
  (exit_code (x_exit o) =? ex) && Bool.eqb (x_client_closed o) closed && Bool.eqb (x_printed o) printed &&
  (ps_completed g1 =? cs) &&
  (if cmp then
     bspec_matches cg (x_up o) && bspec_matches kg (x_down o) && (x_bytes_up o =? bu) && (x_bytes_down o =? bd) &&
     (ps_new_up g1 =? nu) && (ps_new_down g1 =? nd) && (ps_compl_up g1 =? cu) && (ps_compl_down g1 =? cd) &&
     (ps_zero_up g1 =? zu) && (ps_zero_down g1 =? zd)
   else true).

Fixpoint chk_seq_all (pis : list pin) (outs : list pout) (obs : list seq_obs) : bool :=
  match pis, outs, obs with
  | [], [], [] => true
  | pi :: pis', o :: outs', ob :: obs' => chk_seq_one pi o ob && chk_seq_all pis' outs' obs'
  | _, _, _ => false
  end.

Definition chk_seq (c : list (seq_tun * seq_obs)) : bool :=
  let pis := map (fun x => mk_pin (fst x)) c in
  let '(g, outs) := proxy_seq pstats0 pis in
  (ps_sessions g =? 0)%Z && chk_seq_all pis outs (map snd c).

Inductive ccase :=
  | CHalf (c : ts_spec * bool * hobs)
  | CPair (c : ts_spec * ts_spec * list N * pobs)
  | CTcp (c : bool * bool * bool * bool * bool)
  | CTcpOps (c : sprobe * sprobe)
  | CTcpSlow (c : bool * N * N * N * bool * N)
  | CSeq (c : list (seq_tun * seq_obs)).
Definition chk (c : ccase) : bool :=
  match c with CHalf x => chk_half x | CPair x => chk_pair x | CTcp x => chk_tcp x
             | CTcpOps x => chk_tcp_ops x | CTcpSlow x => chk_tcp_slow x | CSeq x => chk_seq x end.
