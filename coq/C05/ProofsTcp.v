(* C05 — proofs about the socket model (send queue, close mode) and its composition with the relay. *)
From CJ Require Import Common.Base C05.Model C05.Proofs C05.Sched C05.ModelTcp.
From Coq Require Import Lia.

Lemma srun_app s a b : srun s (a ++ b) = srun (srun s a) b.
Proof. unfold srun. apply fold_left_app. Qed.

Lemma srun_cons s e es : srun s (e :: es) = srun (sstep s e) es.
Proof. reflexivity. Qed.

(* ---- once the peer's stream has its end nothing changes it any more *)
Lemma ended_step s e x : s_ph s = Ended e -> s_ph (sstep s x) = Ended e /\ s_got (sstep s x) = s_got s.
Proof.
  destruct s as [ph q got l c r w]. cbn [s_ph]. intros ->.
  destruct x as [o| n |]; cbn; auto.
  unfold sop_step. cbn. destruct c; cbn; auto. destruct o; cbn; auto.
Qed.

Lemma ended_stable es : forall s e, s_ph s = Ended e ->
  s_ph (srun s es) = Ended e /\ s_got (srun s es) = s_got s.
Proof.
  induction es as [|x es IH]; intros s e H; [auto|].
  rewrite srun_cons. destruct (ended_step s e x H) as [H1 H2].
  destruct (IH _ _ H1) as [H3 H4]. rewrite H3, H4, H2. auto.
Qed.

(* ---- a closed descriptor ignores every call *)
Lemma closed_sop s o : s_fd_closed s = true -> sop_step s o = s.
Proof. unfold sop_step. intros ->. reflexivity. Qed.

Lemma closed_ops_noop ops : forall s, s_fd_closed s = true -> srun s (map Op ops) = s.
Proof.
  induction ops as [|o ops IH]; intros s H; [reflexivity|].
  cbn [map]. rewrite srun_cons. cbn [sstep]. rewrite closed_sop by exact H. apply IH, H.
Qed.

(* ---- the open phase: nothing is lost, nothing is shut *)
Lemma open_run pre : forall s,
  no_shutdown pre = true -> s_ph s = Open -> s_fd_closed s = false ->
  let f := srun s pre in
  s_ph f = Open /\ s_fd_closed f = false /\ s_got f ++ s_q f = s_got s ++ s_q s ++ written pre.
Proof.
  induction pre as [|x pre IH]; intros s N P C; cbn zeta.
  - cbn. rewrite app_nil_r. auto.
  - rewrite srun_cons. destruct s as [ph q got l c r w]. cbn [s_ph s_fd_closed] in P, C. subst ph c.
    destruct x as [o| n |].
    + destruct o; cbn [no_shutdown] in N; try discriminate.
      * specialize (IH (sstep {| s_ph := Open; s_q := q; s_got := got; s_linger := l; s_fd_closed := false;
                                 s_rd_shut := r; s_wr_shut_call := w |} (Op (SWrite b))) N eq_refl eq_refl).
        cbn zeta in IH. destruct IH as (A & B & D). split; [exact A|]. split; [exact B|].
        rewrite D. cbn. rewrite <- !app_assoc. reflexivity.
      * specialize (IH (sstep {| s_ph := Open; s_q := q; s_got := got; s_linger := l; s_fd_closed := false;
                                 s_rd_shut := r; s_wr_shut_call := w |} (Op (SSetLinger l0))) N eq_refl eq_refl).
        cbn zeta in IH. destruct IH as (A & B & D). split; [exact A|]. split; [exact B|].
        rewrite D. reflexivity.
    + cbn [no_shutdown] in N.
      assert (E : sstep {| s_ph := Open; s_q := q; s_got := got; s_linger := l; s_fd_closed := false;
                           s_rd_shut := r; s_wr_shut_call := w |} (Deliver n) =
                  {| s_ph := Open; s_q := skipn n q; s_got := got ++ firstn n q; s_linger := l; s_fd_closed := false;
                     s_rd_shut := r; s_wr_shut_call := w |}).
      { cbn. unfold settle, move. cbn. destruct (skipn n q); reflexivity. }
      rewrite E.
      specialize (IH {| s_ph := Open; s_q := skipn n q; s_got := got ++ firstn n q; s_linger := l; s_fd_closed := false;
                        s_rd_shut := r; s_wr_shut_call := w |} N eq_refl eq_refl).
      cbn zeta in IH. destruct IH as (A & B & D).
      split; [exact A|]. split; [exact B|]. rewrite D. cbn [s_got s_q].
      rewrite <- (firstn_skipn n q) at 3. rewrite <- !app_assoc. reflexivity.
    + cbn [no_shutdown] in N. cbn [sstep s_ph].
      specialize (IH {| s_ph := Open; s_q := q; s_got := got; s_linger := l; s_fd_closed := false;
                        s_rd_shut := r; s_wr_shut_call := w |} N eq_refl eq_refl). cbn zeta in IH. exact IH.
Qed.

(* ---- lingering: the queue reaches the peer if it is drained before the linger time is over *)
Lemma skipn_length_pos {A} n (q : list A) : (n < length q)%nat -> skipn n q <> [].
Proof.
  intros H E. assert (L : length (skipn n q) = (length q - n)%nat) by apply skipn_length.
  rewrite E in L. cbn in L. lia.
Qed.

Lemma linger_drains es : forall s t,
  s_ph s = Lingering (S t) -> s_fd_closed s = true -> s_q s <> [] ->
  drained_before es (S t) (length (s_q s)) = true ->
  s_got (srun s es) = s_got s ++ s_q s /\ s_ph (srun s es) = Ended PEof.
Proof.
  induction es as [|x es IH]; intros s t P C Q D.
  - destruct (s_q s) as [|b q]; [congruence|]. cbn in D. discriminate.
  - destruct s as [ph q got l c r w]. cbn [s_ph s_fd_closed s_q s_got] in *. subst ph c.
    destruct q as [|b0 q0] eqn:Eq; [congruence|]. rewrite <- Eq in *. 
    assert (Lq : (0 < length q)%nat) by (rewrite Eq; cbn; lia).
    rewrite srun_cons.
    destruct x as [o| n |].
    + (* a call on the closed descriptor *)
      cbn [sstep]. rewrite closed_sop by reflexivity.
      apply (IH {| s_ph := Lingering (S t); s_q := q; s_got := got; s_linger := l; s_fd_closed := true;
                   s_rd_shut := r; s_wr_shut_call := w |} t); cbn [s_ph s_fd_closed s_q]; auto.
      destruct (length q) eqn:L; [lia|]. cbn [drained_before] in D. exact D.
    + destruct (length q) eqn:L; [lia|]. cbn [drained_before] in D. rewrite <- L in *.
      destruct (Nat.ltb n (length q)) eqn:Lt.
      * apply Nat.ltb_lt in Lt.
        assert (NE : skipn n q <> []) by (apply skipn_length_pos; exact Lt).
        assert (E : sstep {| s_ph := Lingering (S t); s_q := q; s_got := got; s_linger := l; s_fd_closed := true;
                             s_rd_shut := r; s_wr_shut_call := w |} (Deliver n) =
                    {| s_ph := Lingering (S t); s_q := skipn n q; s_got := got ++ firstn n q; s_linger := l;
                       s_fd_closed := true; s_rd_shut := r; s_wr_shut_call := w |}).
        { cbn. unfold settle, move. cbn. destruct (skipn n q); [congruence|reflexivity]. }
        rewrite E.
        destruct (IH {| s_ph := Lingering (S t); s_q := skipn n q; s_got := got ++ firstn n q; s_linger := l;
                        s_fd_closed := true; s_rd_shut := r; s_wr_shut_call := w |} t eq_refl eq_refl NE) as [G1 G2].
        { cbn [s_q]. rewrite skipn_length. exact D. }
        cbn [s_got s_q] in G1. rewrite G1, G2. split; [|reflexivity].
        rewrite <- app_assoc, firstn_skipn. reflexivity.
      * apply Nat.ltb_ge in Lt.
        assert (E : sstep {| s_ph := Lingering (S t); s_q := q; s_got := got; s_linger := l; s_fd_closed := true;
                             s_rd_shut := r; s_wr_shut_call := w |} (Deliver n) =
                    {| s_ph := Ended PEof; s_q := []; s_got := got ++ q; s_linger := l;
                       s_fd_closed := true; s_rd_shut := r; s_wr_shut_call := w |}).
        { cbn. unfold settle, move. cbn. rewrite skipn_all2 by exact Lt. rewrite firstn_all2 by exact Lt. reflexivity. }
        rewrite E. match goal with |- context [srun ?s0 es] => destruct (ended_stable es s0 PEof eq_refl) as [G1 G2] end.
        rewrite G1, G2. auto.
    + destruct (length q) eqn:L; [lia|]. cbn [drained_before] in D. rewrite <- L in *.
      destruct t as [|t']; [discriminate|].
      cbn [sstep s_ph]. unfold with_ph. cbn [s_q s_got s_linger s_fd_closed s_rd_shut s_wr_shut_call].
      apply (IH {| s_ph := Lingering (S t'); s_q := q; s_got := got; s_linger := l; s_fd_closed := true;
                   s_rd_shut := r; s_wr_shut_call := w |} t'); cbn [s_ph s_fd_closed s_q]; auto.
Qed.

(* ---- the pinned close sequence SetLinger(l > 0); Close *)
Lemma linger_close_from_open s l es :
  s_ph s = Open -> s_fd_closed s = false ->
  drained_before es (S l) (length (s_q s)) = true ->
  let f := srun s ([Op (SSetLinger (S l)); Op SClose] ++ es) in
  s_got f = s_got s ++ s_q s /\ s_ph f = Ended PEof.
Proof.
  intros P C D. cbn zeta. destruct s as [ph q got l0 c r w]. cbn [s_ph s_fd_closed s_q s_got] in *. subst ph c.
  cbn [app]. rewrite !srun_cons.
  destruct q as [|b q'] eqn:Eq.
  - assert (E : sstep (sstep {| s_ph := Open; s_q := []; s_got := got; s_linger := l0; s_fd_closed := false;
                               s_rd_shut := r; s_wr_shut_call := w |} (Op (SSetLinger (S l)))) (Op SClose) =
                {| s_ph := Ended PEof; s_q := []; s_got := got; s_linger := Some (S l); s_fd_closed := true;
                   s_rd_shut := r; s_wr_shut_call := w |}) by reflexivity.
    rewrite E. match goal with |- context [srun ?s0 es] => destruct (ended_stable es s0 PEof eq_refl) as [G1 G2] end. rewrite G1, G2. rewrite app_nil_r. auto.
  - assert (E : sstep (sstep {| s_ph := Open; s_q := b :: q'; s_got := got; s_linger := l0; s_fd_closed := false;
                               s_rd_shut := r; s_wr_shut_call := w |} (Op (SSetLinger (S l)))) (Op SClose) =
                {| s_ph := Lingering (S l); s_q := b :: q'; s_got := got; s_linger := Some (S l); s_fd_closed := true;
                   s_rd_shut := r; s_wr_shut_call := w |}) by reflexivity.
    rewrite E.
    apply (linger_drains es {| s_ph := Lingering (S l); s_q := b :: q'; s_got := got; s_linger := Some (S l); s_fd_closed := true;
                               s_rd_shut := r; s_wr_shut_call := w |} l); cbn [s_ph s_fd_closed s_q]; auto. discriminate.
Qed.

Lemma tcp_linger_close_delivers_all l pre es :
  no_shutdown pre = true ->
  drained_before es (S l) (length (s_q (srun sock0 pre))) = true ->
  let f := srun sock0 (pre ++ [Op (SSetLinger (S l)); Op SClose] ++ es) in
  s_got f = written pre /\ s_ph f = Ended PEof.
Proof.
  intros N D. cbn zeta. rewrite srun_app.
  destruct (open_run pre sock0 N eq_refl eq_refl) as (P & C & G). cbn [sock0 s_got s_q app] in G.
  destruct (linger_close_from_open (srun sock0 pre) l es P C D) as [G1 G2].
  split; [|exact G2]. rewrite G1. exact G.
Qed.

(* ---- the variant SetLinger(0); Close: whatever is queued is thrown away, and the peer never
   sees an end of stream *)
Lemma tcp_linger0_close_discards pre es :
  no_shutdown pre = true ->
  let s1 := srun sock0 pre in
  let f := srun sock0 (pre ++ [Op (SSetLinger 0); Op SClose] ++ es) in
  s_got f = s_got s1 /\ s_ph f = Ended PReset /\ written pre = s_got f ++ s_q s1.
Proof.
  intros N. cbn zeta. rewrite srun_app.
  destruct (open_run pre sock0 N eq_refl eq_refl) as (P & C & G). cbn [sock0 s_got s_q app] in G.
  destruct (srun sock0 pre) as [ph q got l0 c r w]. cbn [s_ph s_fd_closed s_q s_got] in *. subst ph c.
  cbn [app]. rewrite !srun_cons.
  assert (E : sstep (sstep {| s_ph := Open; s_q := q; s_got := got; s_linger := l0; s_fd_closed := false;
                             s_rd_shut := r; s_wr_shut_call := w |} (Op (SSetLinger 0))) (Op SClose) =
              {| s_ph := Ended PReset; s_q := []; s_got := got; s_linger := Some O; s_fd_closed := true;
                 s_rd_shut := r; s_wr_shut_call := w |}) by reflexivity.
  rewrite E. match goal with |- context [srun ?s0 es] => destruct (ended_stable es s0 PReset eq_refl) as [G1 G2] end. rewrite G1, G2. cbn [s_got].
  repeat split; auto.
Qed.

(* ---- CloseWrite: the queue is delivered, then FIN; no time limit *)
Lemma wrshut_drains es : forall s,
  s_ph s = WrShut -> s_q s <> [] -> env_only es = true ->
  (length (s_q s) <= delivered_total es)%nat ->
  s_got (srun s es) = s_got s ++ s_q s /\ s_ph (srun s es) = Ended PEof.
Proof.
  induction es as [|x es IH]; intros s P Q E D.
  - cbn in D. destruct (s_q s); [congruence|cbn in D; lia].
  - destruct s as [ph q got l c r w]. cbn [s_ph s_q s_got] in *. subst ph.
    rewrite srun_cons. destruct x as [o| n |]; cbn [env_only] in E; [discriminate| |].
    + cbn [delivered_total] in D. destruct (Nat.ltb n (length q)) eqn:Lt.
      * apply Nat.ltb_lt in Lt.
        assert (NE : skipn n q <> []) by (apply skipn_length_pos; exact Lt).
        assert (E1 : sstep {| s_ph := WrShut; s_q := q; s_got := got; s_linger := l; s_fd_closed := c;
                              s_rd_shut := r; s_wr_shut_call := w |} (Deliver n) =
                     {| s_ph := WrShut; s_q := skipn n q; s_got := got ++ firstn n q; s_linger := l;
                        s_fd_closed := c; s_rd_shut := r; s_wr_shut_call := w |}).
        { cbn. unfold settle, move. cbn. destruct (skipn n q); [congruence|reflexivity]. }
        rewrite E1.
        destruct (IH {| s_ph := WrShut; s_q := skipn n q; s_got := got ++ firstn n q; s_linger := l;
                        s_fd_closed := c; s_rd_shut := r; s_wr_shut_call := w |} eq_refl NE E) as [G1 G2].
        { cbn [s_q]. rewrite skipn_length. lia. }
        cbn [s_got s_q] in G1. rewrite G1, G2. split; [|reflexivity].
        rewrite <- app_assoc, firstn_skipn. reflexivity.
      * apply Nat.ltb_ge in Lt.
        assert (E1 : sstep {| s_ph := WrShut; s_q := q; s_got := got; s_linger := l; s_fd_closed := c;
                              s_rd_shut := r; s_wr_shut_call := w |} (Deliver n) =
                     {| s_ph := Ended PEof; s_q := []; s_got := got ++ q; s_linger := l;
                        s_fd_closed := c; s_rd_shut := r; s_wr_shut_call := w |}).
        { cbn. unfold settle, move. cbn. rewrite skipn_all2 by exact Lt. rewrite firstn_all2 by exact Lt. reflexivity. }
        rewrite E1. match goal with |- context [srun ?s0 es] => destruct (ended_stable es s0 PEof eq_refl) as [G1 G2] end. rewrite G1, G2. auto.
    + cbn [delivered_total] in D. cbn [sstep s_ph]. apply IH; auto.
Qed.

Lemma env_keeps_fd : forall es s, env_only es = true -> s_fd_closed (srun s es) = s_fd_closed s.
Proof.
  induction es as [|x es IH]; intros s E; [reflexivity|]. rewrite srun_cons.
  destruct x as [o|n|]; cbn [env_only] in E; [discriminate| |]; rewrite IH by exact E;
    destruct s as [ph q got l c r w].
  - destruct ph; cbn; unfold settle, move; cbn; destruct (skipn n q); reflexivity.
  - destruct ph as [| |[|[|t]]| |]; reflexivity.
Qed.

Lemma tcp_closewrite_delivers_all pre es :
  no_shutdown pre = true -> env_only es = true ->
  (length (s_q (srun sock0 pre)) <= delivered_total es)%nat ->
  let f := srun sock0 (pre ++ [Op SCloseWrite] ++ es) in
  s_got f = written pre /\ s_ph f = Ended PEof /\ s_fd_closed f = false.
Proof.
  intros N E D. cbn zeta. rewrite srun_app.
  destruct (open_run pre sock0 N eq_refl eq_refl) as (P & C & G). cbn [sock0 s_got s_q app] in G.
  destruct (srun sock0 pre) as [ph q got l0 c r w]. cbn [s_ph s_fd_closed s_q s_got] in *. subst ph c.
  cbn [app]. rewrite srun_cons.
  destruct q as [|b q'] eqn:Eq.
  - assert (E1 : sstep {| s_ph := Open; s_q := []; s_got := got; s_linger := l0; s_fd_closed := false;
                          s_rd_shut := r; s_wr_shut_call := w |} (Op SCloseWrite) =
                 {| s_ph := Ended PEof; s_q := []; s_got := got; s_linger := l0; s_fd_closed := false;
                    s_rd_shut := r; s_wr_shut_call := true |}) by reflexivity.
    rewrite E1. rewrite app_nil_r in G. subst got.
    pose proof env_keeps_fd as K.
    destruct (ended_stable es {| s_ph := Ended PEof; s_q := []; s_got := written pre; s_linger := l0; s_fd_closed := false;
                                 s_rd_shut := r; s_wr_shut_call := true |} PEof eq_refl) as [G1 G2].
    rewrite G1, G2, K by exact E. auto.
  - assert (E1 : sstep {| s_ph := Open; s_q := b :: q'; s_got := got; s_linger := l0; s_fd_closed := false;
                          s_rd_shut := r; s_wr_shut_call := w |} (Op SCloseWrite) =
                 {| s_ph := WrShut; s_q := b :: q'; s_got := got; s_linger := l0; s_fd_closed := false;
                    s_rd_shut := r; s_wr_shut_call := true |}) by reflexivity.
    rewrite E1.
    pose proof env_keeps_fd as K.
    destruct (wrshut_drains es {| s_ph := WrShut; s_q := b :: q'; s_got := got; s_linger := l0; s_fd_closed := false;
                                  s_rd_shut := r; s_wr_shut_call := true |} eq_refl) as [G1 G2]; auto; try discriminate.
    rewrite G1, G2, K by exact E. cbn [s_got s_q s_fd_closed]. rewrite G. auto.
Qed.

(* ---- composition with the relay: what the relay's shutdown-call log does to a TCP socket *)

(* n >= 1 whole closeConn sequences are one: every later call hits a closed descriptor *)
Lemma repeated_close_ops n s :
  srun s (ops_events (concat (repeat (close_ops KTcp) (S n)))) =
  srun s [Op (SSetLinger linger_secs); Op SClose].
Proof.
  unfold ops_events. cbn [repeat concat]. rewrite map_app. rewrite srun_app.
  change (map (fun o : cop => Op (sop_of_cop o)) (close_ops KTcp)) with [Op (SSetLinger linger_secs); Op SClose].
  set (s1 := srun s [Op (SSetLinger linger_secs); Op SClose]).
  assert (C : s_fd_closed s1 = true).
  { unfold s1. cbn. unfold sop_step. destruct (s_fd_closed s) eqn:E; cbn; [rewrite E; cbn; exact E|].
    unfold with_linger; cbn. rewrite E. cbn. destruct (s_ph s); cbn; try reflexivity; unfold settle; cbn;
      destruct (s_q s); reflexivity. }
  rewrite <- (map_map sop_of_cop Op). apply closed_ops_noop. exact C.
Qed.

(* The upload direction of a finished relay whose covert connection is a TCP socket: the bytes the
   relay delivered (= wrote = counted, theorem relay_delivers) all reach a covert peer that drains
   the socket within the linger time, followed by a clean end of stream.  [pre] is any history of
   the socket before the teardown in which the station wrote exactly those bytes. *)
Lemma relay_tcp_covert_peer_gets_counted ka g0 su sd s pre es :
  let c := run (init_cfg_k ka KTcp g0 su sd) s in
  finished c = true ->
  no_shutdown pre = true -> written pre = delivered (th_acc (up c)) ->
  drained_before es linger_secs (length (s_q (srun sock0 pre))) = true ->
  let f := srun sock0 (pre ++ ops_events (opsB c) ++ es) in
  s_got f = delivered (th_acc (up c)) /\
  N.of_nat (length (s_got f)) = counted (th_acc (up c)) /\
  s_ph f = Ended PEof.
Proof.
  intros c F N W D. cbn zeta.
  destruct (relay_torn_down_every_kind ka KTcp g0 su sd s F) as (_ & _ & _ & _ & _ & _ & _ & _ & InB & _ & OB).
  fold c in InB, OB.
  assert (exists n, ncloseB c = S n) as [n En].
  { destruct (ncloseB c) as [|n]; [|eauto]. rewrite OB in InB. cbn in InB. contradiction. }
  rewrite En in OB.
  rewrite !srun_app. rewrite OB, repeated_close_ops. rewrite <- !srun_app.
  destruct (tcp_linger_close_delivers_all 9%nat pre es N D) as [G1 G2].
  change (S 9%nat) with linger_secs in G1, G2.
  cbn zeta in G1, G2. rewrite G1, G2. rewrite W. split; [reflexivity|]. split; [|reflexivity].
  pose proof (inv_run g0 s _ (inv_init_k ka KTcp g0 su sd)) as I. fold c in I.
  pose proof (i_au _ _ I) as Cu. unfold acc_ok in Cu. symmetry. exact Cu.
Qed.

(* the mirror image: the download direction and a client connection that is a TCP socket *)
Lemma relay_tcp_client_peer_gets_counted kb g0 su sd s pre es :
  let c := run (init_cfg_k KTcp kb g0 su sd) s in
  finished c = true ->
  no_shutdown pre = true -> written pre = delivered (th_acc (down c)) ->
  drained_before es linger_secs (length (s_q (srun sock0 pre))) = true ->
  let f := srun sock0 (pre ++ ops_events (opsA c) ++ es) in
  s_got f = delivered (th_acc (down c)) /\
  N.of_nat (length (s_got f)) = counted (th_acc (down c)) /\
  s_ph f = Ended PEof.
Proof.
  intros c F N W D. cbn zeta.
  destruct (relay_torn_down_every_kind KTcp kb g0 su sd s F) as (_ & _ & _ & _ & _ & _ & _ & InA & _ & OA & _).
  fold c in InA, OA.
  assert (exists n, ncloseA c = S n) as [n En].
  { destruct (ncloseA c) as [|n]; [|eauto]. rewrite OA in InA. cbn in InA. contradiction. }
  rewrite En in OA.
  rewrite !srun_app. rewrite OA, repeated_close_ops. rewrite <- !srun_app.
  destruct (tcp_linger_close_delivers_all 9%nat pre es N D) as [G1 G2].
  change (S 9%nat) with linger_secs in G1, G2.
  cbn zeta in G1, G2. rewrite G1, G2. rewrite W. split; [reflexivity|]. split; [|reflexivity].
  pose proof (inv_run g0 s _ (inv_init_k KTcp kb g0 su sd)) as I. fold c in I.
  pose proof (i_ad _ _ I) as Cd. unfold acc_ok in Cd. symmetry. exact Cd.
Qed.

(* had closeConn set the linger time to 0, the same relay run would lose whatever is still queued
   and no peer would ever see an end of stream: the variant is refuted for every run *)
Lemma linger0_variant_refuted pre es :
  no_shutdown pre = true -> s_q (srun sock0 pre) <> [] ->
  let f := srun sock0 (pre ++ ops_events [CSetLinger 0; CClose] ++ es) in
  s_got f <> written pre /\ s_ph f = Ended PReset.
Proof.
  intros N Q. cbn zeta.
  destruct (tcp_linger0_close_discards pre es N) as (G1 & G2 & G3).
  change (ops_events [CSetLinger 0; CClose]) with [Op (SSetLinger 0); Op SClose].
  split; [|exact G2]. intros E. rewrite G3 in E. rewrite G1 in E.
  rewrite <- (app_nil_r (s_got (srun sock0 pre))) in E at 1.
  apply app_inv_head in E. symmetry in E. contradiction.
Qed.
