(* C05 — proofs about the two-direction relay under an arbitrary scheduler. *)
From CJ Require Import Common.Base C05.Model C05.Proofs.
From Coq Require Import Lia ZifyN ZifyNat ZifyBool.

(* ------------------------------------------------------------------ *)
(* a direction inside the relay behaves like the sequential halfPipe on the results it observed *)

Definition cont (p2 : pc) (a2 : acc) (r : rscript) (w : wscript) (d : dscript) : acc :=
  match p2 with
  | PDlS => match dl_pair d a2 with
            | Some (d', a3) => loop r w d' a3
            | None => dl_pair_fail_acc d a2
            end
  | _ => a2
  end.

Definition resume (p : pc) (a : acc) (r : rscript) (w : wscript) (d : dscript) : acc :=
  match p with
  | PDl0 | PDlS => cont PDlS a r w d
  | PDl1 | PDlD => let '(x, d1) := next_dl d in
                   match x with Some _ => tick_d a | None => loop r w d1 (tick_d a) end
  | PRead => loop r w d a
  | PWrite dt er => let '(res, w') := next_write w (length dt) in
                    let '(p2, a2) := on_write dt er res a in cont p2 a2 r w' d
  | PClose | PDone => a
  end.

Lemma resume_start r w d : resume PDl0 acc0 r w d = half_pipe_acc r w d.
Proof. reflexivity. Qed.

Lemma loop_unfold data e r w d a :
  loop ((data, e) :: r) w d a =
  let '(p1, a1) := on_read (data, e) a in
  match p1 with
  | PWrite dt er => resume (PWrite dt er) a1 r w d
  | PDlS => cont PDlS a1 r w d
  | _ => a1
  end.
Proof.
  cbn [loop]. destruct (on_read (data, e) a) as [p1 a1]. destruct p1; reflexivity.
Qed.

Lemma on_read_pc res a : let p := fst (on_read res a) in
  (exists dt er, p = PWrite dt er) \/ p = PDlS \/ p = PClose.
Proof. destruct res as [[|b dt] [x|]]; cbn; eauto. Qed.

Lemma on_write_pc dt er res a : let p := fst (on_write dt er res a) in p = PDlS \/ p = PClose.
Proof.
  destruct res as [n [x|]]; cbn; auto.
  destruct (Nat.eqb _ _); cbn; auto. destruct er; cbn; auto.
Qed.

Lemma on_dl_pc p res a : let q := fst (on_dl p res a) in q = p \/ q = PClose.
Proof. destruct res; cbn; auto. Qed.

(* one observed result moves [resume] from the old to the new local state *)
Lemma resume_read res a r w d :
  resume PRead a (res :: r) w d = resume (fst (on_read res a)) (snd (on_read res a)) r w d.
Proof.
  destruct res as [data e]. cbn [resume]. rewrite loop_unfold.
  pose proof (on_read_pc (data, e) a) as H. destruct (on_read (data, e) a) as [p1 a1]. cbn in H. cbn [fst snd].
  destruct H as [(dt & er & ->) | [-> | ->]]; reflexivity.
Qed.

Lemma resume_write dt er res a r w d :
  resume (PWrite dt er) a r (res :: w) d = resume (fst (on_write dt er res a)) (snd (on_write dt er res a)) r w d.
Proof.
  cbn [resume next_write].
  pose proof (on_write_pc dt er res a) as H. destruct (on_write dt er res a) as [p2 a2]. cbn in H. cbn [fst snd].
  destruct H as [-> | ->]; reflexivity.
Qed.

Lemma resume_dl0 p res a r w d : (p = PDl0 \/ p = PDlS) ->
  resume p a r w (res :: d) =
  resume (fst (on_dl (match p with PDl0 => PDl1 | _ => PDlD end) res a)) (snd (on_dl (match p with PDl0 => PDl1 | _ => PDlD end) res a)) r w d.
Proof.
  intros [-> | ->]; destruct res as [x|]; cbn [resume cont on_dl fst snd dl_pair dl_pair_fail_acc next_dl];
    try reflexivity; destruct (next_dl d) as [[y|] d2]; reflexivity.
Qed.

Lemma resume_dl1 p res a r w d : (p = PDl1 \/ p = PDlD) ->
  resume p a r w (res :: d) = resume (fst (on_dl PRead res a)) (snd (on_dl PRead res a)) r w d.
Proof. intros [-> | ->]; destruct res as [x|]; reflexivity. Qed.

Definition tinv (t : thread) : Prop :=
  forall r2 w2 d2,
    resume PDl0 acc0 (th_rlog t ++ r2) (th_wlog t ++ w2) (th_dlog t ++ d2) = resume (th_pc t) (th_acc t) r2 w2 d2.

Lemma tinv_init s : tinv (init_thread s).
Proof. intros r2 w2 d2. reflexivity. Qed.

Lemma tinv_step t sc dc : tinv t -> tinv (thread_step t sc dc).
Proof.
  intros H r2 w2 d2. unfold thread_step.
  destruct (th_pc t) eqn:Epc.
  - (* PDl0 *)
    destruct (if sc then _ else _) as [res d'].
    pose proof (resume_dl0 PDl0 res (th_acc t) r2 w2 d2 (or_introl eq_refl)) as R.
    destruct (on_dl PDl1 res (th_acc t)) as [p a']. cbn [th_pc th_acc th_rlog th_wlog th_dlog fst snd] in *.
    rewrite <- app_assoc. cbn [app]. rewrite H, Epc. exact R.
  - destruct (if dc then _ else _) as [res d'].
    pose proof (resume_dl1 PDl1 res (th_acc t) r2 w2 d2 (or_introl eq_refl)) as R.
    destruct (on_dl PRead res (th_acc t)) as [p a']. cbn [th_pc th_acc th_rlog th_wlog th_dlog fst snd] in *.
    rewrite <- app_assoc. cbn [app]. rewrite H, Epc. exact R.
  - (* PRead *)
    destruct (if sc then _ else _) as [res r'].
    pose proof (resume_read res (th_acc t) r2 w2 d2) as R.
    destruct (on_read res (th_acc t)) as [p a']. cbn [th_pc th_acc th_rlog th_wlog th_dlog fst snd] in *.
    rewrite <- app_assoc. cbn [app]. rewrite H, Epc. exact R.
  - (* PWrite *)
    destruct (if dc then _ else _) as [res w'].
    pose proof (resume_write data e res (th_acc t) r2 w2 d2) as R.
    destruct (on_write data e res (th_acc t)) as [p a']. cbn [th_pc th_acc th_rlog th_wlog th_dlog fst snd] in *.
    rewrite <- app_assoc. cbn [app]. rewrite H, Epc. exact R.
  - destruct (if sc then _ else _) as [res d'].
    pose proof (resume_dl0 PDlS res (th_acc t) r2 w2 d2 (or_intror eq_refl)) as R.
    destruct (on_dl PDlD res (th_acc t)) as [p a']. cbn [th_pc th_acc th_rlog th_wlog th_dlog fst snd] in *.
    rewrite <- app_assoc. cbn [app]. rewrite H, Epc. exact R.
  - destruct (if dc then _ else _) as [res d'].
    pose proof (resume_dl1 PDlD res (th_acc t) r2 w2 d2 (or_intror eq_refl)) as R.
    destruct (on_dl PRead res (th_acc t)) as [p a']. cbn [th_pc th_acc th_rlog th_wlog th_dlog fst snd] in *.
    rewrite <- app_assoc. cbn [app]. rewrite H, Epc. exact R.
  - (* PClose -> PDone *)
    cbn [th_pc th_acc th_rlog th_wlog th_dlog]. rewrite H, Epc. reflexivity.
  - rewrite H, Epc. reflexivity.
Qed.

Lemma tinv_done t : tinv t -> th_pc t = PDone ->
  th_acc t = half_pipe_acc (th_rlog t) (th_wlog t) (th_dlog t).
Proof.
  intros H E. specialize (H [] [] []). rewrite !app_nil_r, E in H. cbn [resume] in H.
  rewrite <- H. apply resume_start.
Qed.

(* accumulators stay consistent *)
Lemma thread_step_acc_ok t sc dc : acc_ok (th_acc t) -> acc_ok (th_acc (thread_step t sc dc)).
Proof.
  intros H. unfold thread_step.
  destruct (th_pc t).
  - destruct (if sc then _ else _) as [res d']. pose proof (acc_ok_on_dl PDl1 res _ H) as R. destruct (on_dl _ _ _); exact R.
  - destruct (if dc then _ else _) as [res d']. pose proof (acc_ok_on_dl PRead res _ H) as R. destruct (on_dl _ _ _); exact R.
  - destruct (if sc then _ else _) as [res r']. pose proof (acc_ok_on_read res _ H) as R. destruct (on_read _ _); exact R.
  - destruct (if dc then _ else _) as [res w']. pose proof (acc_ok_on_write data e res _ H) as R. destruct (on_write _ _ _ _); exact R.
  - destruct (if sc then _ else _) as [res d']. pose proof (acc_ok_on_dl PDlD res _ H) as R. destruct (on_dl _ _ _); exact R.
  - destruct (if dc then _ else _) as [res d']. pose proof (acc_ok_on_dl PRead res _ H) as R. destruct (on_dl _ _ _); exact R.
  - exact H.
  - exact H.
Qed.

Lemma thread_step_blocks t sc dc : t_csrc_blocks (th_scr (thread_step t sc dc)) = t_csrc_blocks (th_scr t).
Proof.
  unfold thread_step. destruct (th_pc t); try reflexivity.
  - destruct (if sc then _ else _) as [res d']. destruct (on_dl _ _ _); reflexivity.
  - destruct (if dc then _ else _) as [res d']. destruct (on_dl _ _ _); reflexivity.
  - destruct (if sc then _ else _) as [res r']. destruct (on_read _ _); reflexivity.
  - destruct (if dc then _ else _) as [res w']. destruct (on_write _ _ _ _); reflexivity.
  - destruct (if sc then _ else _) as [res d']. destruct (on_dl _ _ _); reflexivity.
  - destruct (if dc then _ else _) as [res d']. destruct (on_dl _ _ _); reflexivity.
Qed.

(* ------------------------------------------------------------------ *)
(* the invariant of the relay *)

Definition live (p : pc) : bool := negb (pc_is_close p || pc_is_done p).
Definition cl_not (s : cl_state) : bool := match s with CNot => true | _ => false end.
Definition b2n (b : bool) : nat := if b then 1 else 0.

Lemma ops_snoc {A} (l : list A) n : concat (repeat l (S n)) = concat (repeat l n) ++ l.
Proof. induction n as [|n IH]; cbn; [now rewrite app_nil_r|]. cbn in IH. rewrite IH at 1. now rewrite app_assoc. Qed.

Record inv (g0 : Z) (c : cfg) : Prop := {
  i_clU : cl_not (clU c) = live (th_pc (up c));
  i_clD : cl_not (clD c) = live (th_pc (down c));
  i_upB : pc_is_done (th_pc (up c)) = true -> closedB c = true;
  i_downA : pc_is_done (th_pc (down c)) = true -> closedA c = true;
  i_cluA : cl_over (clU c) = true -> closedA c = true;
  i_cldB : cl_over (clD c) = true -> closedB c = true;
  i_blkU : clU c = CBlocked -> t_csrc_blocks (th_scr (up c)) = true;
  i_blkD : clD c = CBlocked -> t_csrc_blocks (th_scr (down c)) = true;
  i_wg : wg c = (b2n (negb (pc_is_done (th_pc (up c)))) + b2n (negb (pc_is_done (th_pc (down c)))))%nat;
  i_gauge : gauge c = match main c with MWait => (g0 + 1)%Z | _ => g0 end;
  i_main : main c <> MWait -> wg c = O;
  i_mdone : main c = MDone -> closedB c = true;
  i_ncA : closedA c = true -> (0 < ncloseA c)%nat;
  i_ncB : closedB c = true -> (0 < ncloseB c)%nat;
  i_opsA : opsA c = concat (repeat (close_ops (kindA c)) (ncloseA c));
  i_opsB : opsB c = concat (repeat (close_ops (kindB c)) (ncloseB c));
  i_tu : tinv (up c);
  i_td : tinv (down c);
  i_au : acc_ok (th_acc (up c));
  i_ad : acc_ok (th_acc (down c));
}.

Lemma inv_init_k ka kb g0 su sd : inv g0 (init_cfg_k ka kb g0 su sd).
Proof.
  constructor; cbn; try reflexivity; try discriminate; try congruence; auto using tinv_init.
Qed.
Lemma inv_init g0 su sd : inv g0 (init_cfg g0 su sd).
Proof. apply inv_init_k. Qed.

(* what a loop step can do to the program counter *)
Lemma thread_step_pc t sc dc :
  th_pc t <> PClose -> th_pc t <> PDone -> th_pc (thread_step t sc dc) <> PDone.
Proof.
  intros H1 H2. unfold thread_step. destruct (th_pc t) eqn:E; try congruence.
  - destruct (if sc then _ else _) as [res d']. pose proof (on_dl_pc PDl1 res (th_acc t)) as R. destruct (on_dl _ _ _); cbn in *. destruct R; subst; discriminate.
  - destruct (if dc then _ else _) as [res d']. pose proof (on_dl_pc PRead res (th_acc t)) as R. destruct (on_dl _ _ _); cbn in *. destruct R; subst; discriminate.
  - destruct (if sc then _ else _) as [res r']. pose proof (on_read_pc res (th_acc t)) as R. destruct (on_read _ _); cbn in *.
    destruct R as [(? & ? & ->) | [-> | ->]]; discriminate.
  - destruct (if dc then _ else _) as [res w']. pose proof (on_write_pc data e res (th_acc t)) as R. destruct (on_write _ _ _ _); cbn in *.
    destruct R; subst; discriminate.
  - destruct (if sc then _ else _) as [res d']. pose proof (on_dl_pc PDlD res (th_acc t)) as R. destruct (on_dl _ _ _); cbn in *. destruct R; subst; discriminate.
  - destruct (if dc then _ else _) as [res d']. pose proof (on_dl_pc PRead res (th_acc t)) as R. destruct (on_dl _ _ _); cbn in *. destruct R; subst; discriminate.
Qed.

Lemma thread_step_close t sc dc : th_pc t = PClose -> th_pc (thread_step t sc dc) = PDone.
Proof. intros E. unfold thread_step. rewrite E. reflexivity. Qed.

Lemma live_not_close_done p : live p = true -> p <> PClose /\ p <> PDone.
Proof. destruct p; cbn; intros; split; congruence. Qed.

Ltac ops_goals :=
  try (intros _; lia);
  try match goal with
      | H : opsA ?c = _ |- opsA ?c ++ _ = _ => rewrite H; symmetry; apply ops_snoc
      | H : opsB ?c = _ |- opsB ?c ++ _ = _ => rewrite H; symmetry; apply ops_snoc
      end.

Lemma inv_step g0 c t : inv g0 c -> inv g0 (step c t).
Proof.
  intros I. destruct I. destruct t; unfold step.
  - (* TUp *)
    destruct (th_pc (up c)) eqn:Epc;
      try (set (th' := thread_step (up c) (closedA c) (closedB c));
           assert (Hnd : th_pc th' <> PDone) by (apply thread_step_pc; rewrite Epc; discriminate);
           assert (Hd : pc_is_done (th_pc th') = false) by (destruct (th_pc th'); try reflexivity; congruence);
           constructor; cbn [clU clD up down closedA closedB wg gauge main th_pc th_acc th_scr ncloseA ncloseB kindA kindB opsA opsB]; auto; ops_goals;
           first
           [ try rewrite Epc in i_clU0; cbn in i_clU0; destruct (clU c); try discriminate;
             unfold live; revert Hd Hnd; destruct (th_pc th'); intros; try reflexivity; try discriminate; congruence
           | rewrite Hd; discriminate
           | destruct (pc_is_close (th_pc th')); [discriminate | exact i_cluA0]
           | unfold th'; rewrite thread_step_blocks; destruct (pc_is_close _); [discriminate | exact i_blkU0]
           | rewrite i_wg0, ?Epc, Hd; reflexivity
           | apply tinv_step; exact i_tu0
           | apply thread_step_acc_ok; exact i_au0 ]).
    + (* PClose *)
      destruct (stats_close _ _ _ _) as [cl cv].
      constructor; cbn [clU clD up down closedA closedB wg gauge main th_pc th_acc th_scr ncloseA ncloseB kindA kindB opsA opsB]; auto; ops_goals.
      * rewrite (thread_step_close _ _ _ Epc). exact i_clU0.
      * rewrite thread_step_blocks. exact i_blkU0.
      * rewrite i_wg0, ?Epc, (thread_step_close _ _ _ Epc). reflexivity.
      * intros Hm. specialize (i_main0 Hm). rewrite i_main0. reflexivity.
      * apply tinv_step; exact i_tu0.
      * apply thread_step_acc_ok; exact i_au0.
    + (* PDone *) constructor; rewrite ?Epc; auto.
  - (* TDown *)
    destruct (th_pc (down c)) eqn:Epc;
      try (set (th' := thread_step (down c) (closedB c) (closedA c));
           assert (Hnd : th_pc th' <> PDone) by (apply thread_step_pc; rewrite Epc; discriminate);
           assert (Hd : pc_is_done (th_pc th') = false) by (destruct (th_pc th'); try reflexivity; congruence);
           constructor; cbn [clU clD up down closedA closedB wg gauge main th_pc th_acc th_scr ncloseA ncloseB kindA kindB opsA opsB]; auto; ops_goals;
           first
           [ try rewrite Epc in i_clD0; cbn in i_clD0; destruct (clD c); try discriminate;
             unfold live; revert Hd Hnd; destruct (th_pc th'); intros; try reflexivity; try discriminate; congruence
           | rewrite Hd; discriminate
           | destruct (pc_is_close (th_pc th')); [discriminate | exact i_cldB0]
           | unfold th'; rewrite thread_step_blocks; destruct (pc_is_close _); [discriminate | exact i_blkD0]
           | rewrite i_wg0, ?Epc, Hd; reflexivity
           | apply tinv_step; exact i_td0
           | apply thread_step_acc_ok; exact i_ad0 ]).
    + destruct (stats_close _ _ _ _) as [cl cv].
      constructor; cbn [clU clD up down closedA closedB wg gauge main th_pc th_acc th_scr ncloseA ncloseB kindA kindB opsA opsB]; auto; ops_goals.
      * rewrite (thread_step_close _ _ _ Epc). exact i_clD0.
      * rewrite thread_step_blocks. exact i_blkD0.
      * rewrite i_wg0, ?Epc, (thread_step_close _ _ _ Epc). cbn. lia.
      * intros Hm. specialize (i_main0 Hm). rewrite i_main0. reflexivity.
      * apply tinv_step; exact i_td0.
      * apply thread_step_acc_ok; exact i_ad0.
    + constructor; rewrite ?Epc; auto.
  - (* TUpCl *)
    destruct (clU c) eqn:Ecl; try (constructor; rewrite ?Ecl; auto; fail).
    destruct (stats_close _ _ _ _) as [cl cv].
    constructor; cbn [clU clD up down closedA closedB wg gauge main th_pc th_acc th_scr ncloseA ncloseB kindA kindB opsA opsB]; auto; ops_goals;
      destruct (t_csrc_blocks (th_scr (up c))); cbn; auto; discriminate.
  - (* TDownCl *)
    destruct (clD c) eqn:Ecl; try (constructor; rewrite ?Ecl; auto; fail).
    destruct (stats_close _ _ _ _) as [cl cv].
    constructor; cbn [clU clD up down closedA closedB wg gauge main th_pc th_acc th_scr ncloseA ncloseB kindA kindB opsA opsB]; auto; ops_goals;
      destruct (t_csrc_blocks (th_scr (down c))); cbn; auto; discriminate.
  - (* TMain *)
    destruct (main c) eqn:Em.
    + destruct (wg c) eqn:Ew.
      * constructor; cbn [clU clD up down closedA closedB wg gauge main th_pc th_acc th_scr ncloseA ncloseB kindA kindB opsA opsB]; rewrite ?Ew; auto; ops_goals; try discriminate.
        rewrite i_gauge0. lia.
      * constructor; rewrite ?Em, ?Ew; auto.
    + constructor; cbn [clU clD up down closedA closedB wg gauge main th_pc th_acc th_scr ncloseA ncloseB kindA kindB opsA opsB]; rewrite ?Em; auto; ops_goals; try discriminate.
      intros _. apply i_main0. discriminate.
    + constructor; rewrite ?Em; auto.
Qed.

Lemma inv_run g0 s : forall c, inv g0 c -> inv g0 (run c s).
Proof. induction s as [|t s IH]; intros c I; [exact I|]. cbn. apply IH, inv_step, I. Qed.

(* ------------------------------------------------------------------ *)
(* always_torn_down *)

Definition closer_over (st : cl_state) (t : thread) : Prop :=
  st = CDone \/ (st = CBlocked /\ t_csrc_blocks (th_scr t) = true).

Lemma finished_parts c : finished c = true ->
  pc_is_done (th_pc (up c)) = true /\ pc_is_done (th_pc (down c)) = true /\
  cl_over (clU c) = true /\ cl_over (clD c) = true /\ main c = MDone.
Proof.
  unfold finished. intros F.
  apply andb_true_iff in F as [F F5]. apply andb_true_iff in F as [F F4].
  apply andb_true_iff in F as [F F3]. apply andb_true_iff in F as [F1 F2].
  repeat split; auto. destruct (main c); try discriminate; reflexivity.
Qed.

Lemma finished_torn_down g0 c : inv g0 c -> finished c = true ->
  closedA c = true /\ closedB c = true /\ wg c = O /\ gauge c = g0 /\
  closer_over (clU c) (up c) /\ closer_over (clD c) (down c) /\ main c = MDone /\
  th_pc (up c) = PDone /\ th_pc (down c) = PDone.
Proof.
  intros I F. destruct (finished_parts c F) as (F1 & F2 & F3 & F4 & E3).
  destruct I.
  assert (HA : closedA c = true) by (apply i_cluA0; exact F3).
  assert (HB : closedB c = true) by (apply i_mdone0; exact E3).
  assert (HW : wg c = O) by (apply i_main0; rewrite E3; discriminate).
  assert (HG : gauge c = g0) by (rewrite i_gauge0, E3; reflexivity).
  assert (Pu : th_pc (up c) = PDone) by (destruct (th_pc (up c)); try discriminate; reflexivity).
  assert (Pd : th_pc (down c) = PDone) by (destruct (th_pc (down c)); try discriminate; reflexivity).
  assert (CU : closer_over (clU c) (up c)).
  { unfold closer_over. destruct (clU c) eqn:E; try discriminate; [left; reflexivity | right; split; auto]. }
  assert (CD : closer_over (clD c) (down c)).
  { unfold closer_over. destruct (clD c) eqn:E; try discriminate; [left; reflexivity | right; split; auto]. }
  repeat split; assumption.
Qed.

(* ------------------------------------------------------------------ *)
(* no deadlock: something can always run until everything has finished *)

Lemma progress g0 c : inv g0 c -> finished c = false -> exists t, enabled c t = true.
Proof.
  intros I F.
  destruct (pc_is_done (th_pc (up c))) eqn:Du; [|exists TUp; cbn; now rewrite Du].
  destruct (pc_is_done (th_pc (down c))) eqn:Dd; [|exists TDown; cbn; now rewrite Dd].
  destruct I.
  assert (Lu : live (th_pc (up c)) = false) by (unfold live; rewrite Du, orb_true_r; reflexivity).
  assert (Ld : live (th_pc (down c)) = false) by (unfold live; rewrite Dd, orb_true_r; reflexivity).
  rewrite Lu in i_clU0. rewrite Ld in i_clD0.
  destruct (clU c) eqn:E1; try discriminate; try (exists TUpCl; cbn; now rewrite E1);
    (destruct (clD c) eqn:E2; try discriminate; try (exists TDownCl; cbn; now rewrite E2));
    (exists TMain; cbn; rewrite i_wg0, Du, Dd; cbn;
     unfold finished in F; rewrite Du, Dd, E1, E2 in F; cbn in F;
     destruct (main c); try reflexivity; discriminate).
Qed.

Lemma disabled_noop c t : enabled c t = false -> step c t = c.
Proof.
  destruct t; cbn.
  - destruct (th_pc (up c)); cbn; try discriminate. reflexivity.
  - destruct (th_pc (down c)); cbn; try discriminate. reflexivity.
  - destruct (clU c); try discriminate; reflexivity.
  - destruct (clD c); try discriminate; reflexivity.
  - destruct (main c); [destruct (wg c)|..]; try discriminate; reflexivity.
Qed.

(* ------------------------------------------------------------------ *)
(* termination: every effective step decreases the measure *)

Lemma set_scr_reads s r w d : t_reads (set_scr s r w d) = r.
Proof. reflexivity. Qed.

Lemma thread_step_measure t sc dc : th_pc t <> PDone ->
  (thread_measure (thread_step t sc dc) < thread_measure t)%nat.
Proof.
  intros Hd. unfold thread_measure, thread_step.
  destruct (th_pc t) eqn:E; try congruence.
  - destruct sc; cbn [next_dl]; [|destruct (t_dls (th_scr t)) as [|[x|] d']]; cbn; lia.
  - destruct dc; cbn [next_dl]; [|destruct (t_dls (th_scr t)) as [|[x|] d']]; cbn; lia.
  - destruct sc; [cbn; lia|].
    destruct (t_reads (th_scr t)) as [|[[|b dt] [x|]] r']; cbn; lia.
  - destruct dc.
    + cbn. lia.
    + destruct (t_writes (th_scr t)) as [|[n [x|]] w']; cbn [next_write on_write th_pc th_scr set_scr t_reads pc_rank fst snd].
      * rewrite Nat.min_id, Nat.eqb_refl. destruct e; cbn; lia.
      * cbn. lia.
      * destruct (Nat.eqb _ _); [destruct e|]; cbn; lia.
  - destruct sc; cbn [next_dl]; [|destruct (t_dls (th_scr t)) as [|[x|] d']]; cbn; lia.
  - destruct dc; cbn [next_dl]; [|destruct (t_dls (th_scr t)) as [|[x|] d']]; cbn; lia.
  - cbn. lia.
Qed.

Lemma measure_decreases c t : enabled c t = true -> (measure (step c t) < measure c)%nat.
Proof.
  destruct t; cbn [enabled]; intros E; unfold step, measure.
  - destruct (th_pc (up c)) eqn:Epc; try discriminate;
      try (cbn [up down clU clD main];
           pose proof (thread_step_measure (up c) (closedA c) (closedB c)) as M; rewrite Epc in M;
           specialize (M ltac:(discriminate));
           destruct (pc_is_close _); destruct (clU c); cbn [cl_measure]; lia).
    destruct (stats_close _ _ _ _) as [cl cv]. cbn [up down clU clD main].
    pose proof (thread_step_measure (up c) (closedA c) (closedB c)) as M; rewrite Epc in M.
    specialize (M ltac:(discriminate)). lia.
  - destruct (th_pc (down c)) eqn:Epc; try discriminate;
      try (cbn [up down clU clD main];
           pose proof (thread_step_measure (down c) (closedB c) (closedA c)) as M; rewrite Epc in M;
           specialize (M ltac:(discriminate));
           destruct (pc_is_close _); destruct (clD c); cbn [cl_measure]; lia).
    destruct (stats_close _ _ _ _) as [cl cv]. cbn [up down clU clD main].
    pose proof (thread_step_measure (down c) (closedB c) (closedA c)) as M; rewrite Epc in M.
    specialize (M ltac:(discriminate)). lia.
  - destruct (clU c) eqn:Ecl; try discriminate.
    destruct (stats_close _ _ _ _) as [cl cv]. cbn [up down clU clD main].
    destruct (t_csrc_blocks _); cbn [cl_measure]; lia.
  - destruct (clD c) eqn:Ecl; try discriminate.
    destruct (stats_close _ _ _ _) as [cl cv]. cbn [up down clU clD main].
    destruct (t_csrc_blocks _); cbn [cl_measure]; lia.
  - destruct (main c) eqn:Em; [destruct (wg c) eqn:Ew|..]; try discriminate;
      cbn [up down clU clD main main_measure]; lia.
Qed.

Lemma measure_step_le c t : (measure (step c t) <= measure c)%nat.
Proof.
  destruct (enabled c t) eqn:E.
  - pose proof (measure_decreases c t E). lia.
  - rewrite (disabled_noop c t E). lia.
Qed.

(* the number of effective steps in ANY schedule is bounded by the initial measure *)
Fixpoint effective (c : cfg) (s : list tid) : nat :=
  match s with
  | [] => 0
  | t :: s' => b2n (enabled c t) + effective (step c t) s'
  end.

Lemma effective_bounded : forall s c, (effective c s + measure (run c s) <= measure c)%nat.
Proof.
  induction s as [|t s IH]; intros c; cbn [effective run fold_left]; [lia|].
  specialize (IH (step c t)). unfold run in IH.
  destruct (enabled c t) eqn:E; cbn [b2n].
  - pose proof (measure_decreases c t E). lia.
  - pose proof (measure_step_le c t). lia.
Qed.

(* enabledness of a thread is not taken away by the others *)
Ltac case_step c :=
  unfold step;
  repeat match goal with
         | |- context [match th_pc (up c) with _ => _ end] => destruct (th_pc (up c)) eqn:?
         | |- context [match th_pc (down c) with _ => _ end] => destruct (th_pc (down c)) eqn:?
         | |- context [match clU c with _ => _ end] => destruct (clU c) eqn:?
         | |- context [match clD c with _ => _ end] => destruct (clD c) eqn:?
         | |- context [match main c with _ => _ end] => destruct (main c) eqn:?
         | |- context [match wg c with _ => _ end] => destruct (wg c) eqn:?
         | |- context [stats_close ?a ?b ?x ?y] => destruct (stats_close a b x y)
         end;
  cbn [up down clU clD main wg th_pc].

Lemma enabled_stable c t u : t <> u -> enabled c t = true -> enabled (step c u) t = true.
Proof.
  intros Hne E.
  destruct t, u; try congruence; cbn [enabled] in *; case_step c;
    try discriminate; try assumption; try reflexivity;
    try (destruct (pc_is_close _); try assumption; try reflexivity; try discriminate);
    try (destruct (main c); try assumption; destruct (wg c); cbn in *; congruence).
Qed.

Definition one_round : list tid := [TUp; TDown; TUpCl; TDownCl; TMain].

Lemma run_app c s1 s2 : run c (s1 ++ s2) = run (run c s1) s2.
Proof. unfold run. apply fold_left_app. Qed.

Lemma round_progress g0 c : inv g0 c -> finished c = false -> (measure (run c one_round) < measure c)%nat.
Proof.
  intros I F. destruct (progress g0 c I F) as [t Et].
  unfold one_round, run. cbn [fold_left].
  set (c1 := step c TUp). set (c2 := step c1 TDown). set (c3 := step c2 TUpCl). set (c4 := step c3 TDownCl).
  pose proof (measure_step_le c TUp) as L1. pose proof (measure_step_le c1 TDown) as L2.
  pose proof (measure_step_le c2 TUpCl) as L3. pose proof (measure_step_le c3 TDownCl) as L4.
  pose proof (measure_step_le c4 TMain) as L5.
  fold c1 in L1. fold c2 in L2. fold c3 in L3. fold c4 in L4.
  destruct t.
  - pose proof (measure_decreases c TUp Et). fold c1 in H. lia.
  - assert (E1 : enabled c1 TDown = true) by (apply enabled_stable; [discriminate|exact Et]).
    pose proof (measure_decreases c1 TDown E1). fold c2 in H. lia.
  - assert (E1 : enabled c1 TUpCl = true) by (apply enabled_stable; [discriminate|exact Et]).
    assert (E2 : enabled c2 TUpCl = true) by (apply enabled_stable; [discriminate|exact E1]).
    pose proof (measure_decreases c2 TUpCl E2). fold c3 in H. lia.
  - assert (E1 : enabled c1 TDownCl = true) by (apply enabled_stable; [discriminate|exact Et]).
    assert (E2 : enabled c2 TDownCl = true) by (apply enabled_stable; [discriminate|exact E1]).
    assert (E3 : enabled c3 TDownCl = true) by (apply enabled_stable; [discriminate|exact E2]).
    pose proof (measure_decreases c3 TDownCl E3). fold c4 in H. lia.
  - assert (E1 : enabled c1 TMain = true) by (apply enabled_stable; [discriminate|exact Et]).
    assert (E2 : enabled c2 TMain = true) by (apply enabled_stable; [discriminate|exact E1]).
    assert (E3 : enabled c3 TMain = true) by (apply enabled_stable; [discriminate|exact E2]).
    assert (E4 : enabled c4 TMain = true) by (apply enabled_stable; [discriminate|exact E3]).
    pose proof (measure_decreases c4 TMain E4). lia.
Qed.

Lemma finished_disabled c t : finished c = true -> enabled c t = false.
Proof.
  intros F. destruct (finished_parts c F) as (F1 & F2 & F3 & F4 & E3).
  destruct t; cbn; rewrite ?F1, ?F2, ?E3; try reflexivity.
  - destruct (clU c); try discriminate; reflexivity.
  - destruct (clD c); try discriminate; reflexivity.
Qed.

Lemma finished_stable : forall s c, finished c = true -> run c s = c.
Proof.
  induction s as [|t s IH]; intros c F; [reflexivity|].
  cbn. rewrite (disabled_noop c t (finished_disabled c t F)). apply IH, F.
Qed.

Lemma round_robin_finishes g0 : forall n c, inv g0 c -> (measure c <= n)%nat -> finished (run c (round_robin n)) = true.
Proof.
  induction n as [|n IH]; intros c I M.
  - cbn. destruct (finished c) eqn:F; [reflexivity|].
    pose proof (round_progress g0 c I F). lia.
  - cbn [round_robin]. change [TUp; TDown; TUpCl; TDownCl; TMain] with one_round.
    rewrite run_app.
    destruct (finished c) eqn:F.
    + rewrite (finished_stable one_round c F). rewrite (finished_stable _ c F). exact F.
    + apply IH; [apply inv_run, I|]. pose proof (round_progress g0 c I F). lia.
Qed.

(* every schedule can be completed, and the completion the driver uses (round robin) works *)
Lemma always_completes g0 su sd s :
  let c := run (init_cfg g0 su sd) s in
  finished (run c (round_robin (measure c))) = true.
Proof.
  intros c. apply (round_robin_finishes g0); [|lia].
  apply inv_run, inv_init.
Qed.

(* ------------------------------------------------------------------ *)
(* the headline statements over all scripts and all schedules *)

Lemma relay_torn_down g0 su sd s :
  let c := run (init_cfg g0 su sd) s in
  finished c = true ->
  closedA c = true /\ closedB c = true /\ wg c = O /\ gauge c = g0 /\
  closer_over (clU c) (up c) /\ closer_over (clD c) (down c) /\ main c = MDone /\
  th_pc (up c) = PDone /\ th_pc (down c) = PDone.
Proof.
  intros c F.
  exact (finished_torn_down g0 c (inv_run g0 s _ (inv_init g0 su sd)) F).
Qed.

(* the script of a direction never changes its "Close(src) blocks" bit, so [closer_over] speaks
   about the scripts the run started with *)
Lemma step_keeps_blocks c t :
  t_csrc_blocks (th_scr (up (step c t))) = t_csrc_blocks (th_scr (up c)) /\
  t_csrc_blocks (th_scr (down (step c t))) = t_csrc_blocks (th_scr (down c)).
Proof.
  destruct t; case_step c; cbn [up down th_scr]; rewrite ?thread_step_blocks; split; reflexivity.
Qed.

Lemma run_keeps_blocks : forall s c,
  t_csrc_blocks (th_scr (up (run c s))) = t_csrc_blocks (th_scr (up c)) /\
  t_csrc_blocks (th_scr (down (run c s))) = t_csrc_blocks (th_scr (down c)).
Proof.
  induction s as [|t s IH]; intros c; [split; reflexivity|].
  cbn [run fold_left]. fold (run (step c t) s). destruct (IH (step c t)) as [-> ->]. apply step_keeps_blocks.
Qed.

(* no goroutine is left behind, stated precisely: when nothing is left to run, every thread of the
   relay has returned, except a source closer whose connection's own Close never returns — and
   with connections whose Close returns there is none *)
Lemma relay_no_goroutine_left g0 su sd s :
  let c := run (init_cfg g0 su sd) s in
  finished c = true ->
  th_pc (up c) = PDone /\ th_pc (down c) = PDone /\ main c = MDone /\
  (clU c = CDone \/ (clU c = CBlocked /\ t_csrc_blocks su = true)) /\
  (clD c = CDone \/ (clD c = CBlocked /\ t_csrc_blocks sd = true)) /\
  (t_csrc_blocks su = false -> clU c = CDone) /\ (t_csrc_blocks sd = false -> clD c = CDone).
Proof.
  intros c F.
  destruct (relay_torn_down g0 su sd s F) as (_ & _ & _ & _ & CU & CD & M & Pu & Pd).
  destruct (run_keeps_blocks s (init_cfg g0 su sd)) as [Bu Bd].
  change (t_csrc_blocks (th_scr (up (init_cfg g0 su sd)))) with (t_csrc_blocks su) in Bu.
  change (t_csrc_blocks (th_scr (down (init_cfg g0 su sd)))) with (t_csrc_blocks sd) in Bd.
  subst c. unfold closer_over in *. rewrite Bu in CU. rewrite Bd in CD.
  repeat split; auto.
  - intros Hb. destruct CU as [H | [_ H]]; [exact H | congruence].
  - intros Hb. destruct CD as [H | [_ H]]; [exact H | congruence].
Qed.

Lemma relay_delivers g0 su sd s :
  let c := run (init_cfg g0 su sd) s in
  finished c = true ->
  delivered (th_acc (up c)) = ideal (th_rlog (up c)) (th_wlog (up c)) (th_dlog (up c)) /\
  delivered (th_acc (down c)) = ideal (th_rlog (down c)) (th_wlog (down c)) (th_dlog (down c)) /\
  counted (th_acc (up c)) = N.of_nat (length (delivered (th_acc (up c)))) /\
  counted (th_acc (down c)) = N.of_nat (length (delivered (th_acc (down c)))).
Proof.
  intros c F.
  pose proof (inv_run g0 s _ (inv_init g0 su sd)) as I. fold c in I.
  pose proof (finished_torn_down g0 c I F) as (_ & _ & _ & _ & _ & _ & _ & Pu & Pd).
  destruct I.
  repeat split; auto.
  - rewrite (tinv_done _ i_tu0 Pu) at 1. apply half_pipe_acc_delivered.
  - rewrite (tinv_done _ i_td0 Pd) at 1. apply half_pipe_acc_delivered.
Qed.

(* counts equal delivered at EVERY moment of every schedule, not only at the end *)
Lemma relay_counts_always g0 su sd s :
  let c := run (init_cfg g0 su sd) s in
  counted (th_acc (up c)) = N.of_nat (length (delivered (th_acc (up c)))) /\
  counted (th_acc (down c)) = N.of_nat (length (delivered (th_acc (down c)))).
Proof.
  intros c. pose proof (inv_run g0 s _ (inv_init g0 su sd)) as I. destruct I. split; assumption.
Qed.

Lemma relay_bounded g0 su sd s :
  (effective (init_cfg g0 su sd) s <= measure (init_cfg g0 su sd))%nat.
Proof. pose proof (effective_bounded s (init_cfg g0 su sd)). lia. Qed.

Lemma relay_no_deadlock g0 su sd s :
  let c := run (init_cfg g0 su sd) s in
  finished c = false -> exists t, enabled c t = true.
Proof. intros c. apply (progress g0). apply inv_run, inv_init. Qed.

(* ------------------------------------------------------------------ *)
(* every connection kind: the shutdown calls a connection receives are whole closeConn
   sequences of its kind (TCP: SetLinger then Close; others: Close) — never half a close *)

Lemma step_keeps_kind c t : kindA (step c t) = kindA c /\ kindB (step c t) = kindB c.
Proof.
  destruct t; unfold step.
  - destruct (th_pc (up c)); try (split; reflexivity); destruct (stats_close _ _ _ _); split; reflexivity.
  - destruct (th_pc (down c)); try (split; reflexivity); destruct (stats_close _ _ _ _); split; reflexivity.
  - destruct (clU c); try (split; reflexivity); destruct (stats_close _ _ _ _); split; reflexivity.
  - destruct (clD c); try (split; reflexivity); destruct (stats_close _ _ _ _); split; reflexivity.
  - destruct (main c); [destruct (wg c)|..]; split; reflexivity.
Qed.

