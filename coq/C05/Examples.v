(* C05 — non-vacuity: concrete scripts and schedules meeting the theorems' hypotheses. *)
From CJ Require Import Common.Base C05.Model C05.Proofs C05.Sched C05.ModelTcp C05.ProofsTcp C05.ModelProxy C05.ProofsProxy C05.Run.

Definition ab : bytes := [97; 98]. Definition c_ : bytes := [99].

(* data returned together with EOF is delivered (the defect of the pinned tree, fixed in /repo) *)
Example data_with_eof :
  out_delivered (half_pipe [(ab, None); (c_, Some EOF)] [] []) = ab ++ c_ /\
  out_counted (half_pipe [(ab, None); (c_, Some EOF)] [] []) = 3.
Proof. split; reflexivity. Qed.

(* a short write cuts the stream exactly where the sink stopped accepting *)
Example short_write :
  out_delivered (half_pipe [(ab, None); (c_, None)] [(1%nat, None)] []) = [97] /\
  out_wr_err (half_pipe [(ab, None); (c_, None)] [(1%nat, None)] []) = Some Short.
Proof. split; reflexivity. Qed.

(* a failing SetDeadline after the first iteration stops the loop; what was read was delivered *)
Example deadline_failure :
  out_delivered (half_pipe [(ab, None); (c_, None)] [] [None; None; Some (Other 3)]) = ab /\
  out_reads (half_pipe [(ab, None); (c_, None)] [] [None; None; Some (Other 3)]) = 1%nat.
Proof. split; reflexivity. Qed.

(* the completeness hypotheses are satisfiable with a non-trivial script *)
Example complete_hyps :
  first_fail [None; None; None; None] = None /\
  writes_ok (map fst (upto_err [(ab, None); ([], None); (c_, Some Reset); (ab, None)])) [(2%nat, None); (5%nat, None)] /\
  ideal [(ab, None); ([], None); (c_, Some Reset); (ab, None)] [(2%nat, None); (5%nat, None)] [None; None; None; None] = ab ++ c_.
Proof. repeat split; cbn; auto. Qed.

(* a relay run: Up reads "ab" then (c, EOF).  Schedule: Down sets its deadlines, Up runs through
   its teardown (closing the covert connection), its closer closes the client connection, then
   Down — whose Read on the covert connection now fails with "closed" — winds down. *)
Definition su : tscript := {| t_reads := [(ab, None); (c_, Some EOF)]; t_writes := []; t_dls := []; t_cdst := Some Reset; t_csrc := None; t_csrc_blocks := false |}.
Definition sd : tscript := {| t_reads := [(ab, None)]; t_writes := []; t_dls := []; t_cdst := None; t_csrc := Some Timeout; t_csrc_blocks := false |}.
Definition sched : list tid := [TDown; TDown; TUp; TUp; TUp; TUp; TUp; TUp; TUp; TUp; TUp; TUpCl; TDown; TDown].
Definition cfin : cfg := let c := run (init_cfg 5 su sd) sched in run c (round_robin (measure c)).

Example relay_example :
  finished cfin = true /\ closedA cfin = true /\ closedB cfin = true /\ wg cfin = O /\ gauge cfin = 5%Z /\
  delivered (th_acc (up cfin)) = ab ++ c_ /\ delivered (th_acc (down cfin)) = [] /\
  th_rlog (down cfin) = [([], Some Closed)] /\            (* interrupted by the other direction's teardown *)
  ncloseA cfin = 2%nat /\ ncloseB cfin = 3%nat /\
  client_err cfin = Some Reset /\ covert_err cfin = None.
Proof. vm_compute. repeat split. Qed.

(* a state in which the run is NOT finished and progress applies *)
Example unfinished_state :
  finished (run (init_cfg 0 su sd) [TUp; TDown]) = false /\ enabled (run (init_cfg 0 su sd) [TUp; TDown]) TUp = true.
Proof. vm_compute. split; reflexivity. Qed.

(* the bound is not trivially large: this schedule makes 14 effective steps of at most 44 *)
Example bound_example : effective (init_cfg 0 su sd) sched = 14%nat /\ measure (init_cfg 0 su sd) = 44%nat.
Proof. vm_compute. split; reflexivity. Qed.

(* a source closer whose Close never returns: the caller still returns, both connections have
   received Close, and exactly that closer is left (inside Close) *)
Definition su_blk : tscript := {| t_reads := [(ab, Some EOF)]; t_writes := []; t_dls := []; t_cdst := None; t_csrc := None; t_csrc_blocks := true |}.
Definition cblk : cfg := let c := run (init_cfg 0 su_blk sd) [] in run c (round_robin (measure c)).
Example blocked_closer :
  finished cblk = true /\ main cblk = MDone /\ wg cblk = O /\ gauge cblk = 0%Z /\
  closedA cblk = true /\ closedB cblk = true /\ clU cblk = CBlocked /\ clD cblk = CDone /\
  delivered (th_acc (up cblk)) = ab.
Proof. vm_compute. repeat split. Qed.

(* ---------------- the socket's send queue and the close mode ---------------- *)
Definition d5 : bytes := [1; 2; 3; 4; 5].
(* the station writes 5 bytes in two Writes, the peer has taken 2 of them when the tunnel is torn
   down; afterwards 3 seconds pass and the peer takes the rest *)
Definition pre5 : list ev := [Op (SWrite [1; 2; 3]); Deliver 2; Op (SWrite [4; 5])].
Definition after5 : list ev := [Tick; Deliver 1; Tick; Tick; Op (SSetLinger 0); Op SClose; Deliver 7].

(* hypotheses of C05_tcp_linger_close_delivers_everything are satisfiable with a non-empty queue ... *)
Example linger10_hyps :
  no_shutdown pre5 = true /\ s_q (srun sock0 pre5) = [3; 4; 5] /\
  drained_before after5 linger_secs (length (s_q (srun sock0 pre5))) = true.
Proof. vm_compute. repeat split. Qed.

(* ... and the run itself: the pinned sequence SetLinger(10); Close (repeated, as the relay does) *)
Example linger10_delivers :
  let f := srun sock0 (pre5 ++ ops_events (opsB tcp_final) ++ after5) in
  opsB tcp_final = [CSetLinger 10; CClose; CSetLinger 10; CClose; CSetLinger 10; CClose] /\
  s_got f = d5 /\ s_ph f = Ended PEof /\ s_linger f = Some 10%nat /\ s_fd_closed f = true.
Proof. vm_compute. repeat split. Qed.

(* the refuted variant: the same history with SetLinger(0) loses the three queued bytes, and the
   peer sees a reset *)
Example linger0_loses :
  let f := srun sock0 (pre5 ++ ops_events [CSetLinger 0; CClose; CSetLinger 0; CClose] ++ after5) in
  s_got f = [1; 2] /\ s_ph f = Ended PReset /\ written pre5 = d5.
Proof. vm_compute. repeat split. Qed.

(* a peer that does NOT drain within the linger time: reset after 10 seconds, the rest is lost
   (the documented purpose of the constant: "we force the socket to close after 10 seconds") *)
Example linger10_expires :
  let f := srun sock0 (pre5 ++ ops_events (close_ops KTcp) ++ Deliver 1 :: repeat Tick 10 ++ [Deliver 9]) in
  s_got f = [1; 2; 3] /\ s_ph f = Ended PReset.
Proof. vm_compute. repeat split. Qed.

(* CloseWrite: no time limit *)
Example closewrite_delivers :
  let f := srun sock0 (pre5 ++ [Op SCloseWrite] ++ repeat Tick 30 ++ [Deliver 9]) in
  s_got f = d5 /\ s_ph f = Ended PEof /\ s_fd_closed f = false /\ s_wr_shut_call f = true.
Proof. vm_compute. repeat split. Qed.

(* the correspondence functions accept what the unchanged code shows and reject the l = 0 socket *)
Example probe_chk :
  chk_tcp_ops ((true, true, 10, false, false, true), (true, true, 10, false, false, true)) = true /\
  chk_tcp_ops ((true, true, 0, false, false, true), (true, true, 10, false, false, true)) = false /\
  chk_tcp_ops ((true, true, 10, false, true, false), (true, true, 10, false, false, true)) = false /\
  chk_tcp_slow (true, 6291456, 6291456, 6291456, true, 1200) = true /\
  chk_tcp_slow (true, 6291456, 3191808, 6291456, false, 400) = false /\
  chk_tcp_slow (false, 6291456, 3191808, 6291456, false, 10400) = true.
Proof. vm_compute. repeat split. Qed.

(* a whole relay run on TCP connections, composed with the socket: the client's 3 bytes (two reads,
   the second together with EOF) are what the covert peer receives, and what is counted *)
Definition su_tcp : tscript := {| t_reads := [(ab, None); (c_, Some EOF)]; t_writes := []; t_dls := []; t_cdst := None; t_csrc := None; t_csrc_blocks := false |}.
Definition ctcp : cfg := let c := run (init_cfg_k KTcp KTcp 0 su_tcp empty_ts) (repeat TUp 9) in run c (round_robin (measure c)).
Example relay_on_tcp :
  let f := srun sock0 ([Op (SWrite ab); Op (SWrite c_)] ++ ops_events (opsB ctcp) ++ [Tick; Deliver 2; Tick; Deliver 5]) in
  finished ctcp = true /\ delivered (th_acc (up ctcp)) = ab ++ c_ /\ counted (th_acc (up ctcp)) = 3 /\
  s_got f = ab ++ c_ /\ s_ph f = Ended PEof.
Proof. vm_compute. repeat split. Qed.

(* ---------------- tunnels in sequence through Proxy(): early exits of every kind, then ordinary tunnels ---------------- *)
Definition t_ab : bspec := Lit [97; 98; 99]. Definition t_de : bspec := Lit [100; 101]. Definition t_x : bspec := Lit [120; 121; 122].
Example seq_ex :
  chk_seq [((1, [], []), (1, Lit [], Lit [], 0, 0, false, true, true, (0,0,0,0,0,0,0)));
           ((0, [t_ab; t_de], [t_x]), (0, Lit [97;98;99;100;101], Lit [120;121;122], 5, 3, true, true, true, (5,3,5,3,0,0,1)));
           ((2, [], []), (2, Lit [], Lit [], 0, 0, false, false, true, (0,0,0,0,0,0,0)));
           ((3, [], []), (0, Lit [1], Lit [], 1, 0, true, true, false, (1,0,1,0,0,1,1)));
           ((0, [t_ab], []), (0, Lit [97;98;99], Lit [], 3, 0, true, true, true, (3,0,3,0,0,1,1)))] = true.
Proof. vm_compute. reflexivity. Qed.

(* the hypotheses of C05_tunnels_in_sequence_are_independent are met by a sequence with a failed dial,
   a failed header and a SetDeadline exit in front of an ordinary tunnel, whose outcome is the fresh-process one *)
Definition seq4 : list pin := map mk_pin [(1, [], []); (2, [], []); (3, [], []); (0, [t_ab; t_de], [t_x])].
Example seq_independent_ex :
  nth_error (snd (proxy_seq pstats0 seq4)) 3 = Some (snd (proxy pstats0 (mk_pin (0, [t_ab; t_de], [t_x])))) /\
  x_up (snd (proxy pstats0 (mk_pin (0, [t_ab; t_de], [t_x])))) = [97; 98; 99; 100; 101] /\
  x_down (snd (proxy pstats0 (mk_pin (0, [t_ab; t_de], [t_x])))) = [120; 121; 122] /\
  ps_completed (fst (proxy_seq pstats0 seq4)) = 2 /\ ps_sessions (fst (proxy_seq pstats0 seq4)) = 0%Z.
Proof. vm_compute. repeat split. Qed.
