(* C05 — non-vacuity: concrete scripts and schedules meeting the theorems' hypotheses. *)
From CJ Require Import Common.Base C05.Model C05.Proofs C05.Sched.

Definition ab : bytes := [97; 98]. Definition c_ : bytes := [99].

(* data returned together with EOF is delivered (the defect of the pinned tree, fixed in /repo) *)
Example data_with_eof :
  out_delivered (half_pipe [(ab, None); (c_, Some EOF)] [] []) = ab ++ c_ /\
  out_counted (half_pipe [(ab, None); (c_, Some EOF)] [] []) = 3.
Proof. split; reflexivity. Qed.

(* a short write cuts the stream exactly where the sink stopped accepting *)
Example short_write :
  out_delivered (half_pipe [(ab, None); (c_, None)] [(1%nat, None)] []) = [97] /\
  out_wr_err (half_pipe [(ab, None); (c_, None)] [(1%nat, None)] []) = Some Short.
Proof. split; reflexivity. Qed.

(* a failing SetDeadline after the first iteration stops the loop; what was read was delivered *)
Example deadline_failure :
  out_delivered (half_pipe [(ab, None); (c_, None)] [] [None; None; Some (Other 3)]) = ab /\
  out_reads (half_pipe [(ab, None); (c_, None)] [] [None; None; Some (Other 3)]) = 1%nat.
Proof. split; reflexivity. Qed.

(* the completeness hypotheses are satisfiable with a non-trivial script *)
Example complete_hyps :
  first_fail [None; None; None; None] = None /\
  writes_ok (map fst (upto_err [(ab, None); ([], None); (c_, Some Reset); (ab, None)])) [(2%nat, None); (5%nat, None)] /\
  ideal [(ab, None); ([], None); (c_, Some Reset); (ab, None)] [(2%nat, None); (5%nat, None)] [None; None; None; None] = ab ++ c_.
Proof. repeat split; cbn; auto. Qed.

(* a relay run: Up reads "ab" then (c, EOF).  Schedule: Down sets its deadlines, Up runs through
   its teardown (closing the covert connection), its closer closes the client connection, then
   Down — whose Read on the covert connection now fails with "closed" — winds down. *)
Definition su : tscript := {| t_reads := [(ab, None); (c_, Some EOF)]; t_writes := []; t_dls := []; t_cdst := Some Reset; t_csrc := None; t_csrc_blocks := false |}.
Definition sd : tscript := {| t_reads := [(ab, None)]; t_writes := []; t_dls := []; t_cdst := None; t_csrc := Some Timeout; t_csrc_blocks := false |}.
Definition sched : list tid := [TDown; TDown; TUp; TUp; TUp; TUp; TUp; TUp; TUp; TUp; TUp; TUpCl; TDown; TDown].
Definition cfin : cfg := let c := run (init_cfg 5 su sd) sched in run c (round_robin (measure c)).

Example relay_example :
  finished cfin = true /\ closedA cfin = true /\ closedB cfin = true /\ wg cfin = O /\ gauge cfin = 5%Z /\
  delivered (th_acc (up cfin)) = ab ++ c_ /\ delivered (th_acc (down cfin)) = [] /\
  th_rlog (down cfin) = [([], Some Closed)] /\            (* interrupted by the other direction's teardown *)
  ncloseA cfin = 2%nat /\ ncloseB cfin = 3%nat /\
  client_err cfin = Some Reset /\ covert_err cfin = None.
Proof. vm_compute. repeat split. Qed.

(* a state in which the run is NOT finished and progress applies *)
Example unfinished_state :
  finished (run (init_cfg 0 su sd) [TUp; TDown]) = false /\ enabled (run (init_cfg 0 su sd) [TUp; TDown]) TUp = true.
Proof. vm_compute. split; reflexivity. Qed.

(* the bound is not trivially large: this schedule makes 14 effective steps of at most 44 *)
Example bound_example : effective (init_cfg 0 su sd) sched = 14%nat /\ measure (init_cfg 0 su sd) = 44%nat.
Proof. vm_compute. split; reflexivity. Qed.

(* a source closer whose Close never returns: the caller still returns, both connections have
   received Close, and exactly that closer is left (inside Close) *)
Definition su_blk : tscript := {| t_reads := [(ab, Some EOF)]; t_writes := []; t_dls := []; t_cdst := None; t_csrc := None; t_csrc_blocks := true |}.
Definition cblk : cfg := let c := run (init_cfg 0 su_blk sd) [] in run c (round_robin (measure c)).
Example blocked_closer :
  finished cblk = true /\ main cblk = MDone /\ wg cblk = O /\ gauge cblk = 0%Z /\
  closedA cblk = true /\ closedB cblk = true /\ clU cblk = CBlocked /\ clD cblk = CDone /\
  delivered (th_acc (up cblk)) = ab.
Proof. vm_compute. repeat split. Qed.
