(* C05 — model of pkg/station/lib/proxies.go: halfPipe and the two-direction relay.
   Definitions only.

   A connection is described by what its calls return: each thread (direction)
   owns a script of results for the Reads it makes on its source, the Writes it
   makes on its destination, its SetDeadline calls (in call order) and the two
   Close calls.  A closed connection fails every call with [Closed].  A Read on
   an exhausted read script is the stall deadline firing ([Timeout]); an
   exhausted write script accepts everything; an exhausted deadline script
   succeeds.

   The I/O contract assumed of a connection (Go's io.Reader / io.Writer):
   Read returns 0 <= n <= len(buf) bytes, Write reports 0 <= n <= len(p). *)
From CJ Require Import Common.Base.

Inductive gerr :=
  | EOF | Reset | Pipe | Timeout | Closed | Refused | Aborted | Unreach
  | Short                (* io.ErrShortWrite, produced by halfPipe itself *)
  | Other (n : N).       (* any error generalizeErr does not know *)

Definition gerr_eqb (a b : gerr) : bool :=
  match a, b with
  | EOF, EOF | Reset, Reset | Pipe, Pipe | Timeout, Timeout | Closed, Closed
  | Refused, Refused | Aborted, Aborted | Unreach, Unreach | Short, Short => true
  | Other x, Other y => x =? y
  | _, _ => false
  end.

(* proxies.go generalizeErr: closed-class errors become nil, the rest stay distinguishable *)
Definition generalize (e : gerr) : option gerr :=
  match e with
  | EOF | Pipe | Closed => None
  | _ => Some e
  end.

Definition rscript := list (bytes * option gerr).     (* what each Read returns: data and possibly an error *)
Definition wscript := list (nat * option gerr).       (* how many bytes each Write accepts, and its error *)
Definition dscript := list (option gerr).             (* result of each SetDeadline call, in call order *)

(* ------------------------------------------------------------------ *)
(* one direction's local state *)

Record acc := {
  delivered : bytes;          (* bytes the sink accepted, in order *)
  counted : N;                (* what was added to BytesUp / BytesDown *)
  rd_err : option gerr;       (* statistics field written on a read error  (Up: ClientConnErr, Down: CovertConnErr) *)
  wr_err : option gerr;       (* statistics field written on a write error (Up: CovertConnErr, Down: ClientConnErr) *)
  n_reads : nat; n_writes : nat; n_dls : nat;      (* calls made *)
}.

Definition acc0 : acc :=
  {| delivered := []; counted := 0; rd_err := None; wr_err := None; n_reads := 0; n_writes := 0; n_dls := 0 |}.

Inductive pc :=
  | PDl0                                   (* SetDeadline(src), initial *)
  | PDl1                                   (* SetDeadline(dst), initial *)
  | PRead                                  (* src.Read *)
  | PWrite (data : bytes) (e : option gerr) (* dst.Write(data); e = the error that came with the read *)
  | PDlS                                   (* SetDeadline(src), refresh *)
  | PDlD                                   (* SetDeadline(dst), refresh *)
  | PClose                                 (* teardown: the source closer has been spawned; Close(dst) *)
  | PDone.                                 (* returned, wg.Done() called *)

Definition set_rd (a : acc) (e : gerr) : acc :=
  match generalize e with
  | Some g => {| delivered := delivered a; counted := counted a; rd_err := Some g; wr_err := wr_err a;
                 n_reads := n_reads a; n_writes := n_writes a; n_dls := n_dls a |}
  | None => a
  end.
Definition set_wr (a : acc) (e : gerr) : acc :=
  match generalize e with
  | Some g => {| delivered := delivered a; counted := counted a; rd_err := rd_err a; wr_err := Some g;
                 n_reads := n_reads a; n_writes := n_writes a; n_dls := n_dls a |}
  | None => a
  end.
Definition tick_r (a : acc) : acc :=
  {| delivered := delivered a; counted := counted a; rd_err := rd_err a; wr_err := wr_err a;
     n_reads := S (n_reads a); n_writes := n_writes a; n_dls := n_dls a |}.
Definition tick_d (a : acc) : acc :=
  {| delivered := delivered a; counted := counted a; rd_err := rd_err a; wr_err := wr_err a;
     n_reads := n_reads a; n_writes := n_writes a; n_dls := S (n_dls a) |}.
Definition deliver (a : acc) (b : bytes) : acc :=
  {| delivered := delivered a ++ b; counted := counted a + N.of_nat (length b); rd_err := rd_err a; wr_err := wr_err a;
     n_reads := n_reads a; n_writes := S (n_writes a); n_dls := n_dls a |}.

(* reaction of the loop to the result of one call *)
Definition on_dl (p_ok : pc) (res : option gerr) (a : acc) : pc * acc :=
  match res with None => (p_ok, tick_d a) | Some _ => (PClose, tick_d a) end.

(* after the data of a read has been handled: act on the error that came with it *)
Definition after_data (e : option gerr) (a : acc) : pc * acc :=
  match e with
  | Some x => (PClose, set_rd a x)
  | None => (PDlS, a)
  end.

Definition on_read (res : bytes * option gerr) (a : acc) : pc * acc :=
  let '(data, e) := res in
  match data with
  | [] => after_data e (tick_r a)
  | _ => (PWrite data e, tick_r a)
  end.

Definition on_write (data : bytes) (e : option gerr) (res : nat * option gerr) (a : acc) : pc * acc :=
  let '(n, ew) := res in
  let n' := Nat.min n (length data) in
  let a1 := deliver a (firstn n' data) in
  match ew with
  | Some x => (PClose, set_wr a1 x)
  | None => if Nat.eqb n' (length data) then after_data e a1 else (PClose, set_wr a1 Short)
  end.

(* script access with the defaults described above *)
Definition next_read (r : rscript) : (bytes * option gerr) * rscript :=
  match r with [] => (([], Some Timeout), []) | x :: r' => (x, r') end.
Definition next_write (w : wscript) (len : nat) : (nat * option gerr) * wscript :=
  match w with [] => ((len, None), []) | x :: w' => (x, w') end.
Definition next_dl (d : dscript) : option gerr * dscript :=
  match d with [] => (None, []) | x :: d' => (x, d') end.

(* ------------------------------------------------------------------ *)
(* sequential semantics: one halfPipe alone, structural in the read script *)

Definition dl_pair (d : dscript) (a : acc) : option (dscript * acc) :=   (* two SetDeadline calls; None = one failed *)
  let '(x, d1) := next_dl d in
  match x with
  | Some _ => None
  | None => let '(y, d2) := next_dl d1 in
            match y with Some _ => None | None => Some (d2, tick_d (tick_d a)) end
  end.
Definition dl_pair_fail_acc (d : dscript) (a : acc) : acc :=             (* acc after a failing pair *)
  let '(x, d1) := next_dl d in
  match x with Some _ => tick_d a | None => tick_d (tick_d a) end.

(* from the loop head (pc = PRead) *)
Fixpoint loop (r : rscript) (w : wscript) (d : dscript) (a : acc) : acc :=
  match r with
  | [] => snd (on_read ([], Some Timeout) a)
  | (data, e) :: r' =>
      let '(p1, a1) := on_read (data, e) a in
      match p1 with
      | PWrite dt er =>
          let '(res, w') := next_write w (length dt) in
          let '(p2, a2) := on_write dt er res a1 in
          match p2 with
          | PDlS => match dl_pair d a2 with
                    | Some (d', a3) => loop r' w' d' a3
                    | None => dl_pair_fail_acc d a2
                    end
          | _ => a2
          end
      | PDlS => match dl_pair d a1 with
                | Some (d', a3) => loop r' w d' a3
                | None => dl_pair_fail_acc d a1
                end
      | _ => a1
      end
  end.

Definition half_pipe_acc (r : rscript) (w : wscript) (d : dscript) : acc :=
  match dl_pair d acc0 with
  | Some (d', a) => loop r w d' a
  | None => dl_pair_fail_acc d acc0
  end.

(* the Close results only influence the error strings *)
Definition close_effect (res : option gerr) (own other : option gerr) : option gerr * option gerr :=
  (* returns (field written if empty, other field) after closeConn *)
  match res with
  | None => (own, other)
  | Some e =>
      match generalize e with
      | None => (own, other)
      | Some Timeout => (Some Timeout, Some Timeout)
      | Some g => (match own with None => Some g | Some _ => own end, other)
      end
  end.

Record hp_out := {
  out_delivered : bytes; out_counted : N;
  closed_src : bool; closed_dst : bool;
  out_rd_err : option gerr; out_wr_err : option gerr;
  out_reads : nat; out_writes : nat; out_dls : nat;
}.

(* every exit of halfPipe runs the deferred teardown: Close(dst) synchronously, Close(src) in a
   goroutine; [closer_first] says which of the two Close calls completes first. *)
Definition half_pipe_full (r : rscript) (w : wscript) (d : dscript)
           (cdst csrc : option gerr) (closer_first : bool) : hp_out :=
  let a := half_pipe_acc r w d in
  (* Close(dst) reports into the read-error field, Close(src) into the write-error field *)
  let '(rd, wr) :=
    if closer_first then
      let '(wr1, rd1) := close_effect csrc (wr_err a) (rd_err a) in
      close_effect cdst rd1 wr1
    else
      let '(rd1, wr1) := close_effect cdst (rd_err a) (wr_err a) in
      let '(wr2, rd2) := close_effect csrc wr1 rd1 in (rd2, wr2) in
  {| out_delivered := delivered a; out_counted := counted a;
     closed_src := true; closed_dst := true;
     out_rd_err := rd; out_wr_err := wr;
     out_reads := n_reads a; out_writes := n_writes a; out_dls := n_dls a |}.

Definition half_pipe (r : rscript) (w : wscript) (d : dscript) : hp_out :=
  half_pipe_full r w d None None false.

(* ------------------------------------------------------------------ *)
(* the specification: what a faithful relay delivers *)

(* reads up to and including the first one that carries an error *)
Fixpoint upto_err (r : rscript) : rscript :=
  match r with
  | [] => []
  | (data, None) :: r' => (data, None) :: upto_err r'
  | (data, Some e) :: _ => [(data, Some e)]
  end.

(* non-empty chunks cut at the first failing or short write *)
Fixpoint cut (chunks : list bytes) (w : wscript) : bytes :=
  match chunks with
  | [] => []
  | [] :: cs => cut cs w                                    (* an empty read is not written *)
  | c :: cs =>
      match w with
      | [] => c ++ cut cs []
      | (n, ew) :: w' =>
          match ew with
          | None => if Nat.leb (length c) n then c ++ cut cs w' else firstn n c
          | Some _ => firstn n c
          end
      end
  end.

(* how many Reads happen before a failing SetDeadline stops the loop (None = no limit) *)
Fixpoint first_fail (d : dscript) : option nat :=
  match d with
  | [] => None
  | Some _ :: _ => Some O
  | None :: d' => option_map S (first_fail d')
  end.
Definition reads_allowed (d : dscript) : option nat := option_map (fun j => Nat.div2 j) (first_fail d).
Definition take_opt {A} (k : option nat) (l : list A) : list A :=
  match k with None => l | Some n => firstn n l end.

Definition ideal (r : rscript) (w : wscript) (d : dscript) : bytes :=
  cut (map fst (upto_err (take_opt (reads_allowed d) r))) w.

(* ------------------------------------------------------------------ *)
(* the relay: two directions, their source closers and the joining caller, under a scheduler *)

Record tscript := {
  t_reads : rscript; t_writes : wscript; t_dls : dscript;
  t_cdst : option gerr; t_csrc : option gerr;
  t_csrc_blocks : bool;      (* the asynchronous Close(src) never returns *)
}.

Record thread := {
  th_pc : pc; th_acc : acc; th_scr : tscript;
  (* ghost: the results this direction's calls actually returned *)
  th_rlog : rscript; th_wlog : wscript; th_dlog : dscript;
}.

(* source closer: not started | started, about to call Close | returned | inside Close forever *)
Inductive cl_state := CNot | CPending | CDone | CBlocked.
Inductive main_pc := MWait | MFinal | MDone.

(* closeConn distinguishes connection kinds: a *net.TCPConn gets SetLinger(10 s) and then Close,
   every other connection just Close.  There is no other way a connection is shut down: in
   particular no step closes only one half of it. *)
Inductive kind := KTcp | KOther.
(* the shutdown calls carry their ARGUMENTS: SetLinger's is the linger time in whole seconds (the
   value that decides what Close does with data still queued in the socket: C05/ModelTcp.v) *)
Inductive cop := CSetLinger (secs : nat) | CClose.
(* proxies.go: const resetIfNotClosedAfter = 10 // seconds;  cTCP.SetLinger(resetIfNotClosedAfter) *)
Definition linger_secs : nat := 10.
Definition close_ops (k : kind) : list cop :=
  match k with KTcp => [CSetLinger linger_secs; CClose] | KOther => [CClose] end.
Inductive tid := TUp | TDown | TUpCl | TDownCl | TMain.

Record cfg := {
  closedA : bool; closedB : bool;                 (* A = client connection, B = covert connection *)
  ncloseA : nat; ncloseB : nat;
  kindA : kind; kindB : kind;                     (* what sort of connection each one is *)
  opsA : list cop; opsB : list cop;               (* the shutdown calls made on each connection, in order *)
  up : thread; down : thread;
  clU : cl_state; clD : cl_state;
  wg : nat; gauge : Z; main : main_pc;
  client_err : option gerr; covert_err : option gerr;      (* the shared tunnelStats strings *)
}.

Definition init_thread (s : tscript) : thread :=
  {| th_pc := PDl0; th_acc := acc0; th_scr := s; th_rlog := []; th_wlog := []; th_dlog := [] |}.

(* state right after  wg.Add(2); addSession(); go halfPipe(up); go halfPipe(down) *)
Definition init_cfg_k (ka kb : kind) (g0 : Z) (su sd : tscript) : cfg :=
  {| closedA := false; closedB := false; ncloseA := 0; ncloseB := 0;
     kindA := ka; kindB := kb; opsA := []; opsB := [];
     up := init_thread su; down := init_thread sd; clU := CNot; clD := CNot;
     wg := 2; gauge := (g0 + 1)%Z; main := MWait; client_err := None; covert_err := None |}.
Definition init_cfg (g0 : Z) (su sd : tscript) : cfg := init_cfg_k KOther KOther g0 su sd.

Definition set_scr (s : tscript) (r : rscript) (w : wscript) (d : dscript) : tscript :=
  {| t_reads := r; t_writes := w; t_dls := d; t_cdst := t_cdst s; t_csrc := t_csrc s; t_csrc_blocks := t_csrc_blocks s |}.

(* one call of a direction: [src_closed]/[dst_closed] are the connection states it sees.
   Returns the new thread state. *)
Definition thread_step (t : thread) (src_closed dst_closed : bool) : thread :=
  let s := th_scr t in
  let a := th_acc t in
  let dl (target_closed : bool) (p_ok : pc) :=
      let '(res, d') := if target_closed then (Some Closed, t_dls s) else next_dl (t_dls s) in
      let '(p, a') := on_dl p_ok res a in
      {| th_pc := p; th_acc := a'; th_scr := set_scr s (t_reads s) (t_writes s) d';
         th_rlog := th_rlog t; th_wlog := th_wlog t; th_dlog := th_dlog t ++ [res] |} in
  match th_pc t with
  | PDl0 => dl src_closed PDl1
  | PDl1 => dl dst_closed PRead
  | PDlS => dl src_closed PDlD
  | PDlD => dl dst_closed PRead
  | PRead =>
      let '(res, r') := if src_closed then (([], Some Closed), t_reads s) else next_read (t_reads s) in
      let '(p, a') := on_read res a in
      {| th_pc := p; th_acc := a'; th_scr := set_scr s r' (t_writes s) (t_dls s);
         th_rlog := th_rlog t ++ [res]; th_wlog := th_wlog t; th_dlog := th_dlog t |}
  | PWrite data e =>
      let '(res, w') := if dst_closed then ((O, Some Closed), t_writes s) else next_write (t_writes s) (length data) in
      let '(p, a') := on_write data e res a in
      {| th_pc := p; th_acc := a'; th_scr := set_scr s (t_reads s) w' (t_dls s);
         th_rlog := th_rlog t; th_wlog := th_wlog t ++ [res]; th_dlog := th_dlog t |}
  | PClose =>
      {| th_pc := PDone; th_acc := a; th_scr := s;
         th_rlog := th_rlog t; th_wlog := th_wlog t; th_dlog := th_dlog t |}
  | PDone => t
  end.

Definition pc_is_close (p : pc) : bool := match p with PClose => true | _ => false end.
Definition pc_is_done (p : pc) : bool := match p with PDone => true | _ => false end.

Definition close_res (already : bool) (scripted : option gerr) : option gerr :=
  if already then Some Closed else scripted.

(* stats update of closeConn; [to_covert] = the branch `isUpload == isSrc` *)
Definition stats_close (res : option gerr) (to_covert : bool) (cl cv : option gerr) : option gerr * option gerr :=
  match res with
  | None => (cl, cv)
  | Some e =>
      match generalize e with
      | None => (cl, cv)
      | Some Timeout => (Some Timeout, Some Timeout)
      | Some g => if to_covert then (cl, match cv with None => Some g | Some _ => cv end)
                  else (match cl with None => Some g | Some _ => cl end, cv)
      end
  end.

(* a direction assigns (not merges) its own read / write error into the shared statistics *)
Definition assign_err (before after shared : option gerr) : option gerr :=
  match after, before with Some g, None => Some g | _, _ => shared end.

Definition step (c : cfg) (t : tid) : cfg :=
  match t with
  | TUp =>
      let th := up c in
      match th_pc th with
      | PDone => c
      | PClose =>
          (* closeConn(dst = B, isSrc = false): isUpload <> isSrc -> client field *)
          let res := close_res (closedB c) (t_cdst (th_scr th)) in
          let '(cl, cv) := stats_close res false (client_err c) (covert_err c) in
          {| closedA := closedA c; closedB := true; ncloseA := ncloseA c; ncloseB := S (ncloseB c);
             kindA := kindA c; kindB := kindB c; opsA := opsA c; opsB := opsB c ++ close_ops (kindB c);
             up := thread_step th (closedA c) (closedB c); down := down c; clU := clU c; clD := clD c;
             wg := pred (wg c); gauge := gauge c; main := main c; client_err := cl; covert_err := cv |}
      | _ =>
          let th' := thread_step th (closedA c) (closedB c) in
          {| closedA := closedA c; closedB := closedB c; ncloseA := ncloseA c; ncloseB := ncloseB c;
             kindA := kindA c; kindB := kindB c; opsA := opsA c; opsB := opsB c;
             up := th'; down := down c;
             clU := if pc_is_close (th_pc th') then CPending else clU c; clD := clD c;
             wg := wg c; gauge := gauge c; main := main c;
             (* Up: read errors -> ClientConnErr, write errors -> CovertConnErr (assigned, not merged) *)
             client_err := assign_err (rd_err (th_acc th)) (rd_err (th_acc th')) (client_err c);
             covert_err := assign_err (wr_err (th_acc th)) (wr_err (th_acc th')) (covert_err c) |}
      end
  | TDown =>
      let th := down c in
      match th_pc th with
      | PDone => c
      | PClose =>
          (* closeConn(dst = A, isSrc = false): isUpload = isSrc = false -> covert field *)
          let res := close_res (closedA c) (t_cdst (th_scr th)) in
          let '(cl, cv) := stats_close res true (client_err c) (covert_err c) in
          {| closedA := true; closedB := closedB c; ncloseA := S (ncloseA c); ncloseB := ncloseB c;
             kindA := kindA c; kindB := kindB c; opsA := opsA c ++ close_ops (kindA c); opsB := opsB c;
             up := up c; down := thread_step th (closedB c) (closedA c); clU := clU c; clD := clD c;
             wg := pred (wg c); gauge := gauge c; main := main c; client_err := cl; covert_err := cv |}
      | _ =>
          let th' := thread_step th (closedB c) (closedA c) in
          {| closedA := closedA c; closedB := closedB c; ncloseA := ncloseA c; ncloseB := ncloseB c;
             kindA := kindA c; kindB := kindB c; opsA := opsA c; opsB := opsB c;
             up := up c; down := th';
             clU := clU c; clD := if pc_is_close (th_pc th') then CPending else clD c;
             wg := wg c; gauge := gauge c; main := main c;
             (* Down: read errors -> CovertConnErr, write errors -> ClientConnErr *)
             client_err := assign_err (wr_err (th_acc th)) (wr_err (th_acc th')) (client_err c);
             covert_err := assign_err (rd_err (th_acc th)) (rd_err (th_acc th')) (covert_err c) |}
      end
  | TUpCl =>
      match clU c with
      | CPending =>
          (* closeConn(src = A, isSrc = true) of Up: isUpload = isSrc -> covert field *)
          (* the connection is marked closing as soon as Close is entered; a Close that blocks never
             returns, so it records nothing and its goroutine stays *)
          let blk := t_csrc_blocks (th_scr (up c)) in
          let res := if blk then None else close_res (closedA c) (t_csrc (th_scr (up c))) in
          let '(cl, cv) := stats_close res true (client_err c) (covert_err c) in
          {| closedA := true; closedB := closedB c; ncloseA := S (ncloseA c); ncloseB := ncloseB c;
             kindA := kindA c; kindB := kindB c; opsA := opsA c ++ close_ops (kindA c); opsB := opsB c;
             up := up c; down := down c; clU := if blk then CBlocked else CDone; clD := clD c;
             wg := wg c; gauge := gauge c; main := main c; client_err := cl; covert_err := cv |}
      | _ => c
      end
  | TDownCl =>
      match clD c with
      | CPending =>
          (* closeConn(src = B, isSrc = true) of Down: isUpload <> isSrc -> client field *)
          let blk := t_csrc_blocks (th_scr (down c)) in
          let res := if blk then None else close_res (closedB c) (t_csrc (th_scr (down c))) in
          let '(cl, cv) := stats_close res false (client_err c) (covert_err c) in
          {| closedA := closedA c; closedB := true; ncloseA := ncloseA c; ncloseB := S (ncloseB c);
             kindA := kindA c; kindB := kindB c; opsA := opsA c; opsB := opsB c ++ close_ops (kindB c);
             up := up c; down := down c; clU := clU c; clD := if blk then CBlocked else CDone;
             wg := wg c; gauge := gauge c; main := main c; client_err := cl; covert_err := cv |}
      | _ => c
      end
  | TMain =>
      match main c, wg c with
      | MWait, O =>
          (* wg.Wait() returns; removeSession() *)
          {| closedA := closedA c; closedB := closedB c; ncloseA := ncloseA c; ncloseB := ncloseB c;
             kindA := kindA c; kindB := kindB c; opsA := opsA c; opsB := opsB c;
             up := up c; down := down c; clU := clU c; clD := clD c;
             wg := wg c; gauge := (gauge c - 1)%Z; main := MFinal; client_err := client_err c; covert_err := covert_err c |}
      | MFinal, _ =>
          (* deferred covertConn.Close() *)
          {| closedA := closedA c; closedB := true; ncloseA := ncloseA c; ncloseB := S (ncloseB c);
             kindA := kindA c; kindB := kindB c; opsA := opsA c; opsB := opsB c ++ close_ops (kindB c);
             up := up c; down := down c; clU := clU c; clD := clD c;
             wg := wg c; gauge := gauge c; main := MDone; client_err := client_err c; covert_err := covert_err c |}
      | _, _ => c
      end
  end.

Definition run (c : cfg) (s : list tid) : cfg := fold_left step s c.

Definition enabled (c : cfg) (t : tid) : bool :=
  match t with
  | TUp => negb (pc_is_done (th_pc (up c)))
  | TDown => negb (pc_is_done (th_pc (down c)))
  | TUpCl => match clU c with CPending => true | _ => false end
  | TDownCl => match clD c with CPending => true | _ => false end
  | TMain => match main c, wg c with MWait, O => true | MFinal, _ => true | _, _ => false end
  end.

(* a closer is over when it has returned or sits inside the connection's own Close forever *)
Definition cl_over (s : cl_state) : bool := match s with CDone | CBlocked => true | _ => false end.

(* nothing is left to run: both directions and the caller have returned and no closer is waiting
   to make its call *)
Definition finished (c : cfg) : bool :=
  pc_is_done (th_pc (up c)) && pc_is_done (th_pc (down c)) &&
  cl_over (clU c) && cl_over (clD c) && match main c with MDone => true | _ => false end.

(* a bound on the number of effective steps *)
Definition pc_rank (p : pc) (k : nat) : nat :=
  match p with
  | PDone => 0 | PClose => 1
  | PRead => 4 * k + 2
  | PDlD => 4 * k + 3
  | PDlS => 4 * k + 4
  | PWrite _ _ => 4 * k + 5
  | PDl1 => 4 * k + 3
  | PDl0 => 4 * k + 4
  end.
Definition thread_measure (t : thread) : nat := pc_rank (th_pc t) (length (t_reads (th_scr t))).
Definition cl_measure (s : cl_state) : nat := match s with CDone | CBlocked => 0 | _ => 1 end.
Definition main_measure (m : main_pc) : nat := match m with MWait => 2 | MFinal => 1 | MDone => 0 end.
Definition measure (c : cfg) : nat :=
  2 * thread_measure (up c) + 2 * thread_measure (down c) + cl_measure (clU c) + cl_measure (clD c) + main_measure (main c).

(* the schedule the driver uses to finish a run: round robin *)
Fixpoint round_robin (n : nat) : list tid :=
  match n with O => [] | S n' => [TUp; TDown; TUpCl; TDownCl; TMain] ++ round_robin n' end.
