(* C05 — proofs about one halfPipe alone (sequential semantics). *)
From CJ Require Import Common.Base C05.Model.
From Coq Require Import Lia ZifyN ZifyNat ZifyBool.

(* ---------------- accumulator bookkeeping ---------------- *)

Lemma delivered_set_rd a e : delivered (set_rd a e) = delivered a.
Proof. unfold set_rd; destruct (generalize e); reflexivity. Qed.
Lemma delivered_set_wr a e : delivered (set_wr a e) = delivered a.
Proof. unfold set_wr; destruct (generalize e); reflexivity. Qed.
Lemma counted_set_rd a e : counted (set_rd a e) = counted a.
Proof. unfold set_rd; destruct (generalize e); reflexivity. Qed.
Lemma counted_set_wr a e : counted (set_wr a e) = counted a.
Proof. unfold set_wr; destruct (generalize e); reflexivity. Qed.

Definition acc_ok (a : acc) : Prop := counted a = N.of_nat (length (delivered a)).

Lemma acc_ok_set_rd a e : acc_ok a -> acc_ok (set_rd a e).
Proof. unfold acc_ok; now rewrite delivered_set_rd, counted_set_rd. Qed.
Lemma acc_ok_set_wr a e : acc_ok a -> acc_ok (set_wr a e).
Proof. unfold acc_ok; now rewrite delivered_set_wr, counted_set_wr. Qed.
Lemma acc_ok_tick_r a : acc_ok a -> acc_ok (tick_r a).
Proof. exact (fun h => h). Qed.
Lemma acc_ok_tick_d a : acc_ok a -> acc_ok (tick_d a).
Proof. exact (fun h => h). Qed.
Lemma acc_ok_deliver a b : acc_ok a -> acc_ok (deliver a b).
Proof. unfold acc_ok; cbn; intros ->; rewrite app_length; lia. Qed.

Lemma acc_ok_after_data e a : acc_ok a -> acc_ok (snd (after_data e a)).
Proof. destruct e; cbn; auto using acc_ok_set_rd. Qed.
Lemma acc_ok_on_read res a : acc_ok a -> acc_ok (snd (on_read res a)).
Proof. destruct res as [[|b data] e]; cbn; intros; auto using acc_ok_after_data, acc_ok_tick_r. Qed.
Lemma acc_ok_on_write data e res a : acc_ok a -> acc_ok (snd (on_write data e res a)).
Proof.
  destruct res as [n [x|]]; cbn [on_write]; intros H.
  - apply acc_ok_set_wr, acc_ok_deliver, H.
  - destruct (Nat.eqb _ _).
    + apply acc_ok_after_data, acc_ok_deliver, H.
    + apply acc_ok_set_wr, acc_ok_deliver, H.
Qed.
Lemma acc_ok_on_dl p res a : acc_ok a -> acc_ok (snd (on_dl p res a)).
Proof. destruct res; cbn; auto. Qed.

Lemma dl_pair_acc_ok d a d' a' : dl_pair d a = Some (d', a') -> acc_ok a -> acc_ok a'.
Proof.
  unfold dl_pair. destruct (next_dl d) as [[x|] d1]; try discriminate.
  destruct (next_dl d1) as [[y|] d2]; try discriminate. intros [= <- <-]; auto.
Qed.
Lemma dl_pair_fail_acc_ok d a : acc_ok a -> acc_ok (dl_pair_fail_acc d a).
Proof. unfold dl_pair_fail_acc. destruct (next_dl d) as [[x|] d1]; auto. Qed.
Lemma dl_pair_delivered d a d' a' : dl_pair d a = Some (d', a') -> delivered a' = delivered a.
Proof.
  unfold dl_pair. destruct (next_dl d) as [[x|] d1]; try discriminate.
  destruct (next_dl d1) as [[y|] d2]; try discriminate. now intros [= <- <-].
Qed.
Lemma dl_pair_fail_delivered d a : delivered (dl_pair_fail_acc d a) = delivered a.
Proof. unfold dl_pair_fail_acc. destruct (next_dl d) as [[x|] d1]; auto. Qed.

(* ---------------- counts_equal_delivered ---------------- *)

Lemma loop_acc_ok : forall r w d a, acc_ok a -> acc_ok (loop r w d a).
Proof.
  induction r as [|[data e] r IH]; intros w d a H.
  - cbn [loop]. apply (acc_ok_on_read ([], Some Timeout) a H).
  - cbn [loop].
    pose proof (acc_ok_on_read (data, e) a H) as H1.
    destruct (on_read (data, e) a) as [p1 a1]. cbn in H1.
    destruct p1; auto.
    + (* PWrite *)
      destruct (next_write w (length data0)) as [res w'].
      pose proof (acc_ok_on_write data0 e0 res a1 H1) as H2.
      destruct (on_write data0 e0 res a1) as [p2 a2]. cbn in H2.
      destruct p2; auto.
      destruct (dl_pair d a2) as [[d' a3]|] eqn:E.
      * apply IH. eapply dl_pair_acc_ok; eauto.
      * now apply dl_pair_fail_acc_ok.
    + destruct (dl_pair d a1) as [[d' a3]|] eqn:E.
      * apply IH. eapply dl_pair_acc_ok; eauto.
      * now apply dl_pair_fail_acc_ok.
Qed.

Lemma half_pipe_acc_ok r w d : acc_ok (half_pipe_acc r w d).
Proof.
  unfold half_pipe_acc. destruct (dl_pair d acc0) as [[d' a]|] eqn:E.
  - apply loop_acc_ok. eapply dl_pair_acc_ok; eauto. reflexivity.
  - apply dl_pair_fail_acc_ok. reflexivity.
Qed.

Lemma counts_equal_delivered r w d cd cs cf :
  out_counted (half_pipe_full r w d cd cs cf) = N.of_nat (length (out_delivered (half_pipe_full r w d cd cs cf))).
Proof.
  unfold half_pipe_full.
  destruct cf.
  - destruct (close_effect cs _ _) as [wr1 rd1]. destruct (close_effect cd rd1 wr1). cbn. apply half_pipe_acc_ok.
  - destruct (close_effect cd _ _) as [rd1 wr1]. destruct (close_effect cs wr1 rd1). cbn. apply half_pipe_acc_ok.
Qed.

(* ---------------- always_torn_down (sequential) ---------------- *)

Lemma torn_down_seq r w d cd cs cf :
  closed_src (half_pipe_full r w d cd cs cf) = true /\ closed_dst (half_pipe_full r w d cd cs cf) = true.
Proof.
  unfold half_pipe_full.
  destruct cf.
  - destruct (close_effect cs _ _) as [wr1 rd1]. destruct (close_effect cd rd1 wr1). now cbn.
  - destruct (close_effect cd _ _) as [rd1 wr1]. destruct (close_effect cs wr1 rd1). now cbn.
Qed.

(* ---------------- delivered_is_prefix_and_complete ---------------- *)

Definition allowed_head (d : dscript) : option nat := option_map (fun j => S (Nat.div2 j)) (first_fail d).

Lemma dl_pair_some_allowed d a d' a' :
  dl_pair d a = Some (d', a') ->
  allowed_head d = option_map S (allowed_head d') /\ reads_allowed d = allowed_head d'.
Proof.
  unfold dl_pair, allowed_head, reads_allowed.
  destruct d as [|[x|] d1]; cbn; try discriminate.
  - intros [= <- _]. now cbn.
  - destruct d1 as [|[y|] d2]; cbn; try discriminate.
    + intros [= <- _]. now cbn.
    + intros [= <- _]. destruct (first_fail d2); now cbn.
Qed.

Lemma dl_pair_none_allowed d a :
  dl_pair d a = None -> allowed_head d = Some 1%nat /\ reads_allowed d = Some 0%nat.
Proof.
  unfold dl_pair, allowed_head, reads_allowed.
  destruct d as [|[x|] d1]; cbn; try discriminate; auto.
  destruct d1 as [|[y|] d2]; cbn; try discriminate; auto.
Qed.

Lemma firstn_min_len {A} n (l : list A) : firstn (Nat.min n (length l)) l = firstn n l.
Proof.
  destruct (Nat.le_ge_cases n (length l)).
  - now rewrite Nat.min_l.
  - rewrite Nat.min_r by assumption. rewrite firstn_all. symmetry. now apply firstn_all2.
Qed.

Definition spec_from (k : option nat) (r : rscript) (w : wscript) : bytes :=
  cut (map fst (upto_err (take_opt k r))) w.

Lemma spec_from_S_none k data r w :
  spec_from (option_map S k) ((data, None) :: r) w = cut (data :: map fst (upto_err (take_opt k r))) w.
Proof. unfold spec_from. destruct k; reflexivity. Qed.

Lemma spec_from_S_some k data x r w :
  spec_from (option_map S k) ((data, Some x) :: r) w = cut [data] w.
Proof. unfold spec_from. destruct k; reflexivity. Qed.

Lemma spec_from_1 data e r w : spec_from (Some 1%nat) ((data, e) :: r) w = cut [data] w.
Proof. unfold spec_from. cbn. destruct e; reflexivity. Qed.

Lemma allowed_head_pos d : allowed_head d = None \/ exists n, allowed_head d = Some (S n).
Proof. unfold allowed_head. destruct (first_fail d); cbn; eauto. Qed.

Lemma cut_nil_chunk cs w : cut ([] :: cs) w = cut cs w.
Proof. destruct cs; reflexivity. Qed.

Lemma loop_delivered : forall r w d a,
  delivered (loop r w d a) = delivered a ++ spec_from (allowed_head d) r w.
Proof.
  induction r as [|[data e] r IH]; intros w d a.
  - cbn [loop on_read after_data snd]. rewrite delivered_set_rd. cbn.
    unfold spec_from. destruct (allowed_head d) as [[|n]|]; cbn; now rewrite app_nil_r.
  - cbn [loop on_read].
    destruct data as [|b data].
    + (* empty read *)
      destruct e as [x|]; cbn [after_data].
      * rewrite delivered_set_rd. cbn.
        destruct (allowed_head_pos d) as [-> | [n ->]];
          unfold spec_from; cbn; now rewrite app_nil_r.
      * destruct (dl_pair d (tick_r a)) as [[d' a3]|] eqn:E.
        -- rewrite IH. rewrite (dl_pair_delivered _ _ _ _ E). cbn.
           destruct (dl_pair_some_allowed _ _ _ _ E) as [-> _].
           rewrite spec_from_S_none. now rewrite cut_nil_chunk.
        -- rewrite dl_pair_fail_delivered. cbn.
           destruct (dl_pair_none_allowed _ _ E) as [-> _].
           rewrite spec_from_1. cbn. now rewrite app_nil_r.
    + (* data to write *)
      set (dt := b :: data).
      destruct (next_write w (length dt)) as [res w'] eqn:EW.
      destruct res as [n ew].
      cbn [on_write].
      destruct ew as [x|].
      * (* failing write *)
        rewrite delivered_set_wr. cbn [deliver delivered tick_r].
        rewrite firstn_min_len.
        f_equal. symmetry.
        destruct w as [|[n0 ew0] w0]; cbn in EW; [discriminate|].
        injection EW as -> -> ->.
        destruct (allowed_head_pos d) as [-> | [k ->]]; unfold spec_from; cbn; destruct e; reflexivity.
      * destruct (Nat.eqb (Nat.min n (length dt)) (length dt)) eqn:EQ.
        -- (* full write *)
           apply Nat.eqb_eq in EQ. rewrite EQ, firstn_all.
           assert (Hcut : forall cs, cut (dt :: cs) w = dt ++ cut cs w').
           { intros cs. destruct w as [|[n0 ew0] w0]; cbn in EW.
             - injection EW as <- <-. reflexivity.
             - injection EW as -> -> ->. subst dt. cbn [cut].
               assert (Nat.leb (length (b :: data)) n = true) as -> by (apply Nat.leb_le; lia).
               reflexivity. }
           destruct e as [x|]; cbn [after_data].
           ++ rewrite delivered_set_rd. cbn [deliver delivered tick_r].
              destruct (allowed_head_pos d) as [-> | [k ->]].
              ** unfold spec_from. cbn [take_opt upto_err map fst]. rewrite Hcut. cbn. now rewrite app_nil_r.
              ** change (Some (S k)) with (option_map S (Some k)). rewrite spec_from_S_some.
                 rewrite Hcut. cbn. now rewrite app_nil_r.
           ++ destruct (dl_pair d (deliver (tick_r a) dt)) as [[d' a3]|] eqn:E.
              ** rewrite IH. rewrite (dl_pair_delivered _ _ _ _ E). cbn [deliver delivered tick_r].
                 destruct (dl_pair_some_allowed _ _ _ _ E) as [-> _].
                 rewrite spec_from_S_none, Hcut. now rewrite app_assoc.
              ** rewrite dl_pair_fail_delivered. cbn [deliver delivered tick_r].
                 destruct (dl_pair_none_allowed _ _ E) as [-> _].
                 rewrite spec_from_1, Hcut. cbn. now rewrite app_nil_r.
        -- (* short write *)
           cbn [fst snd]. rewrite delivered_set_wr. cbn [deliver delivered tick_r].
           rewrite firstn_min_len.
           apply Nat.eqb_neq in EQ.
           f_equal. symmetry.
           destruct w as [|[n0 ew0] w0]; cbn in EW.
           { injection EW as <- _. subst dt. cbn [length] in EQ. lia. }
           injection EW as -> -> ->.
           assert (Nat.leb (length dt) n = false) as Hl by (apply Nat.leb_gt; lia).
           destruct (allowed_head_pos d) as [-> | [k ->]]; unfold spec_from; cbn [take_opt firstn upto_err map fst];
             destruct e; cbn [upto_err map fst]; subst dt; cbn [cut]; cbn [cut] in Hl; rewrite Hl; reflexivity.
Qed.

Lemma half_pipe_acc_delivered r w d : delivered (half_pipe_acc r w d) = ideal r w d.
Proof.
  unfold half_pipe_acc, ideal.
  destruct (dl_pair d acc0) as [[d' a]|] eqn:E.
  - rewrite loop_delivered, (dl_pair_delivered _ _ _ _ E). cbn.
    destruct (dl_pair_some_allowed _ _ _ _ E) as [_ ->]. reflexivity.
  - rewrite dl_pair_fail_delivered. cbn.
    destruct (dl_pair_none_allowed _ _ E) as [_ ->]. reflexivity.
Qed.

Lemma delivered_is_ideal r w d cd cs cf :
  out_delivered (half_pipe_full r w d cd cs cf) = ideal r w d.
Proof.
  unfold half_pipe_full.
  destruct cf.
  - destruct (close_effect cs _ _) as [wr1 rd1]. destruct (close_effect cd rd1 wr1). cbn. apply half_pipe_acc_delivered.
  - destruct (close_effect cd _ _) as [rd1 wr1]. destruct (close_effect cs wr1 rd1). cbn. apply half_pipe_acc_delivered.
Qed.

(* ---------------- consequences of the spec, stated without the loop ---------------- *)

Definition all_data (r : rscript) : bytes := concat (map fst r).

Lemma cut_prefix : forall cs w, exists q, concat cs = cut cs w ++ q.
Proof.
  induction cs as [|c cs IH]; intros w.
  - exists []. reflexivity.
  - destruct c as [|b c].
    + rewrite cut_nil_chunk. cbn. apply IH.
    + destruct w as [|[n [x|]] w'].
      * destruct (IH []) as [q Hq]. exists q. cbn [cut concat]. rewrite Hq. now rewrite app_assoc.
      * exists (skipn n (b :: c) ++ concat cs). cbn [cut concat]. now rewrite app_assoc, firstn_skipn.
      * cbn [cut]. destruct (Nat.leb (length (b :: c)) n).
        -- destruct (IH w') as [q Hq]. exists q. cbn [concat]. rewrite Hq. now rewrite app_assoc.
        -- exists (skipn n (b :: c) ++ concat cs). cbn [concat]. now rewrite app_assoc, firstn_skipn.
Qed.

Lemma upto_err_prefix : forall r, exists q, r = upto_err r ++ q.
Proof.
  induction r as [|[data [x|]] r IH].
  - exists []. reflexivity.
  - exists r. reflexivity.
  - destruct IH as [q Hq]. exists q. cbn. now rewrite <- Hq.
Qed.

Lemma take_opt_prefix {A} k (l : list A) : exists q, l = take_opt k l ++ q.
Proof. destruct k as [n|]; cbn. - exists (skipn n l). now rewrite firstn_skipn. - exists []. now rewrite app_nil_r. Qed.

(* nothing is invented, duplicated or reordered: the delivered bytes are a prefix of what was read *)
Lemma ideal_is_prefix r w d : exists q, all_data r = ideal r w d ++ q.
Proof.
  unfold ideal, all_data.
  destruct (take_opt_prefix (reads_allowed d) r) as [q1 H1].
  destruct (upto_err_prefix (take_opt (reads_allowed d) r)) as [q2 H2].
  destruct (cut_prefix (map fst (upto_err (take_opt (reads_allowed d) r))) w) as [q3 H3].
  exists (q3 ++ concat (map fst q2) ++ concat (map fst q1)).
  rewrite H1 at 1. rewrite H2 at 1. rewrite !map_app, !concat_app, H3. now rewrite !app_assoc.
Qed.

(* all writes succeed in full (or the write script is exhausted) *)
Fixpoint writes_ok (cs : list bytes) (w : wscript) : Prop :=
  match cs with
  | [] => True
  | [] :: cs' => writes_ok cs' w
  | c :: cs' => match w with
                | [] => True
                | (n, ew) :: w' => ew = None /\ (length c <= n)%nat /\ writes_ok cs' w'
                end
  end.

Lemma cut_complete : forall cs w, writes_ok cs w -> cut cs w = concat cs.
Proof.
  induction cs as [|c cs IH]; intros w H; [reflexivity|].
  destruct c as [|b c].
  - rewrite cut_nil_chunk. cbn. apply IH. exact H.
  - destruct w as [|[n ew] w'].
    + cbn [cut concat]. f_equal. apply IH. destruct cs as [|[|] ?]; cbn; auto.
      clear. induction cs as [|[|] ? ?]; cbn; auto.
    + cbn in H. destruct H as (-> & Hl & H). cbn [cut concat].
      apply Nat.leb_le in Hl. cbn [length] in Hl. cbn [length]. rewrite Hl. f_equal. now apply IH.
Qed.

(* complete: with working writes and deadlines everything read up to AND INCLUDING the erroring
   read is delivered *)
Lemma ideal_complete r w d :
  first_fail d = None ->
  writes_ok (map fst (upto_err r)) w ->
  ideal r w d = all_data (upto_err r).
Proof.
  intros Hd Hw. unfold ideal, reads_allowed. rewrite Hd. cbn. now apply cut_complete.
Qed.

Lemma upto_err_app_err r data x r' :
  Forall (fun c => snd c = None) r -> upto_err (r ++ (data, Some x) :: r') = r ++ [(data, Some x)].
Proof.
  induction r as [|[dt e] r IH]; intros H; [reflexivity|].
  inversion H as [|? ? He Hr]; subst. cbn in He. subst e. cbn. f_equal. now apply IH.
Qed.

(* the defect of the pinned tree in one line: data returned together with an error is delivered *)
Lemma data_with_error_is_delivered data x :
  ideal [(data, Some x)] [] [] = data.
Proof.
  unfold ideal. cbn. destruct data; cbn; [reflexivity|]. now rewrite app_nil_r.
Qed.
