(* C17 — proofs. *)
From CJ Require Import Common.Base C17.Model.

Lemma has_addr_app a b : has_addr (a ++ b) = has_addr a || has_addr b.
Proof. unfold has_addr. apply existsb_app. Qed.

Lemma has_addr_words l : has_addr (words l) = false.
Proof. unfold has_addr, words. induction l; cbn; auto. Qed.

(* ---- the sanitiser never returns an error whose text embeds an address ---- *)

Lemma address_free_clean e : mentions (address_free e) = false.
Proof. unfold address_free. destruct (find_errno e); [destruct (has_op e)|]; reflexivity. Qed.

Lemma generalize_address_free v e g : generalize v e = Some g -> mentions g = false.
Proof.
  unfold generalize, generalize_with. destruct e as [e|]; [|discriminate].
  destruct (_ || _ || _ || _).
  { destruct v; [intros [= <-]; reflexivity | discriminate]. }
  repeat (match goal with |- (if ?c then _ else _) = _ -> _ => destruct c; [intros [= <-]; reflexivity|] end).
  intros [= <-]. apply address_free_clean.
Qed.

Lemma generalized_text_clean v e : has_addr (err_text (generalize v e)) = false.
Proof.
  destruct (generalize v e) as [g|] eqn:E; [|reflexivity].
  apply (generalize_address_free _ _ _ E).
Qed.

(* ---- producers ---- *)

(* address-free by construction: nothing such a producer can return mentions the address ... *)
Lemma producer_sound p e : addr_free_producer p = true -> can_produce p e = true -> mentions e = false.
Proof.
  destruct p as [t o| | | | | | | | | |]; cbn; try discriminate.
  - destruct t; [|discriminate]. destruct o; try discriminate; intros _;
      (destruct e as [l|i|a i|a i]; [destruct l; try discriminate; reflexivity | discriminate | | discriminate]);
      intros H; apply andb_true_iff in H as [Ha Hi]; destruct a; try discriminate;
      unfold mentions in *; cbn; now apply negb_true_iff in Hi.
  - intros _. destruct e as [l| | |]; try discriminate. destruct l; try discriminate. reflexivity.
  - intros _. destruct e as [|i|a i|]; try discriminate. destruct a; [discriminate|].
    intros H. apply negb_true_iff in H. exact H.
  - intros _ H. now apply negb_true_iff in H.
  - intros _ H. now apply negb_true_iff in H.
Qed.

(* ... and every other producer can return the witness, which does *)
Lemma producer_complete p :
  addr_free_producer p = false -> can_produce p leak_witness = true /\ mentions leak_witness = true.
Proof. destruct p as [t o| | | | | | | | | |]; try discriminate; try (split; reflexivity). destruct t, o; try discriminate; split; reflexivity. Qed.

(* ---- a safe site never renders an address ---- *)

Lemma safe_arg_render ev i a :
  log_client_ip ev = false -> safe_arg a = true -> arg_ok ev i a = true -> has_addr (render_arg ev i a) = false.
Proof.
  intros Hl Hs Hok. destruct a; cbn in *; try discriminate; auto using has_addr_words, generalized_text_clean.
  - destruct (err_of ev i) as [e|]; [|reflexivity]. exact (producer_sound _ _ Hs Hok).
  - now rewrite Hl.
Qed.

Lemma safe_args_render ev : forall l i,
  log_client_ip ev = false -> forallb safe_arg l = true -> args_ok ev i l = true -> has_addr (render_args ev i l) = false.
Proof.
  induction l as [|a l IH]; intros i Hl Hs Hok; [reflexivity|].
  cbn in Hs. apply andb_true_iff in Hs as [Ha Hr].
  cbn in Hok. apply andb_true_iff in Hok as [Hoa Hor].
  cbn [render_args]. rewrite has_addr_app, (safe_arg_render _ _ _ Hl Ha Hoa), (IH _ Hl Hr Hor). reflexivity.
Qed.

Lemma safe_site_no_address s ev :
  safe_site s = true -> env_ok s ev = true -> log_client_ip ev = false ->
  has_addr (output default_level s ev) = false.
Proof.
  unfold safe_site, output, env_ok. intros Hs Hok Hl.
  destruct (prints default_level (s_level s)); [|reflexivity].
  cbn in Hs. now apply safe_args_render.
Qed.

(* ---- an unsafe site has a failing run: the witness environment is consistent with the producers
        and renders the address with client-address logging off ---- *)

Lemma wit_arg ev i a :
  log_client_ip ev = false -> err_of ev i = wit_err a ->
  arg_ok ev i a = true /\ has_addr (render_arg ev i a) = negb (safe_arg a).
Proof.
  intros Hl He. destruct a; cbn in *; try (split; [reflexivity|]); auto using has_addr_words, generalized_text_clean.
  - rewrite He. destruct (addr_free_producer p) eqn:F; cbn; [split; reflexivity|].
    destruct (producer_complete p F) as [Hc Hm]. split; [exact Hc | exact Hm].
  - now rewrite Hl.
Qed.

Lemma wit_args ev : forall l k,
  log_client_ip ev = false ->
  (forall j, err_of ev (k + j) = match nth_error l j with Some a => wit_err a | None => None end) ->
  args_ok ev k l = true /\ has_addr (render_args ev k l) = negb (forallb safe_arg l).
Proof.
  induction l as [|a l IH]; intros k Hl H; [split; reflexivity|].
  assert (Ha : err_of ev k = wit_err a) by (specialize (H 0%nat); rewrite Nat.add_0_r in H; exact H).
  destruct (wit_arg ev k a Hl Ha) as [Hok Hr].
  destruct (IH (S k) Hl) as [Hok' Hr'].
  { intros j. specialize (H (S j)). rewrite Nat.add_succ_r in H. exact H. }
  split.
  - cbn [args_ok]. now rewrite Hok, Hok'.
  - cbn [render_args forallb]. rewrite has_addr_app, Hr, Hr', negb_andb. reflexivity.
Qed.

Lemma unsafe_site_fails s :
  safe_site s = false ->
  env_ok s (wit_env s) = true /\ log_client_ip (wit_env s) = false /\
  has_addr (output default_level s (wit_env s)) = true.
Proof.
  unfold safe_site, env_ok, output. intros Hs.
  destruct (prints default_level (s_level s)); [|discriminate]. cbn [negb orb] in Hs.
  destruct (wit_args (wit_env s) (s_args s) 0%nat eq_refl) as [Hok Hr]; [intros j; reflexivity|].
  split; [exact Hok|]. split; [reflexivity|]. rewrite Hr, Hs. reflexivity.
Qed.

(* site safe  <->  no consistent run with logging off renders the address *)
Lemma safe_site_iff s :
  safe_site s = true <->
  (forall ev, env_ok s ev = true -> log_client_ip ev = false -> has_addr (output default_level s ev) = false).
Proof.
  split; [intros Hs ev; now apply safe_site_no_address|].
  intros H. destruct (safe_site s) eqn:Hs; [reflexivity|].
  destruct (unsafe_site_fails s Hs) as (Hok & Hl & Hleak). rewrite (H _ Hok Hl) in Hleak. discriminate.
Qed.

(* ---- the level order ---- *)

Lemma info_prints_by_default : prints default_level Info = true /\ prints default_level Error = true
  /\ prints default_level Warn = false /\ prints default_level Debug = false /\ prints default_level Trace = false.
Proof. vm_compute. repeat split. Qed.

(* ---- one gate, fail-closed ---- *)

Lemma gate_fail_closed v : gate v = true <-> v = EVTrue.
Proof. destruct v; cbn; split; congruence. Qed.

(* a site's line depends on the environment variable only through [gate]: two processes whose
   settings the station's rule treats alike print the same line at every site *)
Lemma render_args_one_gate ev1 ev2 :
  gate (env_value ev1) = gate (env_value ev2) ->
  (forall i, err_of ev1 i = err_of ev2 i) -> (forall i, digest_of ev1 i = digest_of ev2 i) ->
  (forall i, const_of ev1 i = const_of ev2 i) ->
  forall l i, render_args ev1 i l = render_args ev2 i l.
Proof.
  intros G E D C. induction l as [|a l IH]; intros i; [reflexivity|].
  cbn [render_args]. rewrite IH. f_equal.
  destruct a; cbn [render_arg]; unfold log_client_ip; rewrite ?E, ?D, ?C, ?G; reflexivity.
Qed.

Lemma output_one_gate cfg s ev1 ev2 :
  gate (env_value ev1) = gate (env_value ev2) ->
  (forall i, err_of ev1 i = err_of ev2 i) -> (forall i, digest_of ev1 i = digest_of ev2 i) ->
  (forall i, const_of ev1 i = const_of ev2 i) ->
  output cfg s ev1 = output cfg s ev2.
Proof. intros. unfold output. destruct (prints cfg (s_level s)); [|reflexivity]. now apply render_args_one_gate. Qed.

(* with any setting that does not enable logging, a safe site prints no address *)
Lemma disabled_means_every_non_true_value s ev :
  safe_site s = true -> env_ok s ev = true -> env_value ev <> EVTrue -> has_addr (output default_level s ev) = false.
Proof.
  intros Hs Hok Hv. apply safe_site_no_address; [exact Hs|exact Hok|].
  unfold log_client_ip. destruct (gate (env_value ev)) eqn:G; [|reflexivity].
  apply gate_fail_closed in G. contradiction.
Qed.

(* ---- the image of the sanitiser: exactly five address-free forms ---- *)

Inductive sanitised_form : eshape -> Prop :=
  | SFSentinel k : (k <= 5)%N -> sanitised_form (Leaf (LSentinel k))      (* rst timeout refused unreachable aborted closed *)
  | SFShortWrite : sanitised_form (Leaf LShortWrite)                       (* "short write" (relay copy only) *)
  | SFErrno n : sanitised_form (Leaf (LErrno n))                          (* the bare errno text *)
  | SFOpErrno n : sanitised_form (EWrap false (Leaf (LErrno n)))           (* "<op>: <errno text>" *)
  | SFOpaque : sanitised_form (Leaf (LText false)).                        (* "unrecognized error (<type>)" *)

Lemma sanitised_form_clean g : sanitised_form g -> mentions g = false.
Proof. destruct 1; reflexivity. Qed.

Lemma generalize_image v e g : generalize v e = Some g -> sanitised_form g.
Proof.
  unfold generalize, generalize_with. destruct e as [e|]; [|discriminate].
  destruct (_ || _ || _ || _).
  { destruct v; [intros [= <-]; constructor; cbv; discriminate | discriminate]. }
  repeat (match goal with |- (if ?c then _ else _) = _ -> _ => destruct c; [intros [= <-]; constructor; try (cbv; discriminate)|] end).
  intros [= <-]. unfold address_free. destruct (find_errno e); [destruct (has_op e)|]; constructor.
Qed.

(* short write only from the relay's copy, "closed" only from the handler's *)
Lemma conns_never_short_write e : generalize Conns e <> Some (Leaf LShortWrite).
Proof.
  intros H. unfold generalize, generalize_with in H. destruct e as [e|]; [|discriminate].
  cbn [negb] in H.
  repeat match type of H with (if ?c then _ else _) = _ => destruct c; [discriminate|] end.
  unfold address_free in H. destruct (find_errno e); [destruct (has_op e)|]; discriminate.
Qed.
