(* C17 — proofs. *)
From CJ Require Import Common.Base C17.Model.

Lemma has_addr_app a b : has_addr (a ++ b) = has_addr a || has_addr b.
Proof. unfold has_addr. apply existsb_app. Qed.

Lemma has_addr_words l : has_addr (words l) = false.
Proof. unfold has_addr, words. induction l; cbn; auto. Qed.

(* ---- the sanitiser never returns an error whose text embeds an address ---- *)

Lemma address_free_clean e : mentions (address_free e) = false.
Proof. unfold address_free. destruct (find_errno e); [destruct (has_op e)|]; reflexivity. Qed.

Lemma generalize_address_free v e g : generalize v e = Some g -> mentions g = false.
Proof.
  unfold generalize, generalize_with. destruct e as [e|]; [|discriminate].
  destruct (_ || _ || _ || _).
  { destruct v; [intros [= <-]; reflexivity | discriminate]. }
  repeat (match goal with |- (if ?c then _ else _) = _ -> _ => destruct c; [intros [= <-]; reflexivity|] end).
  intros [= <-]. apply address_free_clean.
Qed.

Lemma generalized_text_clean v e : has_addr (err_text (generalize v e)) = false.
Proof.
  destruct (generalize v e) as [g|] eqn:E; [|reflexivity].
  apply (generalize_address_free _ _ _ E).
Qed.

(* ---- a safe site never renders an address ---- *)

Lemma safe_arg_render ev i a :
  log_client_ip ev = false -> safe_arg a = true -> has_addr (render_arg ev i a) = false.
Proof.
  intros Hl Hs. destruct a; cbn in *; try discriminate; auto using has_addr_words, generalized_text_clean.
  now rewrite Hl.
Qed.

Lemma safe_args_render ev : forall l i,
  log_client_ip ev = false -> forallb safe_arg l = true -> has_addr (render_args ev i l) = false.
Proof.
  induction l as [|a l IH]; intros i Hl Hs; [reflexivity|].
  cbn in Hs. apply andb_true_iff in Hs as [Ha Hr].
  cbn [render_args]. rewrite has_addr_app, (safe_arg_render _ _ _ Hl Ha), (IH _ Hl Hr). reflexivity.
Qed.

Lemma safe_site_no_address s ev :
  safe_site s = true -> log_client_ip ev = false ->
  has_addr (output default_level s ev) = false.
Proof.
  unfold safe_site, output. intros Hs Hl.
  destruct (prints default_level (s_level s)); [|reflexivity].
  cbn in Hs. now apply safe_args_render.
Qed.


(* ---- the level order ---- *)

Lemma info_prints_by_default : prints default_level Info = true /\ prints default_level Error = true
  /\ prints default_level Warn = false /\ prints default_level Debug = false /\ prints default_level Trace = false.
Proof. vm_compute. repeat split. Qed.

(* ---- one gate, fail-closed ---- *)

Lemma gate_fail_closed v : gate v = true <-> v = EVTrue.
Proof. destruct v; cbn; split; congruence. Qed.

(* a site's line depends on the environment variable only through [gate]: two processes whose
   settings the station's rule treats alike print the same line at every site *)
Lemma render_args_one_gate ev1 ev2 :
  gate (env_value ev1) = gate (env_value ev2) ->
  (forall i, err_of ev1 i = err_of ev2 i) -> (forall i, digest_of ev1 i = digest_of ev2 i) ->
  (forall i, const_of ev1 i = const_of ev2 i) ->
  forall l i, render_args ev1 i l = render_args ev2 i l.
Proof.
  intros G E D C. induction l as [|a l IH]; intros i; [reflexivity|].
  cbn [render_args]. rewrite IH. f_equal.
  destruct a; cbn [render_arg]; unfold log_client_ip; rewrite ?E, ?D, ?C, ?G; reflexivity.
Qed.

Lemma output_one_gate cfg s ev1 ev2 :
  gate (env_value ev1) = gate (env_value ev2) ->
  (forall i, err_of ev1 i = err_of ev2 i) -> (forall i, digest_of ev1 i = digest_of ev2 i) ->
  (forall i, const_of ev1 i = const_of ev2 i) ->
  output cfg s ev1 = output cfg s ev2.
Proof. intros. unfold output. destruct (prints cfg (s_level s)); [|reflexivity]. now apply render_args_one_gate. Qed.

(* with any setting that does not enable logging, a safe site prints no address *)
Lemma disabled_means_every_non_true_value s ev :
  safe_site s = true -> env_value ev <> EVTrue -> has_addr (output default_level s ev) = false.
Proof.
  intros Hs Hv. apply safe_site_no_address; [exact Hs|].
  unfold log_client_ip. destruct (gate (env_value ev)) eqn:G; [|reflexivity].
  apply gate_fail_closed in G. contradiction.
Qed.
