(* C17 — non-vacuity: concrete values meeting the theorems' hypotheses, and the contrast cases. *)
From CJ Require Import Common.Base C17.Model C17.Sites C17.Proofs C17.SitesProofs.

(* read tcp 192.0.2.77:443->203.0.113.9:51234: read: network is unreachable  (errno 101 is not in the sanitiser's list) *)
Definition e_unreach : eshape := EOp true (ESys (Leaf (LErrno 101))).

Example unknown_error_mentions_address : mentions e_unreach = true.
Proof. reflexivity. Qed.

Example sanitised_is_clean :
  generalize Conns (Some e_unreach) = Some (EWrap false (Leaf (LErrno 101))) /\
  mentions (EWrap false (Leaf (LErrno 101))) = false.
Proof. split; reflexivity. Qed.

(* what the pinned tree did (candidate #14): the unknown error came back unchanged *)
Example pinned_sanitiser_leaked :
  exists g, generalize_pinned Conns (Some e_unreach) = Some g /\ mentions g = true.
Proof. exists e_unreach. split; reflexivity. Qed.

(* the well-known classes still map to their sentinels *)
Example reset_is_rst : generalize Conns (Some (EOp true (ESys (Leaf (LErrno ECONNRESET))))) = Some (Leaf (LSentinel 0)).
Proof. reflexivity. Qed.
Example eof_conns_closed : generalize Conns (Some (Leaf LEOF)) = Some (Leaf (LSentinel 5)).
Proof. reflexivity. Qed.
Example eof_proxies_nil : generalize Proxies (Some (Leaf LEOF)) = None.
Proof. reflexivity. Qed.
Example deadline_is_timeout : generalize Proxies (Some (EOp true (Leaf LDeadline))) = Some (Leaf (LSentinel 1)).
Proof. reflexivity. Qed.
(* a wrapped timeout is NOT recognised (type assertion on the outermost value) and is reduced to its type *)
Example wrapped_deadline_opaque : generalize Conns (Some (EWrap true (EOp true (Leaf LDeadline)))) = Some (Leaf (LText false)).
Proof. reflexivity. Qed.

(* an environment in which the error flowing into the site embeds the client address *)
Definition ev_leaky : env :=
  {| env_value := EVOther; err_of := fun _ => Some e_unreach; digest_of := fun _ => [7]; const_of := fun _ => [8] |}.

Definition site_sanitised : site :=
  {| s_file := 1; s_line := 228; s_level := Error; s_args := [AConst; ASanitised Conns] |}.
Definition site_raw : site :=
  {| s_file := 1; s_line := 192; s_level := Error; s_args := [AConst; AErr (PConn AnyConn OpSet)] |}.
Definition site_raw_debug : site :=
  {| s_file := 1; s_line := 192; s_level := Debug; s_args := [AConst; AErr (PConn AnyConn OpSet)] |}.

Example safe_site_applies : safe_site site_sanitised = true /\ has_addr (output default_level site_sanitised ev_leaky) = false
  /\ output default_level site_sanitised ev_leaky <> [].
Proof. repeat split; try reflexivity. discriminate. Qed.

(* the hypothesis matters: the same environment at a raw site prints the address ... *)
Example raw_site_leaks : safe_site site_raw = false /\ has_addr (output default_level site_raw ev_leaky) = true.
Proof. split; reflexivity. Qed.
(* ... unless the level gates the line *)
Example raw_site_gated : safe_site site_raw_debug = true /\ output default_level site_raw_debug ev_leaky = [].
Proof. split; reflexivity. Qed.

(* producers.  What TCPConn.File returns when the descriptor table is full:
   "file tcp4 127.0.0.1:41245->203.0.113.7:50079: fcntl: too many open files" *)
Definition e_file_emfile : eshape := EOp true (ESys (Leaf (LErrno 24))).
Definition e_file_closed : eshape := EOp true (Leaf LNetClosed).
Example file_producer_examples :
  can_produce (PConn TcpConn OpFile) e_file_emfile = true /\ mentions e_file_emfile = true /\
  can_produce (PConn TcpConn OpFile) e_file_closed = true /\ mentions e_file_closed = true /\
  addr_free_producer (PConn TcpConn OpFile) = false /\
  (* through the sanitiser: "file: too many open files" and "closed" *)
  generalize Conns (Some e_file_emfile) = Some (EWrap false (Leaf (LErrno 24))) /\
  generalize Conns (Some e_file_closed) = Some (Leaf (LSentinel 5)).
Proof. repeat split. Qed.
(* SetDeadline on the concrete TCP connection names the local address only; a bare errno from getsockopt none at all *)
Example address_free_producers :
  addr_free_producer (PConn TcpConn OpSet) = true /\ can_produce (PConn TcpConn OpSet) (EOp false (Leaf LNetClosed)) = true /\
  can_produce (PConn TcpConn OpSet) e_file_closed = false /\
  addr_free_producer PSyscall = true /\ can_produce PSyscall (Leaf (LErrno 2)) = true /\ can_produce PSyscall e_file_emfile = false.
Proof. repeat split. Qed.
(* the same call through the net.Conn interface (a transport's layered connection) can return anything *)
Example interface_conn_can_leak : addr_free_producer (PConn AnyConn OpSet) = false /\ can_produce (PConn AnyConn OpSet) e_file_emfile = true.
Proof. split; reflexivity. Qed.

(* handleNewConn's File() site: sanitised it is safe; logged raw it is unsafe and the failing run exists *)
Definition site_file_ok : site := {| s_file := 1; s_line := 93; s_level := Error; s_args := [ASanitised Conns] |}.
Definition site_file_raw : site := {| s_file := 1; s_line := 93; s_level := Error; s_args := [AErr (PConn TcpConn OpFile)] |}.
Definition site_origdst : site := {| s_file := 1; s_line := 100; s_level := Error; s_args := [AErr PSyscall] |}.
Example file_site_examples :
  safe_site site_file_ok = true /\ safe_site site_origdst = true /\ safe_site site_file_raw = false /\
  env_ok site_file_raw (wit_env site_file_raw) = true /\
  has_addr (output default_level site_file_raw (wit_env site_file_raw)) = true.
Proof. repeat split. Qed.
(* env_ok is not vacuous for a safe raw site: ENOENT from getsockopt is a consistent run, and prints *)
Definition ev_enoent : env := {| env_value := EVUnset; err_of := fun _ => Some (Leaf (LErrno 2)); digest_of := fun _ => []; const_of := fun _ => [] |}.
Example origdst_run : env_ok site_origdst ev_enoent = true /\ output default_level site_origdst ev_enoent = [TWord 1002].
Proof. split; reflexivity. Qed.

(* the regenerated table is not empty, contains default-level sites with sanitised errors, and the
   placeholder site of the connection logger *)
Example table_nontrivial :
  (50 <=? N.of_nat (length sites)) = true /\
  existsb (fun s => prints default_level (s_level s) && existsb (fun a => match a with ASanitised _ => true | _ => false end) (s_args s)) sites = true /\
  existsb (fun s => existsb (fun a => match a with APlaceholder => true | _ => false end) (s_args s)) sites = true.
Proof. vm_compute. repeat split. Qed.

(* the gate is fail-closed: a value the station does not parse as true — e.g. "disabled" or a
   "false" with a trailing blank — keeps the placeholder; only a true spelling prints the address *)
Definition site_prefix : site := {| s_file := 1; s_line := 150; s_level := Print; s_args := [APlaceholder] |}.
Definition ev_with (v : envval) : env := {| env_value := v; err_of := fun _ => None; digest_of := fun _ => []; const_of := fun _ => [] |}.
Example gate_examples :
  has_addr (output default_level site_prefix (ev_with EVOther)) = false /\
  has_addr (output default_level site_prefix (ev_with EVUnset)) = false /\
  has_addr (output default_level site_prefix (ev_with EVFalse)) = false /\
  has_addr (output default_level site_prefix (ev_with EVTrue)) = true.
Proof. repeat split. Qed.
