(* C17 — client addresses never reach the logs unless enabled.  Definitions only.

   Three pieces:
   (1) error shapes and the two sanitisers (cmd/application/conns.go generalizeErr and
       pkg/station/lib/proxies.go generalizeErr), with the text an error prints as a token list
       in which an embedded network address is the token [TAddr];
   (2) the logger's level order as pkg/station/log defines it;
   (3) log sites with classified arguments, and how a site renders into a line.
   The table of sites itself is regenerated from the source on every run (C17/Sites.v). *)
From CJ Require Import Common.Base.

(* ---------------------------------------------------------------- (1) errors *)

Inductive tok := TWord (w : N) | TAddr.
Definition is_addr (t : tok) : bool := match t with TAddr => true | TWord _ => false end.
Definition has_addr (l : list tok) : bool := existsb is_addr l.

Inductive leaf :=
  | LEOF | LNetClosed | LOsClosed     (* io.EOF, net.ErrClosed, os.ErrClosed *)
  | LDeadline                         (* os.ErrDeadlineExceeded *)
  | LShortWrite                       (* io.ErrShortWrite *)
  | LErrno (n : N)                    (* a syscall.Errno *)
  | LSentinel (k : N)                 (* the station's own address-free sentinels ("rst", "timeout", ...) *)
  | LText (addr_in_text : bool).      (* any other error value; its text may embed an address *)

Inductive eshape :=
  | Leaf (l : leaf)
  | ESys (inner : eshape)                              (* *os.SyscallError: "<call>: <inner>" *)
  | EOp (addr_in_text : bool) (inner : eshape)         (* *net.OpError: "<op> <net> <src>-><dst>: <inner>" *)
  | EWrap (addr_in_text : bool) (inner : eshape).      (* fmt.Errorf("... %w", inner) *)

(* Linux errno values the code names *)
Definition EPIPE := 32. Definition ECONNABORTED := 103. Definition ECONNRESET := 104.
Definition ETIMEDOUT := 110. Definition ECONNREFUSED := 111. Definition EHOSTUNREACH := 113.
Definition EAGAIN := 11.

(* what Error() prints *)
Fixpoint text (e : eshape) : list tok :=
  match e with
  | Leaf (LText true) => [TWord 0; TAddr]
  | Leaf (LText false) => [TWord 0]
  | Leaf (LErrno n) => [TWord (1000 + n)]
  | Leaf (LSentinel k) => [TWord (2000 + k)]
  | Leaf _ => [TWord 1]
  | ESys i => TWord 2 :: text i
  | EOp a i => TWord 3 :: (if a then [TAddr; TAddr] else []) ++ text i
  | EWrap a i => TWord 4 :: (if a then [TAddr] else []) ++ text i
  end.

Definition mentions (e : eshape) : bool := has_addr (text e).

(* errors.Is(err, target) for a leaf target: walks the Unwrap chain *)
Definition leaf_eqb (a b : leaf) : bool :=
  match a, b with
  | LEOF, LEOF | LNetClosed, LNetClosed | LOsClosed, LOsClosed | LDeadline, LDeadline | LShortWrite, LShortWrite => true
  | LErrno x, LErrno y => x =? y
  | LSentinel x, LSentinel y => x =? y
  | _, _ => false
  end.
Fixpoint is_ (e : eshape) (t : leaf) : bool :=
  match e with
  | Leaf l => leaf_eqb l t
  | ESys i | EOp _ i | EWrap _ i => is_ i t
  end.

(* Timeout() of a leaf value (syscall.Errno and *os.DeadlineExceededError have the method) *)
Definition leaf_timeout (l : leaf) : bool :=
  match l with
  | LDeadline => true
  | LErrno n => (n =? EAGAIN) || (n =? ETIMEDOUT)
  | _ => false
  end.
(* "the value has a Timeout() method and it returns true": SyscallError and OpError delegate to
   what they wrap, fmt's wrapper has no such method *)
Fixpoint timeout_method (e : eshape) : bool :=
  match e with
  | Leaf l => leaf_timeout l
  | ESys i | EOp _ i => timeout_method i
  | EWrap _ _ => false
  end.
(* `errN, ok := err.(net.Error); ok && errN.Timeout()` is a type assertion on the OUTERMOST value:
   syscall.Errno, *os.DeadlineExceededError and *net.OpError implement net.Error;
   *os.SyscallError (no Temporary method) and fmt's wrapper do not. *)
Definition top_timeout (e : eshape) : bool :=
  match e with
  | Leaf l => leaf_timeout l
  | EOp _ i => timeout_method i
  | ESys _ | EWrap _ _ => false
  end.

(* errors.As(err, &errno) / errors.As(err, &opErr) *)
Fixpoint find_errno (e : eshape) : option N :=
  match e with
  | Leaf (LErrno n) => Some n
  | Leaf _ => None
  | ESys i | EOp _ i | EWrap _ i => find_errno i
  end.
Fixpoint has_op (e : eshape) : bool :=
  match e with
  | Leaf _ => false
  | EOp _ _ => true
  | ESys i | EWrap _ i => has_op i
  end.

(* sentinels: 0 rst, 1 timeout, 2 refused, 3 unreachable, 4 aborted, 5 closed *)
Inductive variant := Conns | Proxies.

(* the part shared by both files: what is returned for an error that is not well known.
   fmt.Errorf("%s: %w", opErr.Op, errno)  |  errno  |  fmt.Errorf("unrecognized error (%T)", err) *)
Definition address_free (e : eshape) : eshape :=
  match find_errno e with
  | Some n => if has_op e then EWrap false (Leaf (LErrno n)) else Leaf (LErrno n)
  | None => Leaf (LText false)
  end.

(* generalizeErr; None = nil.  [fallback] is what happens to an error that is not well known. *)
Definition generalize_with (fallback : eshape -> eshape) (v : variant) (e : option eshape) : option eshape :=
  match e with
  | None => None
  | Some e =>
      if is_ e LNetClosed || is_ e LEOF || is_ e (LErrno EPIPE) || is_ e LOsClosed then
        match v with Conns => Some (Leaf (LSentinel 5)) | Proxies => None end
      else if is_ e (LErrno ECONNRESET) then Some (Leaf (LSentinel 0))
      else if is_ e (LErrno ECONNREFUSED) then Some (Leaf (LSentinel 2))
      else if is_ e (LErrno ECONNABORTED) then Some (Leaf (LSentinel 4))
      else if is_ e (LErrno EHOSTUNREACH) then Some (Leaf (LSentinel 3))
      else if (match v with Proxies => is_ e LShortWrite | Conns => false end) then Some (Leaf LShortWrite)
      else if top_timeout e then Some (Leaf (LSentinel 1))
      else Some (fallback e)
  end.

Definition generalize := generalize_with address_free.

(* the sanitiser of the pinned tree returned unknown errors unchanged (candidate #14; Examples.v) *)
Definition generalize_pinned := generalize_with (fun e => e).

(* ---------------------------------------------------------------- (2) levels *)

Inductive level := Trace | Debug | Warn | Error | Info | Print.   (* Print = the ungated Print/Printf/Fatal family *)

(* numeric order of the constants in pkg/station/log/logger.go (regenerated and compared on every run) *)
Definition level_rank (l : level) : N :=
  match l with Trace => 1 | Debug => 2 | Warn => 3 | Error => 4 | Info => 5 | Print => 6 end.

(* a method of level m prints on a logger configured at level cfg iff  cfg <= m *)
Definition prints (cfg m : level) : bool :=
  match m with Print => true | _ => level_rank cfg <=? level_rank m end.
Definition default_level : level := Error.

(* ---------------------------------------------------------------- (3) sites *)

(* Producers: the call whose error result reaches the log call.  The relay's and the classification
   loop's read/write/deadline/close calls are only some of them: File() on the accepted socket,
   SyscallConn/Control, net.FileConn, raw system calls on the descriptor, Accept, the dial of the
   covert, GeoIP lookups ... all return errors, and what package net's OWN methods return is an
   *net.OpError whose Source/Addr are the connection's endpoints. *)
Inductive connop :=
  | OpRead | OpWrite | OpClose    (* OpError{Source: local, Addr: remote} *)
  | OpFile                        (* conn.File: dup of the descriptor; OpError{Op:"file", Source: local, Addr: remote} *)
  | OpSet                         (* SetDeadline & co, SetLinger, SetNoDelay ...: OpError{Op:"set", Addr: LOCAL address only} *)
  | OpRawControl.                 (* SyscallConn().Control/Read/Write: OpError{Op:"raw-control", Addr: LOCAL address only} *)
Inductive conntype :=
  | TcpConn      (* the concrete *net.TCPConn / *net.UDPConn of package net *)
  | AnyConn.     (* a net.Conn interface value: possibly a transport's layered connection, any error *)
Inductive producer :=
  | PConn (t : conntype) (o : connop)   (* a method of the client connection *)
  | PFileConn        (* net.FileConn / FilePacketConn of the duplicated descriptor: the file's NAME is "tcp:local->remote" *)
  | PSyscall         (* a raw system call on a descriptor (getsockopt, fcntl, setsockopt): a bare syscall.Errno *)
  | PAccept          (* listener Accept: an OpError whose only address is the listener's own *)
  | PDialCovert      (* dial of the covert: the addresses are the covert's and the station's own *)
  | PConnectClient   (* a connecting transport dialling the client *)
  | PGeoIP           (* GeoIP lookup of the client address *)
  | PTransport       (* WrapConnection of a transport: anything, including the connection's own read errors *)
  | PProxyHeader     (* writing the PROXY header: write errors and address-parsing errors *)
  | PReviewed        (* reviewed producers of address-free errors: configuration, key files, protobuf, zmq, redis ... *)
  | PUnknown.        (* anything else *)

Definition op_names_remote (o : connop) : bool :=
  match o with OpRead | OpWrite | OpClose | OpFile => true | OpSet | OpRawControl => false end.

(* the error values a producer can return (a superset of what the code can return, never a subset) *)
Definition can_produce (p : producer) (e : eshape) : bool :=
  match p with
  | PConn TcpConn o =>
      match e with
      | EOp a i => Bool.eqb a (op_names_remote o) && negb (mentions i)   (* the cause below the OpError is net's/the kernel's *)
      | Leaf LEOF => match o with OpRead => true | _ => false end          (* io.EOF is returned unwrapped *)
      | Leaf (LErrno _) => match o with OpRawControl => true | _ => false end   (* SyscallConn on an invalid conn: EINVAL *)
      | _ => false
      end
  | PFileConn => match e with EOp _ i => negb (mentions i) | _ => false end
  | PSyscall => match e with Leaf (LErrno _) => true | _ => false end
  | PAccept => match e with EOp false i => negb (mentions i) | _ => false end
  | PDialCovert | PReviewed => negb (mentions e)
  | PConn AnyConn _ | PConnectClient | PGeoIP | PTransport | PProxyHeader | PUnknown => true
  end.

(* address-free by construction: no value the producer can return mentions the client address *)
Definition addr_free_producer (p : producer) : bool :=
  match p with
  | PConn TcpConn (OpSet | OpRawControl) | PSyscall | PAccept | PDialCovert | PReviewed => true
  | _ => false
  end.

(* the value every other producer can return: "<op> tcp <local>-><remote>: <call>: too many open files" *)
Definition leak_witness : eshape := EOp true (ESys (Leaf (LErrno 24))).

Inductive arg :=
  | AConst          (* literal or a value that is not an address (counters, durations, names, phantom address) *)
  | ASanitised (v : variant)  (* an error that went through generalizeErr *)
  | AErr (p : producer)       (* an error value as its producer returned it *)
  | AClientAddr     (* the client's / registrant's address *)
  | APlaceholder    (* the client address if LOG_CLIENT_IP is set, "_" otherwise *)
  | ADigest.        (* registration id / digest / tunnel statistics record *)

Record site := {
  s_file : N; s_line : N; s_level : level; s_args : list arg;
}.

Definition safe_arg (a : arg) : bool :=
  match a with AErr p => addr_free_producer p | AClientAddr => false | _ => true end.
Definition safe_site (s : site) : bool :=
  negb (prints default_level (s_level s)) || forallb safe_arg (s_args s).

(* The one gate.  LOG_CLIENT_IP as the station reads it (cmd/application/main.go):
   `logClientIP, err = strconv.ParseBool(os.Getenv("LOG_CLIENT_IP")); if err != nil { logClientIP = false }`.
   Values fall into four classes with respect to strconv.ParseBool. *)
Inductive envval :=
  | EVUnset       (* variable not set (or empty): ParseBool fails *)
  | EVTrue        (* 1 t T TRUE true True *)
  | EVFalse       (* 0 f F FALSE false False *)
  | EVOther.      (* anything else: ParseBool fails — "disabled", "no", "false ", quoted, garbage *)
Definition parse_bool (v : envval) : option bool :=
  match v with EVTrue => Some true | EVFalse => Some false | EVUnset | EVOther => None end.
(* fail-closed: logging of client addresses is enabled only by a value that parses as true *)
Definition gate (v : envval) : bool :=
  match parse_bool v with Some true => true | _ => false end.

(* what the arguments of one execution of a site evaluate to *)
Record env := {
  env_value : envval;                   (* the LOG_CLIENT_IP setting of the process *)
  err_of : nat -> option eshape;        (* the error value flowing into argument i (before sanitising) *)
  digest_of : nat -> list N;            (* the words of a digest argument *)
  const_of : nat -> list N;
}.

(* every site that may print the client address consults this and nothing else *)
Definition log_client_ip (ev : env) : bool := gate (env_value ev).

Definition words (l : list N) : list tok := map TWord l.
Definition err_text (e : option eshape) : list tok :=
  match e with None => [TWord 5] | Some e => text e end.         (* "<nil>" *)

Definition render_arg (ev : env) (i : nat) (a : arg) : list tok :=
  match a with
  | AConst => words (const_of ev i)
  | ASanitised v => err_text (generalize v (err_of ev i))
  | AErr _ => err_text (err_of ev i)
  | AClientAddr => [TAddr]
  | APlaceholder => if log_client_ip ev then [TAddr] else [TWord 6]
  | ADigest => words (digest_of ev i)
  end.

Fixpoint render_args (ev : env) (i : nat) (l : list arg) : list tok :=
  match l with
  | [] => []
  | a :: r => render_arg ev i a ++ render_args ev (S i) r
  end.

(* an environment is consistent with a site when the error flowing into every raw error argument
   is a value its producer can return *)
Definition arg_ok (ev : env) (i : nat) (a : arg) : bool :=
  match a with
  | AErr p => match err_of ev i with Some e => can_produce p e | None => true end
  | _ => true
  end.
Fixpoint args_ok (ev : env) (i : nat) (l : list arg) : bool :=
  match l with
  | [] => true
  | a :: r => arg_ok ev i a && args_ok ev (S i) r
  end.
Definition env_ok (s : site) (ev : env) : bool := args_ok ev 0 (s_args s).

(* the failing run of an unsafe site: every raw error argument whose producer is not address-free
   receives [leak_witness]; client-address logging is off *)
Definition wit_err (a : arg) : option eshape :=
  match a with AErr p => if addr_free_producer p then None else Some leak_witness | _ => None end.
Definition wit_env (s : site) : env :=
  {| env_value := EVUnset;
     err_of := fun i => match nth_error (s_args s) i with Some a => wit_err a | None => None end;
     digest_of := fun _ => []; const_of := fun _ => [] |}.

(* the line a site writes at log level [cfg] (nothing if the level gates it) *)
Definition output (cfg : level) (s : site) (ev : env) : list tok :=
  if prints cfg (s_level s) then render_args ev 0 (s_args s) else [].
