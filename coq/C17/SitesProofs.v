(* C17 — proofs about the regenerated site table (C17/Sites.v). *)
From CJ Require Import Common.Base C17.Model C17.Sites C17.Proofs.

(* ---- the regenerated table ---- *)

Lemma all_sites_safe : forallb safe_site sites = true.
Proof. vm_compute. reflexivity. Qed.

Lemma no_site_leaks s ev :
  In s sites -> log_client_ip ev = false ->
  has_addr (output default_level s ev) = false.
Proof.
  intros Hin Hl. apply safe_site_no_address; [|exact Hl].
  pose proof all_sites_safe as H. rewrite forallb_forall in H. exact (H _ Hin).
Qed.

(* ---- the level order the model uses is the one in pkg/station/log ---- *)

Lemma level_table_agrees :
  level_table = [(1, level_rank Trace); (2, level_rank Debug); (3, level_rank Warn); (4, level_rank Error); (5, level_rank Info)]
  /\ default_rank = level_rank default_level.
Proof. vm_compute. split; reflexivity. Qed.

