(* C17 — proofs about the regenerated site table (C17/Sites.v). *)
From CJ Require Import Common.Base C17.Model C17.Sites C17.Proofs.

(* ---- the regenerated table ---- *)

Lemma all_sites_safe : forallb safe_site sites = true.
Proof. vm_compute. reflexivity. Qed.

Lemma no_site_leaks s ev :
  In s sites -> env_ok s ev = true -> log_client_ip ev = false ->
  has_addr (output default_level s ev) = false.
Proof.
  intros Hin Hok Hl. apply safe_site_no_address; [|exact Hok|exact Hl].
  pose proof all_sites_safe as H. rewrite forallb_forall in H. exact (H _ Hin).
Qed.

(* every raw error argument of a site that prints at the default level has an address-free producer *)
Definition raw_producers_ok (s : site) : bool :=
  negb (prints default_level (s_level s)) ||
  forallb (fun a => match a with AErr p => addr_free_producer p | _ => true end) (s_args s).
Lemma all_raw_producers_address_free : forallb raw_producers_ok sites = true.
Proof. vm_compute. reflexivity. Qed.

(* ---- the level order the model uses is the one in pkg/station/log ---- *)

Lemma level_table_agrees :
  level_table = [(1, level_rank Trace); (2, level_rank Debug); (3, level_rank Warn); (4, level_rank Error); (5, level_rank Info)]
  /\ default_rank = level_rank default_level.
Proof. vm_compute. split; reflexivity. Qed.

