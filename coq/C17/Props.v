(* C17 property theorems: statements + `exact lemma` only. *)
From CJ Require Import Common.Base C17.Model C17.Proofs.

(* whatever generalizeErr (either copy) returns, its text embeds no address — for every error shape *)
Theorem C17_generalize_address_free :
  forall v e g, generalize v e = Some g -> mentions g = false.
Proof. exact generalize_address_free. Qed.
Print Assumptions C17_generalize_address_free.

(* the general lemma, proved once: a safe site renders no address at the default level when
   client-address logging is off — for every value its arguments can take: any error shape at a
   sanitised argument, and at a raw error argument every value its PRODUCER can return ([env_ok]) *)
Theorem C17_safe_site_no_address :
  forall s ev, safe_site s = true -> env_ok s ev = true -> log_client_ip ev = false ->
    has_addr (output default_level s ev) = false.
Proof. exact safe_site_no_address. Qed.
Print Assumptions C17_safe_site_no_address.

Theorem C17_info_prints_by_default :
  prints default_level Info = true /\ prints default_level Error = true
  /\ prints default_level Warn = false /\ prints default_level Debug = false /\ prints default_level Trace = false.
Proof. exact info_prints_by_default. Qed.
Print Assumptions C17_info_prints_by_default.

(* the gate: LOG_CLIENT_IP enables client-address logging only when strconv.ParseBool accepts it as
   true (the rule of cmd/application/main.go); every other value — unset, false spellings, and
   anything that does not parse — is "disabled" *)
Theorem C17_gate_fail_closed : forall v, gate v = true <-> v = EVTrue.
Proof. exact gate_fail_closed. Qed.
Print Assumptions C17_gate_fail_closed.

(* every site's rendering uses that one gate function and nothing else of the setting *)
Theorem C17_one_gate_for_all_sites :
  forall cfg s ev1 ev2,
    gate (env_value ev1) = gate (env_value ev2) ->
    (forall i, err_of ev1 i = err_of ev2 i) -> (forall i, digest_of ev1 i = digest_of ev2 i) ->
    (forall i, const_of ev1 i = const_of ev2 i) ->
    output cfg s ev1 = output cfg s ev2.
Proof. exact output_one_gate. Qed.
Print Assumptions C17_one_gate_for_all_sites.

Theorem C17_disabled_is_every_non_true_value :
  forall s ev, safe_site s = true -> env_ok s ev = true -> env_value ev <> EVTrue -> has_addr (output default_level s ev) = false.
Proof. exact disabled_means_every_non_true_value. Qed.
Print Assumptions C17_disabled_is_every_non_true_value.

(* Fourth wave — producers.  An error argument that is logged as its producer returned it is safe
   exactly when the producer is address-free by construction: nothing it can return mentions the
   client address (a bare errno from a system call, the "set"/"raw-control" OpError of package net
   that names the LOCAL address only, Accept's listener address, the covert's dial, reviewed
   producers) ... *)
Theorem C17_address_free_producer_sound :
  forall p e, addr_free_producer p = true -> can_produce p e = true -> mentions e = false.
Proof. exact producer_sound. Qed.
Print Assumptions C17_address_free_producer_sound.

(* ... and every other producer kind — File(), Read, Write, Close of the connection, any method of a
   layered connection, net.FileConn, GeoIP, transports, ... — can return a value that does *)
Theorem C17_other_producers_can_leak :
  forall p, addr_free_producer p = false -> can_produce p leak_witness = true /\ mentions leak_witness = true.
Proof. exact producer_complete. Qed.
Print Assumptions C17_other_producers_can_leak.

(* an unsafe site is a violated obligation WITH a failing run: an environment consistent with the
   site's producers, client-address logging off, and the address in the line *)
Theorem C17_unsafe_site_has_failing_run :
  forall s, safe_site s = false ->
    env_ok s (wit_env s) = true /\ log_client_ip (wit_env s) = false /\
    has_addr (output default_level s (wit_env s)) = true.
Proof. exact unsafe_site_fails. Qed.
Print Assumptions C17_unsafe_site_has_failing_run.

(* so [safe_site] is exact: safe <-> no consistent run with logging off prints the address *)
Theorem C17_safe_site_exact :
  forall s, safe_site s = true <->
    (forall ev, env_ok s ev = true -> log_client_ip ev = false -> has_addr (output default_level s ev) = false).
Proof. exact safe_site_iff. Qed.
Print Assumptions C17_safe_site_exact.

(* the image of generalizeErr (either copy), for every error value: one of five address-free forms —
   a sentinel, "short write", a bare errno, "<op>: <errno>", "unrecognized error (<type>)" *)
Theorem C17_generalize_image : forall v e g, generalize v e = Some g -> sanitised_form g.
Proof. exact generalize_image. Qed.
Print Assumptions C17_generalize_image.
