(* C17 property theorems: statements + `exact lemma` only. *)
From CJ Require Import Common.Base C17.Model C17.Proofs.

(* whatever generalizeErr (either copy) returns, its text embeds no address — for every error shape *)
Theorem C17_generalize_address_free :
  forall v e g, generalize v e = Some g -> mentions g = false.
Proof. exact generalize_address_free. Qed.
Print Assumptions C17_generalize_address_free.

(* the general lemma, proved once: a safe site renders no address at the default level when
   client-address logging is off — for every value its arguments can take *)
Theorem C17_safe_site_no_address :
  forall s ev, safe_site s = true -> log_client_ip ev = false ->
    has_addr (output default_level s ev) = false.
Proof. exact safe_site_no_address. Qed.
Print Assumptions C17_safe_site_no_address.

Theorem C17_info_prints_by_default :
  prints default_level Info = true /\ prints default_level Error = true
  /\ prints default_level Warn = false /\ prints default_level Debug = false /\ prints default_level Trace = false.
Proof. exact info_prints_by_default. Qed.
Print Assumptions C17_info_prints_by_default.
