(* C17 property theorems: statements + `exact lemma` only. *)
From CJ Require Import Common.Base C17.Model C17.Sites C17.Proofs.

(* whatever generalizeErr (either copy) returns, its text embeds no address — for every error shape *)
Theorem C17_generalize_address_free :
  forall v e g, generalize v e = Some g -> mentions g = false.
Proof. exact generalize_address_free. Qed.
Print Assumptions C17_generalize_address_free.

(* the general lemma, proved once: a safe site renders no address at the default level when
   client-address logging is off — for every value its arguments can take *)
Theorem C17_safe_site_no_address :
  forall s ev, safe_site s = true -> log_client_ip ev = false ->
    has_addr (output default_level s ev) = false.
Proof. exact safe_site_no_address. Qed.
Print Assumptions C17_safe_site_no_address.

(* the full statement over the table regenerated from the source on this run *)
Definition C17_all_sites_safe_full_statement : Prop := forallb safe_site sites = true.

(* proved part: every site except those recorded as open known findings *)
Theorem C17_all_sites_safe_partial : forallb (fun s => s_known s || safe_site s) sites = true.
Proof. exact all_sites_safe_but_known. Qed.
Print Assumptions C17_all_sites_safe_partial.

Theorem C17_no_site_leaks :
  forall s ev, In s sites -> s_known s = false -> log_client_ip ev = false ->
    has_addr (output default_level s ev) = false.
Proof. exact no_site_leaks. Qed.
Print Assumptions C17_no_site_leaks.

(* the level order of pkg/station/log (regenerated): Info is ABOVE Error, so Infof prints at the default level *)
Theorem C17_level_order :
  level_table = [(1, level_rank Trace); (2, level_rank Debug); (3, level_rank Warn); (4, level_rank Error); (5, level_rank Info)]
  /\ default_rank = level_rank default_level.
Proof. exact level_table_agrees. Qed.
Print Assumptions C17_level_order.

Theorem C17_info_prints_by_default :
  prints default_level Info = true /\ prints default_level Error = true
  /\ prints default_level Warn = false /\ prints default_level Debug = false /\ prints default_level Trace = false.
Proof. exact info_prints_by_default. Qed.
Print Assumptions C17_info_prints_by_default.
