(* C17 property theorems about the regenerated site table: statements + `exact lemma` only. *)
From CJ Require Import Common.Base C17.Model C17.Sites C17.Proofs C17.SitesProofs.

(* all_sites_safe, the full statement, over the table regenerated from the source on this run
   (every package of the conjure module that the station binary links) *)
Theorem C17_all_sites_safe : forallb safe_site sites = true.
Proof. exact all_sites_safe. Qed.
Print Assumptions C17_all_sites_safe.

Theorem C17_no_site_leaks :
  forall s ev, In s sites -> env_ok s ev = true -> log_client_ip ev = false ->
    has_addr (output default_level s ev) = false.
Proof. exact no_site_leaks. Qed.
Print Assumptions C17_no_site_leaks.

(* every error that a default-level site of the table logs without the sanitiser comes from a
   producer that is address-free by construction — for EVERY producer kind, not just relay I/O *)
Theorem C17_table_raw_producers_address_free : forallb raw_producers_ok sites = true.
Proof. exact all_raw_producers_address_free. Qed.
Print Assumptions C17_table_raw_producers_address_free.

(* the level order of pkg/station/log (regenerated): Info is ABOVE Error, so Infof prints at the default level *)
Theorem C17_level_order :
  level_table = [(1, level_rank Trace); (2, level_rank Debug); (3, level_rank Warn); (4, level_rank Error); (5, level_rank Info)]
  /\ default_rank = level_rank default_level.
Proof. exact level_table_agrees. Qed.
Print Assumptions C17_level_order.

