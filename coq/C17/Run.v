(* C17: evaluation of the model on recorded cases (correspondence check). *)
From CJ Require Import Common.Base C17.Model.

(* error shapes as the driver writes them *)
Inductive jshape := JLeaf (l : leaf) | JSys (i : jshape) | JOp (a : bool) (i : jshape) | JWrap (a : bool) (i : jshape).
Fixpoint dec (j : jshape) : eshape :=
  match j with JLeaf l => Leaf l | JSys i => ESys (dec i) | JOp a i => EOp a (dec i) | JWrap a i => EWrap a (dec i) end.

(* what is printed for a sanitised error, as a small code:
   0 nothing / empty; 1..6 the sentinels rst timeout refused unreachable aborted closed; 7 short write;
   100+n bare errno n; 1000+n "<op>: errno n"; 9 "unrecognized error (<type>)"; 8 anything else *)
Definition code (g : option eshape) : N :=
  match g with
  | None => 0
  | Some (Leaf (LSentinel k)) => 1 + k
  | Some (Leaf LShortWrite) => 7
  | Some (Leaf (LErrno n)) => 100 + n
  | Some (EWrap false (Leaf (LErrno n))) => 1000 + n
  | Some (Leaf (LText false)) => 9
  | Some _ => 8
  end.

(* where the error is used *)
Inductive point :=
  | PDiscard     (* conns.go io.Copy discard paths: a closed-class error prints no line *)
  | PReadLoop    (* conns.go read loop: every non-nil generalized error prints *)
  | PPlain       (* conns.go: logger.Errorln(msg, generalizeErr(err)) — SetDeadline, GeoIP *)
  | PStats       (* proxies.go: generalizeErr(err).Error() stored in the tunnel statistics *)
  | PStatsAsync  (* the same, written by the asynchronous source closer: the tunnel summary may be
                    printed before that goroutine has stored the string, so "empty" is allowed too *)
  | PLib         (* registration_ingest.go: wrapped with %w after the lib's generalizeErr *)
  | PLibPlain    (* registration_ingest.go: logger.Errorln(msg, generalizeErr(err)) with the lib's copy *)
  | PRaw.        (* the error is printed as its producer returned it (a site with an AErr argument) *)

Definition expected (p : point) (e : eshape) : N :=
  match p with
  | PDiscard => let c := code (generalize Conns (Some e)) in if c =? 6 then 0 else c
  | PReadLoop | PPlain => code (generalize Conns (Some e))
  | PStats | PStatsAsync | PLib | PLibPlain => code (generalize Proxies (Some e))
  | PRaw => code (Some e)
  end.

Definition expected_leak (p : point) (e : eshape) : bool :=
  match p with
  | PDiscard | PReadLoop | PPlain => match generalize Conns (Some e) with Some g => mentions g | None => false end
  | PStats | PStatsAsync | PLib | PLibPlain => match generalize Proxies (Some e) with Some g => mentions g | None => false end
  | PRaw => mentions e
  end.

(* case: point, injected shape, observed code, observed "address found in the captured text" *)
Definition chk_err (c : point * jshape * N * bool) : bool :=
  let '(p, j, oc, ol) := c in
  ((expected p (dec j) =? oc) || (match p with PStatsAsync => oc =? 0 | _ => false end)) &&
  Bool.eqb (expected_leak p (dec j)) ol.

(* gate case: class of the LOG_CLIENT_IP value (0 unset/empty, 1 true spelling, 2 false spelling,
   3 other), observed "the address-printing site printed the address" *)
Definition dec_env (n : N) : envval := match n with 0 => EVUnset | 1 => EVTrue | 2 => EVFalse | _ => EVOther end.
Definition chk_gate (c : N * bool) : bool := let '(v, present) := c in Bool.eqb (gate (dec_env v)) present.

(* producer case (real sockets): the error value the REAL call returned in the provoked failure,
   decomposed by the driver into a shape, must be one the model's producer can return; and what the
   site then printed must be the model's prediction for that value at that kind of site *)
Definition chk_prod (c : producer * point * jshape * N * bool) : bool :=
  let '(p, pt, j, oc, ol) := c in
  can_produce p (dec j) && (expected pt (dec j) =? oc) && Bool.eqb (expected_leak pt (dec j)) ol.

Inductive lcase := LErr (c : point * jshape * N * bool) | LGate (c : N * bool) | LProd (c : producer * point * jshape * N * bool).
Definition chk (c : lcase) : bool := match c with LErr x => chk_err x | LGate x => chk_gate x | LProd x => chk_prod x end.
