(* C17 — the full statement over the regenerated table is false on the current tree: the open
   known finding (registrant address in an Infof line that prints at the default level). *)
From CJ Require Import Common.Base C17.Model C17.Sites.

Lemma all_sites_safe_refuted : forallb safe_site sites = false.
Proof. vm_compute. reflexivity. Qed.

Definition is_known_leak (s : site) : bool :=
  s_known s && negb (safe_site s) &&
  existsb (fun a => match a with AClientAddr => true | _ => false end) (s_args s) &&
  match s_level s with Info => true | _ => false end.

Lemma known_site_is_unsafe : exists s, In s sites /\ is_known_leak s = true.
Proof. apply existsb_exists. vm_compute. reflexivity. Qed.
