(* C14 lifecycle proofs: the selector held across loads / reloads / selections. *)
From CJ Require Import Common.Base C14.Model C14.LifeModel C14.Main.
From Coq Require Import Lia ZifyN ZifyNat ZifyBool.

(* ---------- the map ---------- *)
Lemma sget_sset : forall s g v g', sget (sset s g v) g' = if g =? g' then Some v else sget s g'.
Proof. reflexivity. Qed.

Lemma lookup_sset : forall s g v g', lookup (sset s g v) g' = if g =? g' then v else lookup s g'.
Proof.
  intros. unfold lookup. rewrite sget_sset. destruct (g =? g'); [destruct v|]; reflexivity.
Qed.

Lemma is_taken_sset : forall s g v g', is_taken (sset s g v) g' = (g =? g') || is_taken s g'.
Proof. intros. unfold is_taken. rewrite sget_sset. destruct (g =? g'); reflexivity. Qed.

Lemma lookup_update : forall s g v g', lookup (update_generation s g v) g' = if g =? g' then v else lookup s g'.
Proof. intros. apply lookup_sset. Qed.

Lemma lookup_remove : forall s g g', lookup (remove_generation s g) g' = if g =? g' then None else lookup s g'.
Proof. intros. apply lookup_sset. Qed.

Lemma sget_le_max : forall s g v, sget s g = Some v -> g <= max_key s.
Proof.
  induction s as [|[k w] r IH]; cbn [sget max_key fold_right fst]; intros g v H; [discriminate|].
  destruct (k =? g) eqn:E.
  - apply N.eqb_eq in E. subst. lia.
  - apply IH in H. fold (max_key r). lia.
Qed.

Lemma to_uint_ok : forall k, key_ok k -> to_uint k = Z.to_N k.
Proof.
  intros k [H0 H1]. unfold to_uint, uint_mod. f_equal. apply Z.mod_small.
  change (Z.of_N (2 ^ 64)) with (2 ^ 64)%Z. assert (2 ^ 63 < 2 ^ 64)%Z by reflexivity. lia.
Qed.

(* AddGeneration never touches a generation that is taken: the index it uses is free (short of the uint
   wrap-around), it is bound to the new configuration, every other generation reads as before *)
Lemma add_generation_fresh : forall s gen v s' u,
  add_generation s gen v = (s', u) -> max_key s + 1 < uint_mod ->
  is_taken s u = false /\ lookup s' u = v /\ forall g, g <> u -> lookup s' g = lookup s g.
Proof.
  intros s gen v s' u H Hm. unfold add_generation in H.
  set (u0 := if (gen =? -1)%Z || is_taken s (to_uint gen) then new_index s else to_uint gen) in H.
  inversion H; subst s' u; clear H.
  assert (Hf : is_taken s u0 = false).
  { unfold u0. destruct ((gen =? -1)%Z || is_taken s (to_uint gen)) eqn:E.
    - unfold new_index. rewrite N.mod_small by exact Hm.
      unfold is_taken. destruct (sget s (max_key s + 1)) eqn:G; [|reflexivity].
      apply sget_le_max in G. lia.
    - apply Bool.orb_false_iff in E. apply E. }
  split; [exact Hf|]. split.
  - rewrite lookup_sset, N.eqb_refl. reflexivity.
  - intros g Hg. rewrite lookup_sset. destruct (u0 =? g) eqn:E; [apply N.eqb_eq in E; congruence|reflexivity].
Qed.

(* ---------- loading a file ---------- *)
Definition ff (s : selector) (kc : Z * config) : selector := fst (add_generation s (fst kc) (Some (snd kc))).

Lemma file_lookup_notin : forall f g, ~ In (Z.of_N g) (map fst f) -> file_lookup f g = None.
Proof.
  induction f as [|[k c] r IH]; cbn [file_lookup map fst In]; intros g H; [reflexivity|].
  destruct (k =? Z.of_N g)%Z eqn:E.
  - apply Z.eqb_eq in E. exfalso. apply H. left. exact E.
  - apply IH. intro. apply H. right. assumption.
Qed.

Lemma from_file_gen : forall f s, NoDup (map fst f) -> Forall key_ok (map fst f) ->
  (forall k, In k (map fst f) -> is_taken s (Z.to_N k) = false) ->
  forall g, lookup (fold_left ff f s) g = match file_lookup f g with Some c => Some c | None => lookup s g end.
Proof.
  induction f as [|[k c] r IH]; cbn [fold_left file_lookup map fst]; intros s Hnd Hok Hfree g; [reflexivity|].
  inversion Hnd as [|? ? Hnin Hnd']; subst. inversion Hok as [|? ? Hk Hok']; subst.
  assert (Hs : ff s (k, c) = sset s (Z.to_N k) (Some c)).
  { unfold ff, add_generation. cbn [fst snd].
    rewrite (to_uint_ok _ Hk). rewrite (Hfree k (or_introl eq_refl)).
    destruct (k =? -1)%Z eqn:E; [apply Z.eqb_eq in E; destruct Hk; lia|]. reflexivity. }
  rewrite Hs. rewrite IH; [|assumption|assumption|].
  - destruct (k =? Z.of_N g)%Z eqn:E.
    + apply Z.eqb_eq in E. subst k. rewrite file_lookup_notin by assumption.
      rewrite lookup_sset. rewrite N2Z.id, N.eqb_refl. reflexivity.
    + destruct (file_lookup r g); [reflexivity|].
      rewrite lookup_sset. destruct (Z.to_N k =? g) eqn:E2; [|reflexivity].
      apply N.eqb_eq in E2. apply Z.eqb_neq in E. destruct Hk. exfalso. apply E. subst g. rewrite Z2N.id; lia.
  - intros k' Hin. rewrite is_taken_sset. rewrite (Hfree k' (or_intror Hin)).
    destruct (Z.to_N k =? Z.to_N k') eqn:E; [|reflexivity].
    apply N.eqb_eq in E. exfalso. apply Hnin.
    assert (key_ok k') as [? ?] by (rewrite Forall_forall in Hok'; apply Hok'; exact Hin).
    destruct Hk. assert (k = k') by (apply Z2N.inj; lia). subst. exact Hin.
Qed.

(* the selector a load builds gives every generation exactly what the file says, whatever the order in which
   Go's map iteration presents the generations *)
Lemma from_file_lookup : forall f, wellkeyed f -> forall g, lookup (from_file f) g = file_lookup f g.
Proof.
  intros f [Hnd Hok] g. unfold from_file. change (fun s kc => fst (add_generation s (fst kc) (Some (snd kc)))) with ff.
  rewrite from_file_gen; try assumption; [|reflexivity].
  destruct (file_lookup f g); reflexivity.
Qed.

Lemma wellkeyedb_ok : forall f, wellkeyedb f = true -> wellkeyed f.
Proof.
  intros f H. unfold wellkeyedb in H. apply andb_prop in H. destruct H as [H1 H2]. split.
  - clear H2. induction (map fst f) as [|k r IH]; [constructor|].
    cbn [nodup_keysb] in H1. apply andb_prop in H1. destruct H1 as [Ha Hb]. constructor; [|apply IH; exact Hb].
    intro Hin. apply Bool.negb_true_iff in Ha.
    assert (existsb (Z.eqb k) r = true) by (apply existsb_exists; exists k; split; [exact Hin|apply Z.eqb_refl]).
    congruence.
  - apply Forall_forall. intros k Hin. rewrite forallb_forall in H2. specialize (H2 k Hin).
    unfold key_okb in H2. unfold key_ok. lia.
Qed.

(* ---------- histories of reloads and selections ---------- *)
Lemma lrun_cons : forall rl held e r,
  lrun rl held (e :: r) = (snd (lstep rl held e) :: fst (lrun rl (fst (lstep rl held e)) r),
                          snd (lrun rl (fst (lstep rl held e)) r)).
Proof.
  intros. cbn [lrun]. destruct (lstep rl held e) as [h1 o]. cbn [fst snd]. destruct (lrun rl h1 r) as [os h2]. reflexivity.
Qed.

Lemma loads_wellkeyed_tail : forall e r, loads_wellkeyed (e :: r) -> loads_wellkeyed r.
Proof. intros e r H f Hin. apply H. right. exact Hin. Qed.

Lemma loads_wellkeyed_app : forall a b, loads_wellkeyed (a ++ b) -> loads_wellkeyed a.
Proof. intros a b H f Hin. apply H. apply in_or_app. left. exact Hin. Qed.

(* every selection answers from the configuration in force *)
Lemma station_select_in_force : forall pre f0 held seed g lv fam post,
  (forall g', lookup held g' = file_lookup f0 g') -> loads_wellkeyed pre ->
  nth_error (fst (station_run held (pre ++ ESelect seed g lv fam :: post))) (length pre)
  = Some (Some (select seed (file_lookup (in_force f0 pre) g) lv fam)).
Proof.
  unfold station_run.
  induction pre as [|e pre IH]; intros f0 held seed g lv fam post Hh Hw.
  - cbn [app length]. rewrite lrun_cons. cbn [fst nth_error lstep snd in_force]. unfold sel_select. rewrite Hh. reflexivity.
  - cbn [app length]. rewrite lrun_cons. cbn [fst nth_error].
    destruct e as [[f|]|s' g' lv' fam']; cbn [lstep fst reload_replace in_force].
    + apply IH; [|eapply loads_wellkeyed_tail; exact Hw].
      intro g0. apply from_file_lookup. apply Hw. left. reflexivity.
    + apply IH; [exact Hh|eapply loads_wellkeyed_tail; exact Hw].
    + apply IH; [exact Hh|eapply loads_wellkeyed_tail; exact Hw].
Qed.

(* ... and the selector held after any history reads, for every generation, as the configuration in force *)
Lemma station_held_in_force : forall evs f0 held,
  (forall g, lookup held g = file_lookup f0 g) -> loads_wellkeyed evs ->
  forall g, lookup (snd (station_run held evs)) g = file_lookup (in_force f0 evs) g.
Proof.
  unfold station_run.
  induction evs as [|e r IH]; intros f0 held Hh Hw g; [apply Hh|].
  rewrite lrun_cons. cbn [snd].
  destruct e as [[f|]|s' g' lv' fam']; cbn [lstep fst reload_replace in_force].
  - apply IH; [|eapply loads_wellkeyed_tail; exact Hw]. intro g0. apply from_file_lookup. apply Hw. left. reflexivity.
  - apply IH; [exact Hh|eapply loads_wellkeyed_tail; exact Hw].
  - apply IH; [exact Hh|eapply loads_wellkeyed_tail; exact Hw].
Qed.

(* purity across reloads, for ANY files (also ones with colliding or negative keys): a selection returns what a
   fresh selector loaded from the configuration in force returns *)
Lemma station_select_fresh : forall pre f0 seed g lv fam post,
  nth_error (fst (station_run (from_file f0) (pre ++ ESelect seed g lv fam :: post))) (length pre)
  = Some (Some (sel_select (from_file (in_force f0 pre)) seed g lv fam)).
Proof.
  unfold station_run.
  induction pre as [|e pre IH]; intros f0 seed g lv fam post.
  - cbn [app length]. rewrite lrun_cons. reflexivity.
  - cbn [app length]. rewrite lrun_cons. cbn [fst nth_error].
    destruct e as [[f|]|s' g' lv' fam']; cbn [lstep fst reload_replace in_force]; apply IH.
Qed.

(* the property over the station's lifetime *)
Lemma lifecycle_sound : forall f0 pre seed g lv fam post r,
  wellkeyed f0 -> loads_wellkeyed pre ->
  nth_error (fst (station_run (from_file f0) (pre ++ ESelect seed g lv fam :: post))) (length pre) = Some (Some r) ->
  let F := in_force f0 pre in
  r <> Panic /\
  r = sel_select (from_file F) seed g lv fam /\
  (file_lookup F g = None -> exists e, r = Err e) /\
  (forall p, r = Ok p ->
     exists cfg grp c, file_lookup F g = Some cfg /\ In grp cfg /\ In c (group_cidrs grp) /\
                       contains c fam (be_to_N (p_bytes p)) /\ p_rand_port p = rand_port grp /\
                       blen (p_bytes p) * 8 = bits fam /\ ip_is4 (p_bytes p) = family_eqb fam V4).
Proof.
  intros f0 pre seed g lv fam post r Hf Hw H F.
  pose proof (station_select_in_force pre f0 (from_file f0) seed g lv fam post (from_file_lookup f0 Hf) Hw) as H1.
  pose proof (station_select_fresh pre f0 seed g lv fam post) as H2.
  rewrite H in H1, H2.
  assert (Hr : r = select seed (file_lookup F g) lv fam) by (unfold F; congruence).
  assert (Hr2 : r = sel_select (from_file F) seed g lv fam) by (unfold F; congruence).
  clear H1 H2.
  split; [rewrite Hr; apply select_never_panics|]. split; [exact Hr2|]. split.
  - intro Hn. rewrite Hr, Hn. apply select_unknown_generation.
  - intros p Hp. rewrite Hr in Hp. destruct (file_lookup F g) as [cfg|] eqn:E.
    + destruct (select_contained _ _ _ _ _ Hp) as [grp [c [Hg [Hc [Hcont Hrp]]]]].
      destruct (select_wellformed _ _ _ _ _ Hp) as [Hl H4].
      exists cfg, grp, c. repeat split; try assumption; apply Hcont.
    + destruct (select_unknown_generation seed lv fam) as [e He]. rewrite He in Hp. discriminate.
Qed.

(* ---------- histories over the selector's API ---------- *)
Lemma arun_cons : forall s o r,
  arun s (o :: r) = (snd (astep s o) :: fst (arun (fst (astep s o)) r), snd (arun (fst (astep s o)) r)).
Proof.
  intros. cbn [arun]. destruct (astep s o) as [s1 x]. cbn [fst snd]. destruct (arun s1 r) as [xs s2]. reflexivity.
Qed.

Lemma api_history_view : forall pre s seed g lv fam post,
  no_add pre ->
  nth_error (fst (arun s (pre ++ ASelect seed g lv fam :: post))) (length pre)
  = Some (OSel (select seed (gen_view (lookup s g) g pre) lv fam)).
Proof.
  induction pre as [|o pre IH]; intros s seed g lv fam post Hn.
  - cbn [app length]. rewrite arun_cons. reflexivity.
  - cbn [app length]. rewrite arun_cons. cbn [fst nth_error].
    destruct o as [gen v|g' v|g'|s' g' lv' fam']; cbn [no_add] in Hn; [contradiction| | |];
      cbn [astep fst gen_view]; rewrite IH by exact Hn.
    + rewrite lookup_update. reflexivity.
    + rewrite lookup_remove. reflexivity.
    + reflexivity.
Qed.

(* a selection never changes the selector; Update / Remove change one generation only *)
Lemma api_select_keeps : forall s seed g lv fam, fst (astep s (ASelect seed g lv fam)) = s.
Proof. reflexivity. Qed.

Lemma api_removed_generation_fails : forall s g seed lv fam,
  exists e, sel_select (remove_generation s g) seed g lv fam = Err e.
Proof.
  intros. unfold sel_select. rewrite lookup_remove, N.eqb_refl. apply select_unknown_generation.
Qed.

(* ---------- reloads while selections are in flight ---------- *)
Lemma crun_cons : forall ip c e r,
  crun ip c (e :: r) = (snd (cstep ip c e) :: fst (crun ip (fst (cstep ip c e)) r),
                        snd (crun ip (fst (cstep ip c e)) r)).
Proof.
  intros. cbn [crun]. destruct (cstep ip c e) as [c1 o]. cbn [fst snd]. destruct (crun ip c1 r) as [os c2]. reflexivity.
Qed.

Definition cinv (c : cstate) (cur : file) (t : nat) (af : option file) : Prop :=
  (ptr c < length (heap c))%nat /\ obj c (ptr c) = from_file cur /\
  match tget (fetched c) t with
  | Some p => (p < length (heap c))%nat /\ exists F, af = Some F /\ obj c p = from_file F
  | None => af = None
  end.

Lemma obj_app : forall h x p, (p < length h)%nat -> nth p (h ++ [x]) (@nil (N * entry)) = nth p h [].
Proof. intros. apply app_nth1. assumption. Qed.

Lemma reload_linearizable_gen : forall t pre c cur af seed g lv fam post,
  cinv c cur t af ->
  nth_error (fst (crun false c (pre ++ CSelect t seed g lv fam :: post))) (length pre)
  = Some (match force_at_fetch cur af t pre with
          | Some F => Some (sel_select (from_file F) seed g lv fam)
          | None => None
          end).
Proof.
  intros t. induction pre as [|e pre IH]; intros c cur af seed g lv fam post [Hp [Hc Hf]].
  - cbn [app length]. rewrite crun_cons. cbn [fst nth_error cstep force_at_fetch].
    destruct (tget (fetched c) t) as [p|].
    + destruct Hf as [_ [F [-> Ho]]]. cbn [snd]. rewrite Ho. reflexivity.
    + subst af. reflexivity.
  - cbn [app length]. rewrite crun_cons. cbn [fst nth_error].
    destruct e as [[f|]|t'|t' s' g' lv' fam']; cbn [cstep fst force_at_fetch].
    + apply IH. unfold cinv, obj. cbn [heap ptr fetched]. rewrite app_length. cbn [length]. split; [lia|]. split.
      * rewrite app_nth2 by lia. rewrite Nat.sub_diag. reflexivity.
      * destruct (tget (fetched c) t) as [p|]; [|exact Hf].
        destruct Hf as [Hlt [F [Ha Ho]]]. split; [lia|]. exists F. split; [exact Ha|].
        rewrite app_nth1 by exact Hlt. exact Ho.
    + apply IH. split; [exact Hp|]. split; [exact Hc|exact Hf].
    + apply IH. unfold cinv. cbn [heap ptr fetched tget]. split; [exact Hp|]. split; [exact Hc|].
      destruct (Nat.eqb t' t) eqn:E.
      * split; [exact Hp|]. exists cur. split; [reflexivity|exact Hc].
      * exact Hf.
    + destruct (tget (fetched c) t'); cbn [fst]; apply IH; (split; [exact Hp|]; split; [exact Hc|exact Hf]).
Qed.

Lemma cinit_inv : forall f0 t, cinv (cinit f0) f0 t None.
Proof. intros. unfold cinv, cinit, obj. cbn. split; [lia|]. split; reflexivity. Qed.

Lemma reload_linearizable : forall f0 t pre seed g lv fam post,
  nth_error (fst (crun false (cinit f0) (pre ++ CSelect t seed g lv fam :: post))) (length pre)
  = Some (match force_at_fetch f0 None t pre with
          | Some F => Some (sel_select (from_file F) seed g lv fam)
          | None => None
          end).
Proof. intros. apply reload_linearizable_gen. apply cinit_inv. Qed.

Lemma station_held_in_force0 : forall evs f0, wellkeyed f0 -> loads_wellkeyed evs ->
  forall g, lookup (snd (station_run (from_file f0) evs)) g = file_lookup (in_force f0 evs) g.
Proof. intros evs f0 Hf Hw g. apply station_held_in_force; [apply from_file_lookup; exact Hf|exact Hw]. Qed.

(* a selection in flight during reloads answers from the configuration that was in force when it fetched the
   selector: containment and the unknown-generation error follow for that configuration *)
Lemma reload_linearizable_sound : forall f0 t pre seed g lv fam post F r,
  force_at_fetch f0 None t pre = Some F -> wellkeyed F ->
  nth_error (fst (crun false (cinit f0) (pre ++ CSelect t seed g lv fam :: post))) (length pre) = Some (Some r) ->
  r = select seed (file_lookup F g) lv fam /\ r <> Panic /\
  (file_lookup F g = None -> exists e, r = Err e) /\
  (forall p, r = Ok p -> exists cfg grp c, file_lookup F g = Some cfg /\ In grp cfg /\ In c (group_cidrs grp) /\
                                          contains c fam (be_to_N (p_bytes p)) /\ p_rand_port p = rand_port grp).
Proof.
  intros f0 t pre seed g lv fam post F r HF Hw H.
  rewrite reload_linearizable, HF in H.
  assert (Hr : r = select seed (file_lookup F g) lv fam).
  { unfold sel_select in H. rewrite (from_file_lookup F Hw) in H. congruence. }
  split; [exact Hr|]. split; [rewrite Hr; apply select_never_panics|]. split.
  - intro Hn. rewrite Hr, Hn. apply select_unknown_generation.
  - intros p Hp. rewrite Hr in Hp. destruct (file_lookup F g) as [cfg|] eqn:E.
    + destruct (select_contained _ _ _ _ _ Hp) as [grp [c [Hg [Hc [Hcont Hrp]]]]].
      exists cfg, grp, c. repeat split; try assumption; apply Hcont.
    + destruct (select_unknown_generation seed lv fam) as [e He]. rewrite He in Hp. discriminate.
Qed.

Lemma station_select_pure0 : forall pre f0 seed g lv fam post,
  wellkeyed f0 -> loads_wellkeyed pre ->
  nth_error (fst (station_run (from_file f0) (pre ++ ESelect seed g lv fam :: post))) (length pre)
  = Some (Some (select seed (file_lookup (in_force f0 pre) g) lv fam)).
Proof. intros. apply station_select_in_force; [apply from_file_lookup; assumption|assumption]. Qed.

(* ---------- the merge variant, in general ---------- *)
Lemma from_file_gen_sget : forall f s, NoDup (map fst f) -> Forall key_ok (map fst f) ->
  (forall k, In k (map fst f) -> is_taken s (Z.to_N k) = false) ->
  forall g, sget (fold_left ff f s) g = match file_lookup f g with Some c => Some (Some c) | None => sget s g end.
Proof.
  induction f as [|[k c] r IH]; cbn [fold_left file_lookup map fst]; intros s Hnd Hok Hfree g; [reflexivity|].
  inversion Hnd as [|? ? Hnin Hnd']; subst. inversion Hok as [|? ? Hk Hok']; subst.
  assert (Hs : ff s (k, c) = sset s (Z.to_N k) (Some c)).
  { unfold ff, add_generation. cbn [fst snd].
    rewrite (to_uint_ok _ Hk). rewrite (Hfree k (or_introl eq_refl)).
    destruct (k =? -1)%Z eqn:E; [apply Z.eqb_eq in E; destruct Hk; lia|]. reflexivity. }
  rewrite Hs. rewrite IH; [|assumption|assumption|].
  - destruct (k =? Z.of_N g)%Z eqn:E.
    + apply Z.eqb_eq in E. subst k. rewrite file_lookup_notin by assumption.
      rewrite sget_sset. rewrite N2Z.id, N.eqb_refl. reflexivity.
    + destruct (file_lookup r g); [reflexivity|].
      rewrite sget_sset. destruct (Z.to_N k =? g) eqn:E2; [|reflexivity].
      apply N.eqb_eq in E2. apply Z.eqb_neq in E. destruct Hk. exfalso. apply E. subst g. rewrite Z2N.id; lia.
  - intros k' Hin. rewrite is_taken_sset. rewrite (Hfree k' (or_intror Hin)).
    destruct (Z.to_N k =? Z.to_N k') eqn:E; [|reflexivity].
    apply N.eqb_eq in E. exfalso. apply Hnin.
    assert (key_ok k') as [? ?] by (rewrite Forall_forall in Hok'; apply Hok'; exact Hin).
    destruct Hk. assert (k = k') by (apply Z2N.inj; lia). subst. exact Hin.
Qed.

Lemma merge_is_app : forall l held, fold_right (fun kv s => update_generation s (fst kv) (snd kv)) held l = l ++ held.
Proof. induction l as [|[k v] r IH]; intro held; cbn [fold_right app fst snd]; [reflexivity|]. rewrite IH. reflexivity. Qed.

Lemma sget_app : forall a b g, sget (a ++ b) g = match sget a g with Some v => Some v | None => sget b g end.
Proof.
  induction a as [|[k v] r IH]; intros b g; cbn [app sget]; [reflexivity|].
  destruct (k =? g); [reflexivity|apply IH].
Qed.

(* whatever the two files: a reload that copies the new file's generations into the held selector gives the
   generations of the new file their new configuration -- and keeps EVERY generation the new file dropped *)
Lemma merge_reload_keeps_retired : forall f0 f1 g,
  wellkeyed f0 -> wellkeyed f1 ->
  lookup (reload_merge (from_file f0) (Some f1)) g
  = match file_lookup f1 g with Some c => Some c | None => file_lookup f0 g end.
Proof.
  intros f0 f1 g H0 [Hnd Hok]. unfold reload_merge. rewrite merge_is_app. unfold lookup. rewrite sget_app.
  unfold from_file at 1. change (fun s kc => fst (add_generation s (fst kc) (Some (snd kc)))) with ff.
  rewrite from_file_gen_sget; try assumption; [|reflexivity].
  destruct (file_lookup f1 g); [reflexivity|]. cbn [sget].
  pose proof (from_file_lookup f0 H0 g) as H. unfold lookup in H. exact H.
Qed.

Lemma merge_reload_refuted : forall f0 f1 g c seed lv fam,
  wellkeyed f0 -> wellkeyed f1 -> file_lookup f0 g = Some c -> file_lookup f1 g = None ->
  nth_error (fst (merge_run (from_file f0) [EReload (Some f1); ESelect seed g lv fam])) 1 = Some (Some (select seed (Some c) lv fam)) /\
  nth_error (fst (station_run (from_file f0) [EReload (Some f1); ESelect seed g lv fam])) 1 = Some (Some (Err EGeneration)).
Proof.
  intros f0 f1 g c seed lv fam H0 H1 Hc Hn. split.
  - unfold merge_run. rewrite lrun_cons. cbn [fst nth_error lstep]. rewrite lrun_cons. cbn [fst nth_error lstep snd].
    unfold sel_select. rewrite merge_reload_keeps_retired by assumption. rewrite Hn, Hc. reflexivity.
  - unfold station_run. rewrite lrun_cons. cbn [fst nth_error lstep reload_replace]. rewrite lrun_cons. cbn [fst nth_error lstep snd].
    unfold sel_select. rewrite (from_file_lookup f1 H1). rewrite Hn. reflexivity.
Qed.
