(* C14 proofs. *)
From CJ Require Import Common.Base C14.Model.
From Coq Require Import Lia ZifyN ZifyNat ZifyBool.

Section Gen.
  Variable hm : bytes -> bytes -> bytes.
  Variable src : Type.
  Variable src_seed : Z -> src.
  Variable src_int63 : src -> N * src.
  Variable sorter : list group -> list group.

  Lemma select_gen_unknown_generation :
    forall seed lv f, select_gen hm src src_seed src_int63 sorter seed None lv f = Err EGeneration.
  Proof. reflexivity. Qed.
End Gen.

Lemma unknown_generation : forall seed lv f, exists e, select seed None lv f = Err e.
Proof. intros. exists EGeneration. apply select_gen_unknown_generation. Qed.
