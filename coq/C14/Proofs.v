(* C14 proofs: containment, well-formedness, flag, no panic, unknown generation.
   Everything is proved for an arbitrary PRF hm, math/rand source and sorter. *)
From CJ Require Import Common.Base C14.Model C14.LibProofs.
From Coq Require Import Lia ZifyN ZifyNat ZifyBool Permutation.

(* what a selected phantom must satisfy w.r.t. the network it was taken from *)
Definition good (p : pnet) (ph : phantom) : Prop :=
  contains (fst p) (eff_fam (fst p)) (be_to_N (p_bytes ph)) /\
  (blen (p_bytes ph) * 8 = bits (eff_fam (fst p)) /\
   ip_is4 (p_bytes ph) = family_eqb (eff_fam (fst p)) V4) /\
  p_rand_port ph = snd p.

Definition from_cfg (cfg : config) (p : pnet) : Prop :=
  exists g, In g cfg /\ In (fst p) (group_cidrs g) /\ snd p = rand_port g.

(* ---------- parsing ---------- *)
Lemma parse_list_in : forall l rp t, parse_list l rp = Some t ->
  forall p, In p t -> In (Some (fst p)) l /\ snd p = rp.
Proof.
  induction l as [|o l IH]; intros rp t H p Hin.
  - inversion H; subst. destruct Hin.
  - cbn [parse_list] in H. destruct o as [c|]; [|discriminate].
    destruct (parse_list l rp) as [t'|] eqn:E; [|discriminate].
    inversion H; subst. destruct Hin as [<-|Hin].
    + split; [left; reflexivity|reflexivity].
    + destruct (IH _ _ E _ Hin). split; [right; assumption|assumption].
Qed.

Lemma parse_subnets_from : forall g t, parse_subnets g = Ok t ->
  forall p, In p t -> In (fst p) (group_cidrs g) /\ snd p = rand_port g.
Proof.
  intros g t H p Hin. unfold parse_subnets in H. unfold group_cidrs.
  destruct (nets g) as [l|]; [|discriminate].
  destruct l as [|o l]; [discriminate|].
  destruct (parse_list (o :: l) (rand_port g)) as [t'|] eqn:E; [|discriminate].
  inversion H; subst. destruct (parse_list_in _ _ _ E _ Hin) as [H1 H2].
  split; [|assumption]. apply in_flat_map. exists (Some (fst p)). split; [assumption|left; reflexivity].
Qed.

Lemma parse_subnets_no_panic : forall g, parse_subnets g <> Panic.
Proof.
  intros g. unfold parse_subnets. destruct (nets g) as [[|o l]|]; try discriminate.
  destruct (parse_list (o :: l) (rand_port g)); discriminate.
Qed.

Lemma filter_family_in : forall f l p, In p (filter_family f l) -> In p l /\ eff_fam (fst p) = f.
Proof.
  intros f l p H. unfold filter_family in H. apply filter_In in H. destruct H as [H1 H2].
  split; [assumption|]. destruct (eff_fam (fst p)), f; (reflexivity || discriminate).
Qed.

(* ---------- ranges ---------- *)
Lemma id_nets_in : forall l t mn mx p, In (mn, mx, p) (fst (id_nets l t)) -> In p l.
Proof.
  induction l as [|q l IH]; intros t mn mx p H.
  - destruct H.
  - cbn [id_nets] in H. destruct (id_nets l (t + sel_count (fst q))) as [rest tot] eqn:E.
    cbn [fst] in H. destruct H as [H|H].
    + inversion H; subst. left; reflexivity.
    + right. eapply IH. rewrite E. exact H.
Qed.

Lemma id_nets_v0_in : forall l t mn mx p, In (mn, mx, p) (fst (id_nets_v0 l t)) -> In p l.
Proof.
  induction l as [|q l IH]; intros t mn mx p H.
  - destruct H.
  - cbn [id_nets_v0] in H. destruct (id_nets_v0 l (t + sel_count (fst q) - 1)) as [rest tot] eqn:E.
    cbn [fst] in H. destruct H as [H|H].
    + inversion H; subst. left; reflexivity.
    + right. eapply IH. rewrite E. exact H.
Qed.

(* ---------- address construction ---------- *)
Lemma addr_len_bits : forall c, addr_len c * 8 = bits (eff_fam c).
Proof. intros c. unfold addr_len. destruct (eff_fam c); reflexivity. Qed.

Lemma addr_bytes_ok : forall c a b, addr_bytes c a = Ok b ->
  be_to_N b = a /\ (blen b * 8 = bits (eff_fam c) /\ ip_is4 b = family_eqb (eff_fam c) V4).
Proof.
  intros c a b H. unfold addr_bytes in H.
  destruct (N.size a <=? 8 * addr_len c) eqn:E; [|discriminate].
  destruct ((addr_len c =? 16) && (a / 2 ^ 32 =? 65535)) eqn:E4; [discriminate|].
  inversion H; subst.
  assert (Hb : be_to_N (N_to_be (addr_len c) a) = a) by (apply be_to_N_to_be_size; exact E).
  split; [exact Hb|]. split.
  - rewrite N_to_be_length. apply addr_len_bits.
  - unfold ip_is4. rewrite N_to_be_length, Hb. unfold addr_len in *.
    destruct (eff_fam c); cbn [bits family_eqb] in *.
    + reflexivity.
    + change (128 / 8) with 16 in *. cbn in E4. cbn. exact E4.
Qed.

Lemma addr_bytes_no_panic : forall c a, addr_bytes c a <> Panic.
Proof.
  intros. unfold addr_bytes. destruct (N.size a <=? 8 * addr_len c); [|discriminate].
  destruct ((addr_len c =? 16) && (a / 2 ^ 32 =? 65535)); discriminate.
Qed.

Lemma addr_from_offset_good : forall p off ph, addr_from_offset p off = Ok ph -> good p ph.
Proof.
  intros p off ph H. unfold addr_from_offset in H.
  destruct (net_size (fst p) <=? off) eqn:E; [discriminate|].
  destruct (addr_bytes (fst p) (eff_base (fst p) + off)) as [b| |] eqn:Eb; try discriminate.
  inversion H; subst. destruct (addr_bytes_ok _ _ _ Eb) as [H1 H2].
  unfold good, contains. cbn [p_bytes p_rand_port]. rewrite H1.
  repeat split; try assumption; lia.
Qed.

Lemma addr_from_offset_no_panic : forall p off, addr_from_offset p off <> Panic.
Proof.
  intros. unfold addr_from_offset. destruct (net_size (fst p) <=? off); [discriminate|].
  destruct (addr_bytes (fst p) (eff_base (fst p) + off)) eqn:E; try discriminate.
  exfalso. eapply addr_bytes_no_panic; eauto.
Qed.

(* ---------- the match loop ---------- *)
Section Loop.
  Variable hit : N -> N -> bool.
  Variable pick : N -> pnet -> sres phantom.

  Lemma match_loop_inv : forall l acc ph, match_loop hit pick l acc = Ok (Some ph) ->
    acc = Some ph \/ exists mn mx p, In (mn, mx, p) l /\ hit mn mx = true /\ pick mn p = Ok ph.
  Proof.
    induction l as [|[[mn mx] p] l IH]; intros acc ph H.
    - inversion H; subst. left; reflexivity.
    - cbn [match_loop] in H. destruct (hit mn mx) eqn:Eh.
      + destruct (pick mn p) as [ph'| |] eqn:Ep; try discriminate.
        destruct (IH _ _ H) as [Ha|(mn' & mx' & p' & Hin & Hh & Hp)].
        * inversion Ha; subst. right. exists mn, mx, p. repeat split; auto. left; reflexivity.
        * right. exists mn', mx', p'. repeat split; auto. right; assumption.
      + destruct (IH _ _ H) as [Ha|(mn' & mx' & p' & Hin & Hh & Hp)].
        * left; assumption.
        * right. exists mn', mx', p'. repeat split; auto. right; assumption.
  Qed.

  Lemma match_loop_no_panic : (forall mn p, pick mn p <> Panic) ->
    forall l acc, match_loop hit pick l acc <> Panic.
  Proof.
    intros Hp. induction l as [|[[mn mx] p] l IH]; intros acc; cbn [match_loop]; [discriminate|].
    destruct (hit mn mx); [|apply IH].
    destruct (pick mn p) eqn:E; [apply IH|discriminate|exfalso; eapply Hp; eauto].
  Qed.
End Loop.

Lemma finish_loop_ok : forall r ph, finish_loop r = Ok ph -> r = Ok (Some ph).
Proof. intros [[x|]|e|] ph H; cbn in H; try discriminate. inversion H; reflexivity. Qed.

Lemma finish_loop_no_panic : forall r, r <> Panic -> finish_loop r <> Panic.
Proof. intros [[x|]|e|] H; cbn; try discriminate. exfalso; apply H; reflexivity. Qed.

(* ---------- sums of weights ---------- *)
Definition wsum (l : list group) : N := fold_left (fun a g => a + weight g) l 0.

Lemma wsum_from : forall l a, fold_left (fun a g => a + weight g) l a = a + wsum l.
Proof.
  unfold wsum. induction l as [|g l IH]; intros a; cbn [fold_left].
  - lia.
  - rewrite (IH (a + weight g)), (IH (0 + weight g)). lia.
Qed.

Lemma wsum_cons : forall g l, wsum (g :: l) = weight g + wsum l.
Proof. intros. unfold wsum at 1. cbn [fold_left]. rewrite wsum_from. lia. Qed.

Section Gen.
  Variable hm : bytes -> bytes -> bytes.
  Variable src : Type.
  Variable src_seed : Z -> src.
  Variable src_int63 : src -> N * src.
  Variable sorter : list group -> list group.
  Hypothesis sorter_perm : forall l, Permutation (sorter l) l.

  Notation select_g := (select_gen hm src src_seed src_int63 sorter).
  Notation select_phantom_g := (select_phantom_gen hm sorter).

  Lemma sorter_incl : forall l g, In g (sorter l) -> In g l.
  Proof. intros l g H. eapply Permutation_in; [apply sorter_perm|exact H]. Qed.

  Lemma walk_in : forall l rnd g, walk_weights l rnd = Some g -> In g l.
  Proof.
    induction l as [|x l IH]; intros rnd g H; [discriminate|].
    cbn [walk_weights] in H. destruct (rnd - Z.of_N (weight x) <? 0)%Z.
    - inversion H; subst. left; reflexivity.
    - right. eapply IH; eauto.
  Qed.

  Lemma search_in : forall l run r g, search_totals l run r = Some g -> In g l.
  Proof.
    induction l as [|x l IH]; intros run r g H; [discriminate|].
    cbn [search_totals] in H. destruct (r <=? run + weight x).
    - inversion H; subst. left; reflexivity.
    - right. eapply IH; eauto.
  Qed.

  Lemma search_found : forall l run r, run < r -> r <= run + wsum l -> search_totals l run r <> None.
  Proof.
    induction l as [|x l IH]; intros run r H1 H2.
    - unfold wsum in H2. cbn [fold_left] in H2. lia.
    - cbn [search_totals]. destruct (r <=? run + weight x) eqn:E; [discriminate|].
      apply IH; [lia|]. rewrite wsum_cons in H2. lia.
  Qed.

  Lemma concat_parse_from : forall l t, concat_parse l = Ok t -> forall p, In p t -> from_cfg l p.
  Proof.
    induction l as [|g l IH]; intros t H p Hin.
    - inversion H; subst. destruct Hin.
    - cbn [concat_parse] in H. destruct (parse_subnets g) as [a| |] eqn:Ea; try discriminate.
      destruct (concat_parse l) as [b| |] eqn:Eb; try discriminate.
      inversion H; subst. apply in_app_or in Hin. destruct Hin as [Hin|Hin].
      + destruct (parse_subnets_from _ _ Ea _ Hin). exists g. repeat split; auto. left; reflexivity.
      + destruct (IH _ eq_refl _ Hin) as (g' & H1 & H2 & H3). exists g'. repeat split; auto. right; assumption.
  Qed.

  Lemma concat_parse_no_panic : forall l, concat_parse l <> Panic.
  Proof.
    induction l as [|g l IH]; cbn [concat_parse]; [discriminate|].
    destruct (parse_subnets g) eqn:E; [|discriminate|exfalso; eapply parse_subnets_no_panic; eauto].
    destruct (concat_parse l); [discriminate|discriminate|exfalso; apply IH; reflexivity].
  Qed.

  Lemma hk_rand_int_no_panic : forall seed info max, (0 < max)%Z -> hk_rand_int hm seed info max <> RPanic.
  Proof. intros. unfold hk_rand_int. apply rand_int_no_panic. assumption. Qed.

  (* getSubnetsHkdf *)
  Lemma get_subnets_hkdf_from : forall cfg seed w t, get_subnets_hkdf hm sorter cfg seed w = Ok t ->
    forall p, In p t -> from_cfg cfg p.
  Proof.
    intros cfg seed w t H p Hin. unfold get_subnets_hkdf in H. destruct w.
    - match type of H with (if ?c then _ else _) = _ => destruct c end; [discriminate|].
      destruct (hk_rand_int hm seed info_subnet _) as [| | |rnd s']; try discriminate.
      destruct (walk_weights _ _) as [g|] eqn:Ew.
      + apply walk_in, sorter_incl, filter_In in Ew. destruct Ew as [Hg _].
        destruct (parse_subnets_from _ _ H _ Hin). exists g. repeat split; auto.
      + eapply concat_parse_from; eauto.
    - eapply concat_parse_from; eauto.
  Qed.

  Lemma get_subnets_hkdf_no_panic : forall cfg seed w, get_subnets_hkdf hm sorter cfg seed w <> Panic.
  Proof.
    intros. unfold get_subnets_hkdf. destruct w; [|apply concat_parse_no_panic].
    match goal with |- (if ?c then _ else _) <> _ => destruct c eqn:E end; [discriminate|].
    destruct (hk_rand_int hm seed info_subnet _) eqn:Er; try discriminate.
    - exfalso. eapply hk_rand_int_no_panic; [|exact Er]. lia.
    - destruct (walk_weights _ _); [apply parse_subnets_no_panic|apply concat_parse_no_panic].
  Qed.

  (* getSubnetsVarint *)
  Lemma get_subnets_varint_from : forall cfg seed t, get_subnets_varint src src_seed src_int63 sorter cfg seed = Ok t ->
    forall p, In p t -> from_cfg cfg p.
  Proof.
    intros cfg seed t H p Hin. unfold get_subnets_varint in H.
    destruct (varint seed) as [sv n]. destruct (n =? 0)%Z; [discriminate|].
    match type of H with (if ?c then _ else _) = _ => destruct c end; [discriminate|].
    destruct (rnd_intn _ _ _ _) as [| |v r]; try discriminate.
    destruct (search_totals _ _ _) as [g|] eqn:Es; [|discriminate].
    apply search_in, sorter_incl, filter_In in Es. destruct Es as [Es _].
    destruct (parse_subnets_from _ _ H _ Hin). exists g. repeat split; auto.
  Qed.

  (* ---------- math/rand: Intn stays below its bound ---------- *)
  Lemma redraw_le : forall fuel draw max v r v' r', redraw src fuel draw max v r = Some (v', r') -> v' <= max.
  Proof.
    induction fuel as [|f IH]; intros draw max v r v' r' H; cbn [redraw] in H.
    - destruct (v <=? max) eqn:E; [|discriminate]. inversion H; subst. lia.
    - destruct (v <=? max) eqn:E; [inversion H; subst; lia|].
      destruct (draw r) as [v1 r1]. eapply IH; eauto.
  Qed.

  Lemma rnd_intn_lt : forall fuel r n v r', rnd_intn src_int63 fuel r n = IntnOk v r' -> (Z.of_N v < n)%Z.
  Proof.
    intros fuel r n v r' H. unfold rnd_intn in H.
    destruct (n <=? 0)%Z eqn:E0; [discriminate|].
    assert (Hn : 0 < Z.to_N n) by lia.
    assert (Hlt : forall x, x mod Z.to_N n < Z.to_N n) by (intros; apply N.mod_lt; lia).
    assert (Hland : forall x, N.land x (Z.to_N n - 1) < Z.to_N n)
      by (intros x; pose proof (land_le_r x (Z.to_N n - 1)); lia).
    destruct (Z.to_N n <=? 2147483647).
    - unfold rnd_int31n in H. destruct (is_pow2 (Z.to_N n)).
      + destruct (rnd_int31 src src_int63 r) as [x r1]. inversion H; subst. specialize (Hland x). lia.
      + destruct (rnd_int31 src src_int63 r) as [x r1].
        destruct (redraw _ _ _ _ _ _) as [[y r2]|]; [|discriminate].
        inversion H; subst. specialize (Hlt y). lia.
    - unfold rnd_int63n in H. destruct (is_pow2 (Z.to_N n)).
      + destruct (rnd_int63 src src_int63 r) as [x r1]. inversion H; subst. specialize (Hland x). lia.
      + destruct (rnd_int63 src src_int63 r) as [x r1].
        destruct (redraw _ _ _ _ _ _) as [[y r2]|]; [|discriminate].
        inversion H; subst. specialize (Hlt y). lia.
  Qed.

  Lemma rnd_intn_no_panic : forall fuel r n, (0 < n)%Z -> rnd_intn src_int63 fuel r n <> IntnPanic.
  Proof.
    intros fuel r n H. unfold rnd_intn. destruct (n <=? 0)%Z eqn:E; [lia|].
    match goal with |- match ?x with _ => _ end <> _ => destruct x as [[v r']|] end; discriminate.
  Qed.

  Lemma wsum_perm : forall l l', Permutation l l' -> wsum l = wsum l'.
  Proof.
    induction 1.
    - reflexivity.
    - rewrite !wsum_cons. lia.
    - rewrite !wsum_cons. lia.
    - lia.
  Qed.

  Lemma get_subnets_varint_no_panic : forall cfg seed, get_subnets_varint src src_seed src_int63 sorter cfg seed <> Panic.
  Proof.
    intros. unfold get_subnets_varint.
    destruct (varint seed) as [sv n]. destruct (n =? 0)%Z; [discriminate|].
    set (fc := filter (fun g => match nets g with None => false | Some _ => true end) cfg).
    fold (wsum (sorter fc)).
    destruct (wsum (sorter fc) <? 1) eqn:Et; [discriminate|].
    destruct (rnd_intn _ _ _ _) as [| |v r] eqn:Ei; try discriminate.
    - exfalso. eapply rnd_intn_no_panic; [|exact Ei]. lia.
    - apply rnd_intn_lt in Ei.
      destruct (search_totals _ _ _) as [g|] eqn:Es; [apply parse_subnets_no_panic|].
      exfalso. eapply search_found; [| |exact Es]; lia.
  Qed.

  (* ---------- SelectAddrFromSubnet ---------- *)
  Lemma select_addr_good : forall seed p ph, select_addr_from_subnet src src_seed src_int63 seed p = Ok ph -> good p ph.
  Proof.
    intros seed p ph H. unfold select_addr_from_subnet in H.
    destruct (varint seed) as [sv n]. destruct (n =? 0)%Z; [discriminate|].
    destruct (rnd_read _ _ _) as [rb r'].
    destruct (addr_bytes _ _) as [b| |] eqn:Eb; try discriminate.
    inversion H; subst. destruct (addr_bytes_ok _ _ _ Eb) as [H1 H2].
    unfold good, contains. cbn [p_bytes p_rand_port]. rewrite H1.
    pose proof (land_mask_lt (be_to_N rb) (bits (fam (fst p))) (ones (fst p))) as Hm.
    unfold net_size, host_bits. repeat split; try assumption; lia.
  Qed.

  Lemma select_addr_no_panic : forall seed p, select_addr_from_subnet src src_seed src_int63 seed p <> Panic.
  Proof.
    intros. unfold select_addr_from_subnet.
    destruct (varint seed) as [sv n]. destruct (n =? 0)%Z; [discriminate|].
    destruct (rnd_read _ _ _) as [rb r'].
    destruct (addr_bytes _ _) eqn:E; try discriminate. exfalso; eapply addr_bytes_no_panic; eauto.
  Qed.

  (* ---------- the three selectors ---------- *)
  Lemma locate_hkdf_good : forall idn id ph, locate_hkdf idn id = Ok ph ->
    exists mn mx p, In (mn, mx, p) idn /\ good p ph.
  Proof.
    intros idn id ph H. unfold locate_hkdf in H. apply finish_loop_ok, match_loop_inv in H.
    destruct H as [H|(mn & mx & p & Hin & _ & Hp)]; [discriminate|].
    exists mn, mx, p. split; [assumption|]. eapply addr_from_offset_good; eauto.
  Qed.

  Lemma select_impl_hkdf_good : forall seed subnets ph, select_impl_hkdf hm seed subnets = Ok ph ->
    exists p, In p subnets /\ good p ph.
  Proof.
    intros seed subnets ph H. unfold select_impl_hkdf in H.
    destruct (id_nets subnets 0) as [idn total] eqn:E.
    destruct (total =? 0); [discriminate|].
    destruct (hk_rand_int hm seed info_addr_id _) as [| | |id s']; try discriminate.
    destruct (locate_hkdf_good _ _ _ H) as (mn & mx & p & Hin & Hg).
    exists p. split; [|assumption]. eapply id_nets_in. rewrite E. exact Hin.
  Qed.

  Lemma select_impl_hkdf_no_panic : forall seed subnets, select_impl_hkdf hm seed subnets <> Panic.
  Proof.
    intros. unfold select_impl_hkdf. destruct (id_nets subnets 0) as [idn total].
    destruct (total =? 0) eqn:Et; [discriminate|].
    destruct (hk_rand_int hm seed info_addr_id _) eqn:Er; try discriminate.
    - exfalso. eapply hk_rand_int_no_panic; [|exact Er]. lia.
    - unfold locate_hkdf. apply finish_loop_no_panic, match_loop_no_panic.
      intros. apply addr_from_offset_no_panic.
  Qed.

  Lemma select_impl_varint_good : forall seed subnets ph,
    select_impl_varint src src_seed src_int63 seed subnets = Ok ph -> exists p, In p subnets /\ good p ph.
  Proof.
    intros seed subnets ph H. unfold select_impl_varint in H.
    destruct (id_nets subnets 0) as [idn total] eqn:E.
    destruct (total =? 0); [discriminate|].
    apply finish_loop_ok, match_loop_inv in H.
    destruct H as [H|(mn & mx & p & Hin & _ & Hp)]; [discriminate|].
    exists p. split; [eapply id_nets_in; rewrite E; exact Hin|eapply select_addr_good; eauto].
  Qed.

  Lemma select_impl_v0_good : forall seed subnets ph,
    select_impl_v0 src src_seed src_int63 seed subnets = Ok ph -> exists p, In p subnets /\ good p ph.
  Proof.
    intros seed subnets ph H. unfold select_impl_v0 in H.
    destruct (id_nets_v0 subnets 0) as [idn total] eqn:E.
    destruct (total =? 0); [discriminate|].
    apply finish_loop_ok, match_loop_inv in H.
    destruct H as [H|(mn & mx & p & Hin & _ & Hp)]; [discriminate|].
    exists p. split; [eapply id_nets_v0_in; rewrite E; exact Hin|eapply select_addr_good; eauto].
  Qed.

  Lemma select_impl_varint_no_panic : forall seed subnets, select_impl_varint src src_seed src_int63 seed subnets <> Panic.
  Proof.
    intros. unfold select_impl_varint. destruct (id_nets subnets 0) as [idn total].
    destruct (total =? 0); [discriminate|].
    apply finish_loop_no_panic, match_loop_no_panic. intros. apply select_addr_no_panic.
  Qed.

  Lemma select_impl_v0_no_panic : forall seed subnets, select_impl_v0 src src_seed src_int63 seed subnets <> Panic.
  Proof.
    intros. unfold select_impl_v0. destruct (id_nets_v0 subnets 0) as [idn total].
    destruct (total =? 0); [discriminate|].
    apply finish_loop_no_panic, match_loop_no_panic. intros. apply select_addr_no_panic.
  Qed.

  (* ---------- PhantomIPSelector.Select ---------- *)
  Lemma select_gen_good : forall seed cfg lv f ph, select_g seed (Some cfg) lv f = Ok ph ->
    exists p, from_cfg cfg p /\ eff_fam (fst p) = f /\ good p ph.
  Proof.
    intros seed cfg lv f ph H. unfold select_gen in H.
    match type of H with match ?x with _ => _ end = _ => destruct x as [subnets| |] eqn:Es end; try discriminate.
    assert (Hfrom : forall p, In p subnets -> from_cfg cfg p).
    { destruct (lv <? 2); [eapply get_subnets_varint_from|eapply get_subnets_hkdf_from]; eauto. }
    assert (Hsel : exists p, In p (filter_family f subnets) /\ good p ph).
    { destruct (lv <? 1); [eapply select_impl_v0_good; eauto|].
      destruct (lv <? 2); [eapply select_impl_varint_good; eauto|eapply select_impl_hkdf_good; eauto]. }
    destruct Hsel as (p & Hin & Hg). apply filter_family_in in Hin. destruct Hin as [Hin Hf].
    exists p. split; [|split]; auto.
  Qed.

  Lemma select_gen_no_panic : forall seed cfg lv f, select_g seed cfg lv f <> Panic.
  Proof.
    intros seed [cfg|] lv f; [|discriminate]. unfold select_gen.
    match goal with |- match ?x with _ => _ end <> _ => destruct x as [subnets| |] eqn:Es end.
    - destruct (lv <? 1); [apply select_impl_v0_no_panic|].
      destruct (lv <? 2); [apply select_impl_varint_no_panic|apply select_impl_hkdf_no_panic].
    - discriminate.
    - exfalso. destruct (lv <? 2);
        [eapply get_subnets_varint_no_panic|eapply get_subnets_hkdf_no_panic]; eauto.
  Qed.

  Lemma select_gen_unknown_generation : forall seed lv f, select_g seed None lv f = Err EGeneration.
  Proof. reflexivity. Qed.

  (* ---------- phantoms.SelectPhantom ---------- *)
  Lemma select_phantom_gen_good : forall seed cfg tr w ph, select_phantom_g seed cfg tr w = Ok ph ->
    exists p, from_cfg cfg p /\ (forall f, tr = Some f -> eff_fam (fst p) = f) /\ good p ph.
  Proof.
    intros seed cfg tr w ph H. unfold select_phantom_gen in H.
    destruct (get_subnets_hkdf hm sorter cfg seed w) as [subnets| |] eqn:Es; try discriminate.
    apply select_impl_hkdf_good in H. destruct H as (p & Hin & Hg).
    destruct tr as [f|].
    - apply filter_family_in in Hin. destruct Hin as [Hin Hf]. exists p. split; [|split]; auto.
      + eapply get_subnets_hkdf_from; eauto.
      + intros f' Hf'. inversion Hf'; subst; reflexivity.
    - exists p. split; [|split]; auto.
      + eapply get_subnets_hkdf_from; eauto.
      + intros f' Hf'. discriminate.
  Qed.

  Lemma select_phantom_gen_no_panic : forall seed cfg tr w, select_phantom_g seed cfg tr w <> Panic.
  Proof.
    intros. unfold select_phantom_gen.
    destruct (get_subnets_hkdf hm sorter cfg seed w) eqn:Es.
    - apply select_impl_hkdf_no_panic.
    - discriminate.
    - exfalso. eapply get_subnets_hkdf_no_panic; eauto.
  Qed.
End Gen.
