(* C14 lifecycle model: the phantom selector as the station and the registrar HOLD it.

   pkg/phantoms/station_phantoms.go   PhantomIPSelector{Networks map[uint]*SubnetConfig}: GetSubnetsByGeneration,
                                      AddGeneration / newGenerationIndex / IsTakenGeneration, RemoveGeneration,
                                      UpdateGeneration, Select; SubnetsFromTomlFile (the loop over the file's
                                      Networks table, after go-toml has parsed it)
   pkg/station/lib/registration.go    NewRegistrationManager (initial load), OnReload (reload: the selector is
                                      REPLACED by the freshly loaded one, a failed load keeps the old one),
                                      GetPhantomSelector (what a selection reads)
   pkg/regserver/regprocessor         NewRegProcessor* (initial load), ReloadSubnets (same shape), processBdReq
                                      (selection under the read lock)

   "The configured subnets" of the property are those of the configuration IN FORCE: the file of the last
   successful (re)load.  Definitions only; executable. *)
From CJ Require Export Common.Base C14.Model.

(* ---------- PhantomIPSelector.Networks ---------- *)
(* a Go map uint -> *SubnetConfig as an association list, newest binding first.  A binding to None is the explicit
   nil entry RemoveGeneration leaves behind: the key stays present (IsTakenGeneration is true for it), but
   GetSubnetsByGeneration returns nil and Select fails. *)
Definition entry := option config.
Definition selector := list (N * entry).

Fixpoint sget (s : selector) (g : N) : option entry :=
  match s with
  | [] => None
  | (k, v) :: r => if k =? g then Some v else sget r g
  end.
Definition sset (s : selector) (g : N) (v : entry) : selector := (g, v) :: s.

(* GetSubnetsByGeneration *)
Definition lookup (s : selector) (g : N) : option config :=
  match sget s g with Some (Some c) => Some c | _ => None end.
(* IsTakenGeneration *)
Definition is_taken (s : selector) (g : N) : bool :=
  match sget s g with Some _ => true | None => false end.

(* Go's uint is 64 bits wide here *)
Definition uint_mod : N := 2 ^ 64.
Definition to_uint (z : Z) : N := Z.to_N (z mod Z.of_N uint_mod).

(* newGenerationIndex: the largest key + 1 (wrapping like Go's uint) *)
Definition max_key (s : selector) : N := fold_right (fun kv m => N.max (fst kv) m) 0 s.
Definition new_index (s : selector) : N := (max_key s + 1) mod uint_mod.

(* AddGeneration(gen int, subnets): -1 or a taken index -> the next free one; returns the index used *)
Definition add_generation (s : selector) (gen : Z) (v : entry) : selector * N :=
  let u := to_uint gen in
  let u' := if (gen =? -1)%Z || is_taken s u then new_index s else u in
  (sset s u' v, u').
Definition update_generation (s : selector) (g : N) (v : entry) : selector := sset s g v.
Definition remove_generation (s : selector) (g : N) : selector := sset s g None.

(* PhantomIPSelector.Select *)
Definition sel_select (s : selector) (seed : bytes) (g : N) (lv : N) (f : family) : sres phantom :=
  select seed (lookup s g) lv f.

(* ---------- the subnet file ---------- *)
(* what go-toml hands to the loop of SubnetsFromTomlFile: the Networks table, each key already through
   strconv.Atoi, in the order Go's map iteration happens to produce *)
Definition file := list (Z * config).

Definition from_file (f : file) : selector :=
  fold_left (fun s kc => fst (add_generation s (fst kc) (Some (snd kc)))) f [].

(* what the file says about generation g *)
Fixpoint file_lookup (f : file) (g : N) : option config :=
  match f with
  | [] => None
  | (k, c) :: r => if (k =? Z.of_N g)%Z then Some c else file_lookup r g
  end.

(* generation keys as an operator writes them: distinct non-negative numbers (Atoi yields an int) *)
Definition key_ok (k : Z) : Prop := (0 <= k < 2 ^ 63)%Z.
Definition wellkeyed (f : file) : Prop := NoDup (map fst f) /\ Forall key_ok (map fst f).
Definition key_okb (k : Z) : bool := ((0 <=? k) && (k <? 2 ^ 63))%Z.
Fixpoint nodup_keysb (l : list Z) : bool :=
  match l with
  | [] => true
  | k :: r => negb (existsb (Z.eqb k) r) && nodup_keysb r
  end.
Definition wellkeyedb (f : file) : bool := nodup_keysb (map fst f) && forallb key_okb (map fst f).

(* ---------- the station / the registrar over its lifetime ---------- *)
(* EReload r: OnReload / ReloadSubnets ran; r is what loading the file gave (None: the load failed: missing file,
   malformed TOML, a generation key that is not a number).  ESelect: one selection through the held selector. *)
Inductive event :=
| EReload (r : option file)
| ESelect (seed : bytes) (g : N) (lv : N) (f : family).

Section Station.
  (* how a reload changes the held selector *)
  Variable reload : selector -> option file -> selector.

  Definition lstep (held : selector) (e : event) : selector * option (sres phantom) :=
    match e with
    | EReload r => (reload held r, None)
    | ESelect seed g lv f => (held, Some (sel_select held seed g lv f))
    end.

  (* one output per event (None for a reload), and the selector held afterwards *)
  Fixpoint lrun (held : selector) (evs : list event) : list (option (sres phantom)) * selector :=
    match evs with
    | [] => ([], held)
    | e :: r => let '(h1, o) := lstep held e in
                let '(os, h2) := lrun h1 r in (o :: os, h2)
    end.
End Station.

(* the code: the freshly loaded selector replaces the held one; a failed load changes nothing *)
Definition reload_replace (held : selector) (r : option file) : selector :=
  match r with Some f => from_file f | None => held end.
Definition station_run := lrun reload_replace.

(* a variant the property rules out: the loaded generations are copied INTO the held selector
   (UpdateGeneration per generation of the new file); generations the new file dropped stay *)
Definition reload_merge (held : selector) (r : option file) : selector :=
  match r with
  | Some f => fold_right (fun kv s => update_generation s (fst kv) (snd kv)) held (from_file f)
  | None => held
  end.
Definition merge_run := lrun reload_merge.

(* the configuration in force after a history that started with file f0 *)
Fixpoint in_force (f0 : file) (evs : list event) : file :=
  match evs with
  | [] => f0
  | EReload (Some f) :: r => in_force f r
  | _ :: r => in_force f0 r
  end.

Definition loads_wellkeyed (evs : list event) : Prop :=
  forall f, In (EReload (Some f)) evs -> wellkeyed f.

(* ---------- histories over the selector's exported API ---------- *)
Inductive aop :=
| AAdd (gen : Z) (v : entry)
| AUpdate (g : N) (v : entry)
| ARemove (g : N)
| ASelect (seed : bytes) (g : N) (lv : N) (f : family).

Inductive aout := OIdx (u : N) | ODone | OSel (r : sres phantom).

Definition astep (s : selector) (o : aop) : selector * aout :=
  match o with
  | AAdd gen v => let '(s', u) := add_generation s gen v in (s', OIdx u)
  | AUpdate g v => (update_generation s g v, ODone)
  | ARemove g => (remove_generation s g, ODone)
  | ASelect seed g lv f => (s, OSel (sel_select s seed g lv f))
  end.
Fixpoint arun (s : selector) (ops : list aop) : list aout * selector :=
  match ops with
  | [] => ([], s)
  | o :: r => let '(s1, x) := astep s o in
              let '(xs, s2) := arun s1 r in (x :: xs, s2)
  end.

(* the specification: what generation g is configured with after a history of Update / Remove calls *)
Fixpoint gen_view (init : option config) (g : N) (ops : list aop) : option config :=
  match ops with
  | [] => init
  | AUpdate g' v :: r => gen_view (if g' =? g then v else init) g r
  | ARemove g' :: r => gen_view (if g' =? g then None else init) g r
  | _ :: r => gen_view init g r
  end.
Fixpoint no_add (ops : list aop) : Prop :=
  match ops with
  | [] => True
  | AAdd _ _ :: _ => False
  | _ :: r => no_add r
  end.

(* ---------- reload while selections are in flight ---------- *)
(* The held selector is a POINTER to an object on the heap.  A selection first fetches the pointer
   (GetPhantomSelector under the read lock) and later reads the object (Select); reloads run in between.
   heap: the objects allocated so far (index = address); inplace = false is the code (a reload allocates a new
   object and swaps the pointer), inplace = true the variant that writes into the live object. *)
Record cstate := { heap : list selector; ptr : nat; fetched : list (nat * nat) (* thread -> pointer *) }.

Inductive cev :=
| CReload (r : option file)
| CFetch (t : nat)                                         (* thread t: GetPhantomSelector *)
| CSelect (t : nat) (seed : bytes) (g : N) (lv : N) (f : family).   (* thread t: Select on what it fetched *)

Fixpoint set_nth {A} (l : list A) (n : nat) (x : A) : list A :=
  match l, n with
  | [], _ => []
  | _ :: r, O => x :: r
  | y :: r, S m => y :: set_nth r m x
  end.
Fixpoint tget (l : list (nat * nat)) (t : nat) : option nat :=
  match l with
  | [] => None
  | (k, v) :: r => if Nat.eqb k t then Some v else tget r t
  end.
Definition obj (c : cstate) (p : nat) : selector := nth p (heap c) [].

Definition cstep (inplace : bool) (c : cstate) (e : cev) : cstate * option (sres phantom) :=
  match e with
  | CReload None => (c, None)
  | CReload (Some f) =>
    if inplace then
      ({| heap := set_nth (heap c) (ptr c) (reload_merge (obj c (ptr c)) (Some f)); ptr := ptr c; fetched := fetched c |}, None)
    else
      ({| heap := heap c ++ [from_file f]; ptr := length (heap c); fetched := fetched c |}, None)
  | CFetch t => ({| heap := heap c; ptr := ptr c; fetched := (t, ptr c) :: fetched c |}, None)
  | CSelect t seed g lv f =>
    match tget (fetched c) t with
    | Some p => (c, Some (sel_select (obj c p) seed g lv f))
    | None => (c, None)                       (* no selector fetched: not a run of the code *)
    end
  end.
Fixpoint crun (inplace : bool) (c : cstate) (evs : list cev) : list (option (sres phantom)) * cstate :=
  match evs with
  | [] => ([], c)
  | e :: r => let '(c1, o) := cstep inplace c e in
              let '(os, c2) := crun inplace c1 r in (o :: os, c2)
  end.
Definition cinit (f0 : file) : cstate := {| heap := [from_file f0]; ptr := 0; fetched := [] |}.

(* the configuration in force when thread t last fetched the selector, in a history that started with f0 *)
Fixpoint force_at_fetch (cur : file) (at_fetch : option file) (t : nat) (evs : list cev) : option file :=
  match evs with
  | [] => at_fetch
  | CReload (Some f) :: r => force_at_fetch f at_fetch t r
  | CFetch t' :: r => force_at_fetch cur (if Nat.eqb t' t then Some cur else at_fetch) t r
  | _ :: r => force_at_fetch cur at_fetch t r
  end.
