(* C14 non-vacuity: concrete inputs meeting the hypotheses of each theorem, and
   the sensitivity of the concurrency model (the code before the fix IS racy in it). *)
From CJ Require Import Common.Base C14.Model C14.ConcModel C14.Main C14.SurjProofs.

Definition ex_cfg : config :=
  [ {| weight := 9; nets := Some [Some (mk_cidr V4 3229269504 24); Some (mk_cidr V6 (42540765935913617771317959390390124544) 64)]; rand_port := true |};
    {| weight := 1; nets := Some [Some (mk_cidr V4 2379939840 16); Some (mk_cidr V4 587202560 16)]; rand_port := false |} ].
Definition ex_seed : bytes := unhex "05a1b2c3d4e5f60718293a4b5c6d7e8f".

(* every library version selects successfully here: the hypotheses of
   select_contained / select_wellformed are satisfiable on every path *)
Example ex_select_ok :
  (exists p, select ex_seed (Some ex_cfg) 0 V4 = Ok p) /\
  (exists p, select ex_seed (Some ex_cfg) 1 V4 = Ok p) /\
  (exists p, select ex_seed (Some ex_cfg) 2 V4 = Ok p) /\
  (exists p, select ex_seed (Some ex_cfg) 4 V6 = Ok p) /\
  (exists p, select_phantom ex_seed ex_cfg None false = Ok p).
Proof. vm_compute. repeat split; eexists; reflexivity. Qed.

(* a network that starts with a zero byte yields four bytes (finding fixed in /repo f60939c) *)
Definition ex_lz : config := [ {| weight := 1; nets := Some [Some (mk_cidr V4 66048 24)]; rand_port := true |} ].
Example ex_leading_zero :
  match select ex_seed (Some ex_lz) 2 V4 with Ok p => blen (p_bytes p) | _ => 0 end = 4 /\
  match select ex_seed (Some ex_lz) 1 V4 with Ok p => blen (p_bytes p) | _ => 0 end = 4.
Proof. vm_compute. split; reflexivity. Qed.

(* zero total weight is an error, not a panic (finding fixed in /repo a22126f) *)
Definition ex_zero : config := [ {| weight := 0; nets := Some [Some (mk_cidr V4 167772160 8)]; rand_port := false |} ].
Example ex_zero_weight :
  select ex_seed (Some ex_zero) 2 V4 = Err ENoWeight /\ select ex_seed (Some ex_zero) 1 V4 = Err EChooser /\
  select_phantom ex_seed [] None true = Err ENoWeight.
Proof. vm_compute. repeat split. Qed.

(* offset surjectivity: hypotheses are satisfiable *)
Example ex_surj_hyp :
  wf_cidr (mk_cidr V4 3229269504 24) /\ v4mapped (mk_cidr V4 3229269504 24) = false /\
  contains (mk_cidr V4 3229269504 24) V4 3229269700.
Proof. vm_compute. repeat split; (reflexivity || discriminate). Qed.

(* ---- concurrency ---- *)
Definition ex_seed2 : bytes := unhex "0777777777777777777777777777aaaa".
Definition ex_net8 : config := [ {| weight := 1; nets := Some [Some (mk_cidr V4 167772160 8)]; rand_port := false |} ].
Definition ex_calls : list (rnd alfg * sel_args) :=
  [ (go_rand_new 0, (ex_seed, Some ex_net8, 1, V4)); (go_rand_new 0, (ex_seed2, Some ex_net8, 1, V4)) ].
(* thread 0: Seed, Intn, Seed | thread 1: Seed | thread 0: Read *)
Definition ex_sched : list nat := [0; 0; 0; 1; 0]%nat.

(* the current code: thread 0 has finished under this schedule, with the serial value *)
Example ex_current_code_unaffected :
  result_of (run alfg_seed alfg_int63 (conc_init false (go_rand_new 7) ex_calls) ex_sched) 0
  = Some (select ex_seed (Some ex_net8) 1 V4).
Proof. vm_compute. reflexivity. Qed.

(* the code before /repo 77e5dfb (shared generator): the same schedule makes
   thread 0 read from the generator thread 1 has just re-seeded, and its result
   is not the serial one.  This is the candidate `Seed a; Seed b; Read`. *)
Example ex_old_code_racy :
  exists r, result_of (run alfg_seed alfg_int63 (conc_init true (go_rand_new 7) ex_calls) ex_sched) 0 = Some r /\
            r <> select ex_seed (Some ex_net8) 1 V4.
Proof. eexists. split; [vm_compute; reflexivity|vm_compute; discriminate]. Qed.
