(* C14 non-vacuity: concrete inputs meeting the hypotheses of each theorem, and
   the sensitivity of the concurrency model (the code before the fix IS racy in it). *)
From CJ Require Import Common.Base C14.Model C14.ConcModel C14.Main C14.SurjProofs C14.LifeModel C14.LifeProofs.

Definition ex_cfg : config :=
  [ {| weight := 9; nets := Some [Some (mk_cidr V4 3229269504 24); Some (mk_cidr V6 (42540765935913617771317959390390124544) 64)]; rand_port := true |};
    {| weight := 1; nets := Some [Some (mk_cidr V4 2379939840 16); Some (mk_cidr V4 587202560 16)]; rand_port := false |} ].
Definition ex_seed : bytes := unhex "05a1b2c3d4e5f60718293a4b5c6d7e8f".

(* every library version selects successfully here: the hypotheses of
   select_contained / select_wellformed are satisfiable on every path *)
Example ex_select_ok :
  (exists p, select ex_seed (Some ex_cfg) 0 V4 = Ok p) /\
  (exists p, select ex_seed (Some ex_cfg) 1 V4 = Ok p) /\
  (exists p, select ex_seed (Some ex_cfg) 2 V4 = Ok p) /\
  (exists p, select ex_seed (Some ex_cfg) 4 V6 = Ok p) /\
  (exists p, select_phantom ex_seed ex_cfg None false = Ok p).
Proof. vm_compute. repeat split; eexists; reflexivity. Qed.

(* a network that starts with a zero byte yields four bytes (finding fixed in /repo f60939c) *)
Definition ex_lz : config := [ {| weight := 1; nets := Some [Some (mk_cidr V4 66048 24)]; rand_port := true |} ].
Example ex_leading_zero :
  match select ex_seed (Some ex_lz) 2 V4 with Ok p => blen (p_bytes p) | _ => 0 end = 4 /\
  match select ex_seed (Some ex_lz) 1 V4 with Ok p => blen (p_bytes p) | _ => 0 end = 4.
Proof. vm_compute. split; reflexivity. Qed.

(* zero total weight is an error, not a panic (finding fixed in /repo a22126f) *)
Definition ex_zero : config := [ {| weight := 0; nets := Some [Some (mk_cidr V4 167772160 8)]; rand_port := false |} ].
Example ex_zero_weight :
  select ex_seed (Some ex_zero) 2 V4 = Err ENoWeight /\ select ex_seed (Some ex_zero) 1 V4 = Err EChooser /\
  select_phantom ex_seed [] None true = Err ENoWeight.
Proof. vm_compute. repeat split. Qed.

(* offset surjectivity: hypotheses are satisfiable *)
Example ex_surj_hyp :
  wf_cidr (mk_cidr V4 3229269504 24) /\ v4mapped (mk_cidr V4 3229269504 24) = false /\
  contains (mk_cidr V4 3229269504 24) V4 3229269700.
Proof. vm_compute. repeat split; (reflexivity || discriminate). Qed.

(* ---- concurrency ---- *)
Definition ex_seed2 : bytes := unhex "0777777777777777777777777777aaaa".
Definition ex_net8 : config := [ {| weight := 1; nets := Some [Some (mk_cidr V4 167772160 8)]; rand_port := false |} ].
Definition ex_calls : list (rnd alfg * sel_args) :=
  [ (go_rand_new 0, (ex_seed, Some ex_net8, 1, V4)); (go_rand_new 0, (ex_seed2, Some ex_net8, 1, V4)) ].
(* thread 0: Seed, Intn, Seed | thread 1: Seed | thread 0: Read *)
Definition ex_sched : list nat := [0; 0; 0; 1; 0]%nat.

(* the current code: thread 0 has finished under this schedule, with the serial value *)
Example ex_current_code_unaffected :
  result_of (run alfg_seed alfg_int63 (conc_init false (go_rand_new 7) ex_calls) ex_sched) 0
  = Some (select ex_seed (Some ex_net8) 1 V4).
Proof. vm_compute. reflexivity. Qed.

(* the code before /repo 77e5dfb (shared generator): the same schedule makes
   thread 0 read from the generator thread 1 has just re-seeded, and its result
   is not the serial one.  This is the candidate `Seed a; Seed b; Read`. *)
Example ex_old_code_racy :
  exists r, result_of (run alfg_seed alfg_int63 (conc_init true (go_rand_new 7) ex_calls) ex_sched) 0 = Some r /\
            r <> select ex_seed (Some ex_net8) 1 V4.
Proof. eexists. split; [vm_compute; reflexivity|vm_compute; discriminate]. Qed.

(* ---- the selector over the station's lifetime ---- *)
(* the station starts with generations {1, 2}; the operator retires generation 2 and moves generation 1 *)
Definition ex_f0 : file := [ (1%Z, ex_cfg); (2%Z, ex_net8) ].
Definition ex_f1 : file := [ (1%Z, ex_lz) ].
Definition ex_f2 : file := [ (3%Z, ex_cfg); (1%Z, ex_lz) ].

Example ex_files_wellkeyed : wellkeyed ex_f0 /\ wellkeyed ex_f1 /\ wellkeyed ex_f2.
Proof. repeat split; apply wellkeyedb_ok; vm_compute; reflexivity. Qed.

(* the hypotheses of C14_lifecycle_in_force are met by a history with a retired generation, a failed load and an
   added generation; selections succeed where the configuration in force has the generation and fail where not *)
Definition ex_history : list event :=
  [ ESelect ex_seed 2 2 V4; EReload (Some ex_f1); ESelect ex_seed 2 2 V4; ESelect ex_seed 1 2 V4;
    EReload None; ESelect ex_seed 1 1 V4; EReload (Some ex_f2); ESelect ex_seed 3 4 V6; ESelect ex_seed 2 0 V4 ].
Example ex_history_wellkeyed : loads_wellkeyed ex_history.
Proof.
  intros f Hin. cbn in Hin.
  repeat (destruct Hin as [Hin|Hin]; [try discriminate; inversion Hin; subst; apply wellkeyedb_ok; vm_compute; reflexivity|]).
  contradiction.
Qed.
Example ex_history_results :
  match fst (station_run (from_file ex_f0) ex_history) with
  | [Some (Ok _); None; Some (Err EGeneration); Some (Ok _); None; Some (Ok _); None; Some (Ok _); Some (Err EGeneration)] => True
  | _ => False
  end.
Proof. vm_compute. exact I. Qed.
Example ex_in_force : in_force ex_f0 ex_history = ex_f2.
Proof. reflexivity. Qed.

(* REFUTED VARIANT: a reload that copies the new file's generations INTO the held selector (UpdateGeneration per
   generation) keeps serving the retired generation 2 -- from 10.0.0.0/8, which no generation of the
   configuration in force contains -- where the code answers "generation number not recognized" *)
Example ex_merge_reload_serves_retired_generation :
  exists p, nth_error (fst (merge_run (from_file ex_f0) [EReload (Some ex_f1); ESelect ex_seed 2 2 V4])) 1 = Some (Some (Ok p)) /\
            file_lookup (in_force ex_f0 [EReload (Some ex_f1)]) 2 = None /\
            nth_error (fst (station_run (from_file ex_f0) [EReload (Some ex_f1); ESelect ex_seed 2 2 V4])) 1
            = Some (Some (Err EGeneration)).
Proof. eexists. split; [vm_compute; reflexivity|split; reflexivity]. Qed.

(* the same with selections in flight: writing the reloaded generations into the live object (inplace = true)
   lets a selection that fetched the selector AFTER the reload still be served from the retired generation *)
Example ex_inplace_reload_serves_retired_generation :
  exists p, nth_error (fst (crun true (cinit ex_f0) [CReload (Some ex_f1); CFetch 0; CSelect 0 ex_seed 2 2 V4])) 2 = Some (Some (Ok p)) /\
            force_at_fetch ex_f0 None 0 [CReload (Some ex_f1); CFetch 0] = Some ex_f1 /\ file_lookup ex_f1 2 = None.
Proof. eexists. split; [vm_compute; reflexivity|split; reflexivity]. Qed.
(* ... and changes, under its feet, what a selection sees that fetched the selector BEFORE the reload *)
Example ex_inplace_reload_changes_fetched_selector :
  nth_error (fst (crun true (cinit ex_f0) [CFetch 0; CReload (Some ex_f1); CSelect 0 ex_seed 1 2 V4])) 2
  <> nth_error (fst (crun false (cinit ex_f0) [CFetch 0; CReload (Some ex_f1); CSelect 0 ex_seed 1 2 V4])) 2.
Proof. vm_compute. discriminate. Qed.

(* why C14_load_gives_file asks for distinct keys: two keys that Atoi maps to the same number (`1` and `01`) are
   loaded as generations 1 and 2 in whichever order the map iteration yields them *)
Example ex_colliding_keys_depend_on_order :
  lookup (from_file [ (1%Z, ex_cfg); (1%Z, ex_lz) ]) 1 = Some ex_cfg /\
  lookup (from_file [ (1%Z, ex_lz); (1%Z, ex_cfg) ]) 1 = Some ex_lz /\
  lookup (from_file [ (1%Z, ex_lz); (1%Z, ex_cfg) ]) 2 = Some ex_cfg.
Proof. vm_compute. repeat split. Qed.

(* the API: AddGeneration on a taken index (also one that RemoveGeneration left as a nil entry) goes to the next
   free index; the hypothesis of C14_api_add_keeps_others holds *)
Example ex_api_add :
  let s := remove_generation (from_file ex_f0) 2 in
  snd (add_generation s 2 (Some ex_lz)) = 3 /\ snd (add_generation s (-1) (Some ex_lz)) = 3 /\
  snd (add_generation s 7 (Some ex_lz)) = 7 /\ max_key s + 1 < uint_mod /\
  lookup (fst (add_generation s 2 (Some ex_lz))) 2 = None /\ lookup (fst (add_generation s 2 (Some ex_lz))) 1 = Some ex_cfg.
Proof. vm_compute. repeat split. Qed.
Example ex_api_history :
  match fst (arun (from_file ex_f0) [ASelect ex_seed 2 2 V4; ARemove 2; ASelect ex_seed 2 2 V4; AUpdate 2 (Some ex_cfg); ASelect ex_seed 2 2 V4]) with
  | [OSel (Ok a); ODone; OSel (Err EGeneration); ODone; OSel (Ok b)] => p_bytes a <> p_bytes b
  | _ => False
  end.
Proof. vm_compute. discriminate. Qed.
