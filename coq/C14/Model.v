(* C14 model: phantom selection (pkg/phantoms: phantom_selector.go, compat.go,
   phantoms.go, station_phantoms.go).  Definitions only; executable.

   The selectors are defined in a Section over
     hm        the keyed PRF behind the HKDF readers (HMAC-SHA256 in the code),
     src/...   the math/rand Source used by the legacy (libver 0/1) paths,
     sorter    the order sort.Slice leaves the weighted groups in
   and instantiated with the concrete functions at the end of the file. *)
From CJ Require Export Common.Base C14.Sha256 C14.Hkdf C14.CryptoRand C14.IPNet C14.MathRand.

(* ---------- configuration ---------- *)
(* one pb.PhantomSubnets: nets = None is a nil Subnets slice; an element None is
   a string net.ParseCIDR rejects *)
Record group := { weight : N; nets : option (list (option cidr)); rand_port : bool }.
Definition config := list group.           (* SubnetConfig.WeightedSubnets *)

(* the parsable networks of a group *)
Definition group_cidrs (g : group) : list cidr :=
  match nets g with
  | None => []
  | Some l => flat_map (fun o => match o with Some c => [c] | None => [] end) l
  end.

Record phantom := { p_bytes : bytes; p_rand_port : bool }.

Inductive sel_err :=
| EGeneration        (* generation number not recognized *)
| EParse             (* parseSubnets: no subnets / bad CIDR *)
| ENoWeight          (* no group with positive weight *)
| EEntropy           (* HKDF reader exhausted *)
| ENoAddrs           (* address total <= 0 *)
| EOffset            (* offset too big for subnet / address does not fit *)
| ENilResult         (* "nil result should not be possible" / legacy V0 selection bug *)
| EVarint            (* binary.Varint returned n = 0 *)
| EChooser           (* weightedrand.NewChooser error *)
| EFuel.             (* model fuel exhausted; Go would still be looping *)

Definition sres := result sel_err.

(* phantomNet: parsed network + supportRandomPort of its group *)
Definition pnet := (cidr * bool)%type.

(* parseSubnets *)
Fixpoint parse_list (l : list (option cidr)) (rp : bool) : option (list pnet) :=
  match l with
  | [] => Some []
  | None :: _ => None
  | Some c :: r => match parse_list r rp with Some t => Some ((c, rp) :: t) | None => None end
  end.
Definition parse_subnets (g : group) : sres (list pnet) :=
  match nets g with
  | None | Some [] => Err EParse
  | Some l => match parse_list l (rand_port g) with Some t => Ok t | None => Err EParse end
  end.

(* V4Only / V6Only *)
Definition filter_family (f : family) (l : list pnet) : list pnet :=
  filter (fun p => family_eqb (eff_fam (fst p)) f) l.

(* sort.Slice(choices, weight <): insertion sort (what Go runs for <= 12 elements) *)
Fixpoint ins_group (x : group) (l : list group) : list group :=
  match l with
  | [] => [x]
  | y :: r => if weight x <? weight y then x :: y :: r else y :: ins_group x r
  end.
Definition isort_groups (l : list group) : list group := fold_left (fun acc x => ins_group x acc) l [].

(* binary.Uvarint / binary.Varint: (value, n) with n = 0 "buffer too small", n < 0 overflow *)
Fixpoint uvarint_aux (buf : bytes) (i : nat) (x s : N) : N * Z :=
  match buf with
  | [] => (0, 0%Z)
  | b :: r =>
    if Nat.eqb i 10 then (0, (- Z.of_nat (S i))%Z)
    else if b <? 128 then
      (if Nat.eqb i 9 && (1 <? b) then (0, (- Z.of_nat (S i))%Z)
       else (N.lor x (N.shiftl b s), Z.of_nat (S i)))
    else uvarint_aux r (S i) (N.lor x (N.shiftl (N.land b 127) s)) (s + 7)
  end.
Definition uvarint (buf : bytes) : N * Z := uvarint_aux buf 0 0 0.
Definition varint (buf : bytes) : Z * Z :=
  let '(ux, n) := uvarint buf in
  let x := Z.of_N (N.shiftr ux 1) in
  (if N.odd ux then (- x - 1)%Z else x, n).

(* the id ranges [min, max] the Hkdf and Varint selectors build *)
Fixpoint id_nets (l : list pnet) (total : N) : list (N * N * pnet) * N :=
  match l with
  | [] => ([], total)
  | p :: r =>
    let t' := total + sel_count (fst p) in
    let '(rest, tot) := id_nets r t' in
    ((total, t' - 1, p) :: rest, tot)
  end.

(* the legacy V0 variant: the running total loses one per network *)
Fixpoint id_nets_v0 (l : list pnet) (total : N) : list (N * N * pnet) * N :=
  match l with
  | [] => ([], total)
  | p :: r =>
    let t' := total + sel_count (fst p) - 1 in
    let '(rest, tot) := id_nets_v0 r t' in
    ((total, t', p) :: rest, tot)
  end.

(* address bytes of the result: the network number plus the offset, written
   into as many bytes as the network number has (4 resp. 16) *)
Definition addr_len (c : cidr) : N := bits (eff_fam c) / 8.
(* a 16-byte value inside ::ffff:0:0/96 is what net.IP treats as an IPv4 address
   (IP.To4() != nil); the selectors refuse to return it for an IPv6 network *)
Definition addr_bytes (c : cidr) (a : N) : sres bytes :=
  if N.size a <=? 8 * addr_len c then
    if (addr_len c =? 16) && (a / 2 ^ 32 =? 65535) then Err EOffset
    else Ok (N_to_be (addr_len c) a)
  else Err EOffset.

(* IP.To4() != nil on a result *)
Definition ip_is4 (b : bytes) : bool :=
  (blen b =? 4) || ((blen b =? 16) && (be_to_N b / 2 ^ 32 =? 65535)).

(* selectAddrFromSubnetOffset *)
Definition addr_from_offset (p : pnet) (off : N) : sres phantom :=
  let c := fst p in
  if net_size c <=? off then Err EOffset
  else match addr_bytes c (eff_base c + off) with
       | Ok b => Ok {| p_bytes := b; p_rand_port := snd p |}
       | Err e => Err e
       | Panic => Panic
       end.

Definition info_subnet : bytes := unhex "7068616e746f6d2d73656c6563742d7375626e6574".   (* "phantom-select-subnet" *)
Definition info_addr_id : bytes := unhex "7068616e746f6d2d616464722d6964".               (* "phantom-addr-id" *)

Section Selectors.
  Variable hm : bytes -> bytes -> bytes.
  Variable src : Type.
  Variable src_seed : Z -> src.
  Variable src_int63 : src -> N * src.
  Variable sorter : list group -> list group.

  Definition hk_rand_int (seed info : bytes) (max : Z) : rand_res hkdf_reader :=
    rand_int (hkdf_read hm) rand_fuel (hkdf_new hm seed None info) max.

  (* "decrement rnd by each weight until it is < 0" *)
  Fixpoint walk_weights (l : list group) (rnd : Z) : option group :=
    match l with
    | [] => None
    | g :: r => let rnd' := (rnd - Z.of_N (weight g))%Z in
                if (rnd' <? 0)%Z then Some g else walk_weights r rnd'
    end.

  (* the unweighted tail of getSubnetsHkdf / getSubnetsVarint *)
  Fixpoint concat_parse (l : list group) : sres (list pnet) :=
    match l with
    | [] => Ok []
    | g :: r =>
      match parse_subnets g with
      | Ok a => match concat_parse r with Ok b => Ok (a ++ b) | e => e end
      | Err e => Err e
      | Panic => Panic
      end
    end.

  (* getSubnetsHkdf *)
  Definition get_subnets_hkdf (cfg : config) (seed : bytes) (weighted : bool) : sres (list pnet) :=
    if weighted then
      let choices := filter (fun g => match nets g with None => false | Some _ => true end) cfg in
      let tot := fold_left (fun a g => a + weight g) choices 0 in
      if tot =? 0 then Err ENoWeight
      else
        match hk_rand_int seed info_subnet (Z.of_N tot) with
        | RPanic => Panic
        | RErr => Err EEntropy
        | RFuel => Err EFuel
        | ROk rnd _ =>
          match walk_weights (sorter choices) (Z.of_N rnd) with
          | Some g => parse_subnets g
          | None => concat_parse cfg
          end
        end
    else concat_parse cfg.

  (* the match loop shared by the three selectors: every range containing id
     (as decided by `hit min max`) overwrites the result; an error aborts *)
  Fixpoint match_loop (hit : N -> N -> bool) (pick : N -> pnet -> sres phantom)
           (l : list (N * N * pnet)) (acc : option phantom) : sres (option phantom) :=
    match l with
    | [] => Ok acc
    | (mn, mx, p) :: r =>
      if hit mn mx then
        match pick mn p with
        | Ok ph => match_loop hit pick r (Some ph)
        | Err e => Err e
        | Panic => Panic
        end
      else match_loop hit pick r acc
    end.

  Definition finish_loop (r : sres (option phantom)) : sres phantom :=
    match r with
    | Ok (Some ph) => Ok ph
    | Ok None => Err ENilResult
    | Err e => Err e
    | Panic => Panic
    end.

  (* the part of selectPhantomImplHkdf after the id has been drawn: the network
     whose id range contains id, at offset id - min *)
  Definition locate_hkdf (idn : list (N * N * pnet)) (id : N) : sres phantom :=
    finish_loop (match_loop (fun mn mx => (id <=? mx) && (mn <=? id))
                            (fun mn p => addr_from_offset p (id - mn)) idn None).

  (* selectPhantomImplHkdf *)
  Definition select_impl_hkdf (seed : bytes) (subnets : list pnet) : sres phantom :=
    let '(idn, total) := id_nets subnets 0 in
    if total =? 0 then Err ENoAddrs
    else
      match hk_rand_int seed info_addr_id (Z.of_N total) with
      | RPanic => Panic
      | RErr => Err EEntropy
      | RFuel => Err EFuel
      | ROk id _ => locate_hkdf idn id
      end.

  (* ---- legacy paths (client library versions 0 and 1) ---- *)

  (* weightedrand.NewChooser + PickSource: cumulative totals over the sorted
     choices, r = Intn(max) + 1, first index whose total is >= r *)
  Fixpoint search_totals (l : list group) (run r : N) : option group :=
    match l with
    | [] => None
    | g :: t => let run' := run + weight g in
                if r <=? run' then Some g else search_totals t run' r
    end.

  (* getSubnetsVarint (weighted = true is the only caller) *)
  Definition get_subnets_varint (cfg : config) (seed : bytes) : sres (list pnet) :=
    let '(sv, n) := varint seed in
    if (n =? 0)%Z then Err EVarint
    else
      let r := rnd_new (src_seed sv) in
      (* groups without subnets are left out of the choice, as in the old clients *)
      let sorted := sorter (filter (fun g => match nets g with None => false | Some _ => true end) cfg) in
      let tot := fold_left (fun a g => a + weight g) sorted 0 in
      if tot <? 1 then Err EChooser
      else
        match rnd_intn src_int63 intn_fuel r (Z.of_N tot) with
        | IntnPanic => Panic
        | IntnFuel => Err EFuel
        | IntnOk v _ =>
          match search_totals sorted 0 (v + 1) with
          | Some g => parse_subnets g
          | None => Panic                  (* index out of range in c.data[i] *)
          end
        end.

  (* SelectAddrFromSubnet *)
  Definition select_addr_from_subnet (seed : bytes) (p : pnet) : sres phantom :=
    let c := fst p in
    let '(sv, n) := varint seed in
    if (n =? 0)%Z then Err EVarint
    else
      let alen := bits (fam c) in                       (* Mask.Size(): addrLen *)
      let '(rb, _) := rnd_read src_int63 (rnd_new (src_seed sv)) (alen / 8) in
      let mask := N.shiftr (2 ^ alen - 1) (ones c) in
      match addr_bytes c (eff_base c + N.land (be_to_N rb) mask) with
      | Ok b => Ok {| p_bytes := b; p_rand_port := snd p |}
      | Err e => Err e
      | Panic => Panic
      end.

  (* selectPhantomImplVarint (client library version 1) *)
  Definition select_impl_varint (seed : bytes) (subnets : list pnet) : sres phantom :=
    let '(idn, total) := id_nets subnets 0 in
    if total =? 0 then Err ENoAddrs
    else
      let id0 := be_to_N seed in
      let id := if total <=? id0 then id0 mod total else id0 in
      finish_loop (match_loop (fun mn mx => (id <=? mx) && (mn <=? id))
                              (fun _ p => select_addr_from_subnet seed p) idn None).

  (* selectPhantomImplV0 (client library version 0) *)
  Definition select_impl_v0 (seed : bytes) (subnets : list pnet) : sres phantom :=
    let '(idn, total) := id_nets_v0 subnets 0 in
    if total =? 0 then Err ENoAddrs
    else
      let id0 := be_to_N seed in
      let id := if total <? id0 then id0 mod total else id0 in
      finish_loop (match_loop (fun mn mx => (id <=? mx) && (mn <? id))
                              (fun _ p => select_addr_from_subnet seed p) idn None).

  (* PhantomIPSelector.Select; cfg = None: the generation is not configured *)
  Definition select_gen (seed : bytes) (cfg : option config) (lv : N) (f : family) : sres phantom :=
    match cfg with
    | None => Err EGeneration
    | Some cfg =>
      match (if lv <? 2 then get_subnets_varint cfg seed else get_subnets_hkdf cfg seed true) with
      | Ok subnets =>
        let fs := filter_family f subnets in
        if lv <? 1 then select_impl_v0 seed fs
        else if lv <? 2 then select_impl_varint seed fs
        else select_impl_hkdf seed fs
      | Err e => Err e
      | Panic => Panic
      end
    end.

  (* phantoms.SelectPhantom(seed, list, transform, weighted); transform = None is
     a nil filter; a nil list behaves as the empty one *)
  Definition select_phantom_gen (seed : bytes) (cfg : config) (tr : option family) (weighted : bool) : sres phantom :=
    match get_subnets_hkdf cfg seed weighted with
    | Ok subnets =>
      select_impl_hkdf seed (match tr with Some f => filter_family f subnets | None => subnets end)
    | Err e => Err e
    | Panic => Panic
    end.
End Selectors.

(* ---------- the concrete instances ---------- *)
Definition select : bytes -> option config -> N -> family -> sres phantom :=
  select_gen hmac_sha256 alfg alfg_seed alfg_int63 isort_groups.
Definition select_phantom : bytes -> config -> option family -> bool -> sres phantom :=
  select_phantom_gen hmac_sha256 isort_groups.
