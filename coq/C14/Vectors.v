(* Known-answer tests for the concrete primitives, checked by the kernel
   (vm_compute) whenever the development is built. *)
From CJ Require Import Common.Base C14.Sha256 C14.Hkdf C14.CryptoRand C14.MathRand.

(* FIPS 180-4 / NIST example vectors *)
Lemma sha256_vectors :
  sha256 [] = unhex "e3b0c44298fc1c149afbf4c8996fb92427ae41e4649b934ca495991b7852b855" /\
  sha256 (unhex "616263") = unhex "ba7816bf8f01cfea414140de5dae2223b00361a396177a9cb410ff61f20015ad" /\
  sha256 (unhex "6162636462636465636465666465666765666768666768696768696a68696a6b696a6b6c6a6b6c6d6b6c6d6e6c6d6e6f6d6e6f706e6f7071")
    = unhex "248d6a61d20638b8e5c026930c3e6039a33ce45964ff2167f6ecedd419db06c1" /\
  (* 55, 56 and 64 bytes: the padding boundaries *)
  sha256 (repeat 97 55) = unhex "9f4390f8d30c2dd92ec9f095b65e2b9ae9b0a925a5258e241c9f1e910f734318" /\
  sha256 (repeat 97 56) = unhex "b35439a4ac6f0948b6d6f9e3c6af0f5f590ce20f1bde7090ef7970686ec6738a" /\
  sha256 (repeat 97 64) = unhex "ffe054fe7ae0cb6dc65c3af9b61d5209f439851db43d0ba5997337df154668eb".
Proof. vm_compute. repeat split. Qed.

(* RFC 4231 test cases 1, 2 and 6 (key longer than the block) *)
Lemma hmac_sha256_vectors :
  hmac_sha256 (repeat 11 20) (unhex "4869205468657265")
    = unhex "b0344c61d8db38535ca8afceaf0bf12b881dc200c9833da726e9376c2e32cff7" /\
  hmac_sha256 (unhex "4a656665") (unhex "7768617420646f2079612077616e7420666f72206e6f7468696e673f")
    = unhex "5bdcc146bf60754e6a042426089575c75a003f089d2739839dec58b964ec3843" /\
  hmac_sha256 (repeat 170 131) (unhex "54657374205573696e67204c6172676572205468616e20426c6f636b2d53697a65204b6579202d2048617368204b6579204669727374")
    = unhex "60e431591ee0b67f0d8a26aacbf5b77f8e0bc6213728c5140546040f0ee37f54".
Proof. vm_compute. repeat split. Qed.

(* RFC 5869 test cases 1 and 3; the reader's 8160-byte limit *)
Lemma hkdf_sha256_vectors :
  hkdf_sha256 (repeat 11 22) (Some (unhex "000102030405060708090a0b0c")) (unhex "f0f1f2f3f4f5f6f7f8f9") 42
    = Some (unhex "3cb25f25faacd57a90434f64d0362f2a2d2d0a90cf1a5a4c5db02d56ecc4c5bf34007208d5b887185865") /\
  hkdf_sha256 (repeat 11 22) None [] 42
    = Some (unhex "8da4e775a563c18f715f802a063c5a31b8a11f5c5ee1879ec3454e5f3c738d2d9d201395faa4b61a96c8") /\
  hkdf_sha256 [1; 2; 3] None [4] 8161 = None.
Proof. vm_compute. repeat split. Qed.

(* math/rand, Go 1.23: rand.New(rand.NewSource(s)) — first Int63 values, Read(16), Intn *)
Lemma mathrand_vectors :
  fst (rnd_int63 _ alfg_int63 (go_rand_new 1)) = 5577006791947779410 /\
  fst (rnd_int63 _ alfg_int63 (go_rand_new 0)) = 8717895732742165505 /\
  fst (rnd_int63 _ alfg_int63 (go_rand_new (-5))) = 1811683815564572222 /\
  fst (rnd_read alfg_int63 (go_rand_new 1234567890123) 16) = unhex "33196eb4d7b50bfcd0e4f74e4e0040b3" /\
  (match rnd_intn alfg_int63 intn_fuel (go_rand_new 1) 10 with IntnOk v _ => v | _ => 99 end) = 1.
Proof. vm_compute. repeat split. Qed.
