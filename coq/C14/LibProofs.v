(* Arithmetic facts about the shared libraries: big-endian conversions, masks,
   the rejection sampler.  No facts about SHA-256 are needed anywhere. *)
From CJ Require Import Common.Base C14.CryptoRand C14.IPNet.
From Coq Require Import Lia ZifyN ZifyNat ZifyBool.
Ltac Zify.zify_post_hook ::= Z.div_mod_to_equations.

Lemma land_le_r : forall a b, N.land a b <= b.
Proof.
  intros. apply N.ldiff_le. apply N.bits_inj. intro i.
  rewrite N.ldiff_spec, N.land_spec, N.bits_0.
  destruct (N.testbit a i), (N.testbit b i); reflexivity.
Qed.

Lemma land_le_l : forall a b, N.land a b <= a.
Proof. intros. rewrite N.land_comm. apply land_le_r. Qed.

(* ---- be_to_N / N_to_be ---- *)
Definition be_step (acc x : N) : N := acc * 256 + x.

Lemma be_fold_from : forall l a, fold_left be_step l a = a * 256 ^ N.of_nat (length l) + fold_left be_step l 0.
Proof.
  induction l as [|x l IH]; intros a.
  - cbn [fold_left length]. change (N.of_nat 0) with 0. rewrite N.pow_0_r. lia.
  - cbn [fold_left length]. rewrite (IH (be_step a x)), (IH (be_step 0 x)). unfold be_step.
    rewrite Nat2N.inj_succ, N.pow_succ_r'. lia.
Qed.

Lemma be_to_N_app : forall a b, be_to_N (a ++ b) = be_to_N a * 256 ^ N.of_nat (length b) + be_to_N b.
Proof.
  intros. unfold be_to_N. change (fun acc x : N => acc * 256 + x) with be_step.
  rewrite fold_left_app. apply be_fold_from.
Qed.

Lemma N_to_be_aux_acc : forall n v acc, N_to_be_aux n v acc = N_to_be_aux n v [] ++ acc.
Proof.
  induction n as [|n IH]; intros v acc.
  - reflexivity.
  - cbn [N_to_be_aux]. rewrite (IH _ (_ :: acc)), (IH _ (_ :: [])).
    rewrite <- app_assoc. reflexivity.
Qed.

Lemma N_to_be_aux_length : forall n v acc, length (N_to_be_aux n v acc) = (n + length acc)%nat.
Proof.
  induction n as [|n IH]; intros v acc.
  - reflexivity.
  - cbn [N_to_be_aux]. rewrite IH. cbn [length]. lia.
Qed.

Lemma N_to_be_length : forall n v, blen (N_to_be n v) = n.
Proof. intros. unfold blen, N_to_be. rewrite N_to_be_aux_length. cbn [length]. lia. Qed.

Lemma be_to_N_aux : forall n v, be_to_N (N_to_be_aux n v []) = v mod 256 ^ N.of_nat n.
Proof.
  induction n as [|n IH]; intros v.
  - cbn [N_to_be_aux]. change (N.of_nat 0) with 0. rewrite N.pow_0_r, N.mod_1_r. reflexivity.
  - cbn [N_to_be_aux]. rewrite N_to_be_aux_acc, be_to_N_app, IH.
    cbn [length]. change (N.of_nat 1) with 1. rewrite N.pow_1_r.
    unfold be_to_N. cbn [fold_left].
    rewrite Nat2N.inj_succ, N.pow_succ_r'.
    assert (H : 256 ^ N.of_nat n <> 0) by (apply N.pow_nonzero; lia).
    rewrite N.mod_mul_r by lia. lia.
Qed.

Lemma be_to_N_to_be : forall n v, v < 256 ^ n -> be_to_N (N_to_be n v) = v.
Proof.
  intros n v H. unfold N_to_be. rewrite be_to_N_aux, N2Nat.id. apply N.mod_small. exact H.
Qed.

Lemma size_le_lt_pow : forall a n, N.size a <= n -> a < 2 ^ n.
Proof.
  intros a n H. eapply N.lt_le_trans. apply N.size_gt. apply N.pow_le_mono_r; lia.
Qed.

Lemma pow256 : forall n, 256 ^ n = 2 ^ (8 * n).
Proof. intros. rewrite N.pow_mul_r. reflexivity. Qed.

Lemma be_to_N_to_be_size : forall n v, N.size v <=? 8 * n = true -> be_to_N (N_to_be n v) = v.
Proof.
  intros n v H. apply be_to_N_to_be. rewrite pow256. apply size_le_lt_pow. lia.
Qed.

(* ---- masks ---- *)
Lemma shiftr_ones_lt : forall a o, N.shiftr (2 ^ a - 1) o < 2 ^ (a - o).
Proof.
  intros a o. rewrite N.shiftr_div_pow2.
  assert (Hp : 0 < 2 ^ o) by (apply N.neq_0_lt_0, N.pow_nonzero; lia).
  destruct (N.le_gt_cases o a) as [Hle|Hgt].
  - apply N.div_lt_upper_bound; [lia|].
    rewrite <- N.pow_add_r. replace (o + (a - o)) with a by lia.
    assert (0 < 2 ^ a) by (apply N.neq_0_lt_0, N.pow_nonzero; lia). lia.
  - replace (a - o) with 0 by lia. rewrite N.pow_0_r.
    assert (2 ^ a < 2 ^ o) by (apply N.pow_lt_mono_r; lia).
    rewrite N.div_small by lia. lia.
Qed.

Lemma land_mask_lt : forall x a o, N.land x (N.shiftr (2 ^ a - 1) o) < 2 ^ (a - o).
Proof.
  intros. eapply N.le_lt_trans. apply land_le_r. apply shiftr_ones_lt.
Qed.

(* ---- the rejection sampler: whatever the reader, a returned value is below max ---- *)
Section RandInt.
  Variable St : Type.
  Variable read : St -> N -> option (bytes * St).

  Lemma rand_loop_lt : forall fuel s k b max v s',
    rand_loop read fuel s k b max = ROk v s' -> v < max.
  Proof.
    induction fuel as [|f IH]; intros s k b max v s' H.
    - discriminate.
    - cbn [rand_loop] in H. destruct (read s k) as [[bs s1]|]; [|discriminate].
      match type of H with (if ?c then _ else _) = _ => destruct c eqn:E end.
      + inversion H; subst. lia.
      + eapply IH; eauto.
  Qed.

  Lemma rand_int_lt : forall fuel s max v s',
    rand_int read fuel s max = ROk v s' -> (Z.of_N v < max)%Z.
  Proof.
    intros fuel s max v s' H. unfold rand_int in H.
    destruct (max <=? 0)%Z eqn:E0; [discriminate|].
    destruct (N.size (Z.to_N max - 1) =? 0) eqn:E1.
    - inversion H; subst. lia.
    - apply rand_loop_lt in H. lia.
  Qed.

  Lemma rand_loop_no_panic : forall fuel s k b max, rand_loop read fuel s k b max <> RPanic.
  Proof.
    induction fuel as [|f IH]; intros; cbn [rand_loop]; [discriminate|].
    destruct (read s k) as [[bs s1]|]; [|discriminate].
    match goal with |- (if ?c then _ else _) <> _ => destruct c end; [discriminate|apply IH].
  Qed.

  Lemma rand_int_no_panic : forall fuel s max, (0 < max)%Z -> rand_int read fuel s max <> RPanic.
  Proof.
    intros fuel s max H. unfold rand_int.
    destruct (max <=? 0)%Z eqn:E0; [lia|].
    destruct (N.size (Z.to_N max - 1) =? 0); [discriminate|apply rand_loop_no_panic].
  Qed.
End RandInt.
