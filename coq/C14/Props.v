(* C14 property theorems: statements + `exact lemma` only. *)
From CJ Require Import Common.Base C14.Model C14.Proofs.

Theorem C14_unknown_generation : forall seed lv f, exists e, select seed None lv f = Err e.
Proof. exact unknown_generation. Qed.
Print Assumptions C14_unknown_generation.
