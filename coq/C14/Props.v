(* C14 property theorems: statements + `exact lemma` only. *)
From CJ Require Import Common.Base C14.Model C14.ConcModel C14.Proofs C14.SurjProofs C14.ConcProofs C14.Main C14.Vectors C14.LifeModel C14.LifeProofs.
From Coq Require Import Permutation.

(* a successful selection is an address of the requested family inside a subnet
   configured for the generation, and carries that subnet's group flag *)
Theorem C14_select_contained :
  forall seed cfg lv f p, select seed (Some cfg) lv f = Ok p ->
    exists g c, In g cfg /\ In c (group_cidrs g) /\ contains c f (be_to_N (p_bytes p)) /\
                p_rand_port p = rand_port g.
Proof. exact select_contained. Qed.
Print Assumptions C14_select_contained.

Theorem C14_select_wellformed :
  forall seed cfg lv f p, select seed cfg lv f = Ok p ->
    blen (p_bytes p) * 8 = bits f /\ ip_is4 (p_bytes p) = family_eqb f V4.
Proof. exact select_wellformed. Qed.
Print Assumptions C14_select_wellformed.

Theorem C14_never_panics : forall seed cfg lv f, select seed cfg lv f <> Panic.
Proof. exact select_never_panics. Qed.
Print Assumptions C14_never_panics.

Theorem C14_unknown_generation : forall seed lv f, exists e, select seed None lv f = Err e.
Proof. exact select_unknown_generation. Qed.
Print Assumptions C14_unknown_generation.

(* the client entry point phantoms.SelectPhantom, weighted or not, with any transform *)
Theorem C14_select_phantom_sound :
  forall seed cfg tr w,
    select_phantom seed cfg tr w <> Panic /\
    forall p, select_phantom seed cfg tr w = Ok p ->
      exists g c f, In g cfg /\ In c (group_cidrs g) /\ contains c f (be_to_N (p_bytes p)) /\
                    (forall f', tr = Some f' -> f = f') /\
                    (blen (p_bytes p) * 8 = bits f /\ ip_is4 (p_bytes p) = family_eqb f V4) /\
                    p_rand_port p = rand_port g.
Proof. exact select_phantom_sound. Qed.
Print Assumptions C14_select_phantom_sound.

(* none of this depends on SHA-256, on Go's math/rand source or on how sort.Slice
   orders equal weights: any PRF, any source, any permutation *)
Theorem C14_selection_sound_parametric :
  forall (hm : bytes -> bytes -> bytes) (src : Type) (src_seed : Z -> src) (src_int63 : src -> N * src)
         (sorter : list group -> list group), (forall l, Permutation (sorter l) l) ->
  forall seed cfg lv f,
    select_gen hm src src_seed src_int63 sorter seed cfg lv f <> Panic /\
    (cfg = None -> exists e, select_gen hm src src_seed src_int63 sorter seed cfg lv f = Err e) /\
    forall c ph, cfg = Some c -> select_gen hm src src_seed src_int63 sorter seed cfg lv f = Ok ph ->
      exists g n, In g c /\ In n (group_cidrs g) /\ contains n f (be_to_N (p_bytes ph)) /\
                  (blen (p_bytes ph) * 8 = bits f /\ ip_is4 (p_bytes ph) = family_eqb f V4) /\
                  p_rand_port ph = rand_port g.
Proof. exact selection_sound_parametric. Qed.
Print Assumptions C14_selection_sound_parametric.

(* offset surjectivity: every address of every listed (well-formed, not v4-mapped)
   network -- except an address that net.IP would read as IPv4-mapped -- is the
   result for some id below the total ... *)
Theorem C14_offset_surjective :
  forall subnets c rp a,
    In (c, rp) subnets -> wf_cidr c -> v4mapped c = false -> contains c (eff_fam c) a ->
    a / 2 ^ 32 <> 65535 ->
    exists id ph, id < snd (id_nets subnets 0) /\
                  locate_hkdf (fst (id_nets subnets 0)) id = Ok ph /\
                  be_to_N (p_bytes ph) = a /\ p_rand_port ph = rp /\ blen (p_bytes ph) * 8 = bits (eff_fam c).
Proof. exact every_address_reachable. Qed.
Print Assumptions C14_offset_surjective.

(* ... and the rejection sampler returns every id below its bound for some stream *)
Theorem C14_sampler_surjective :
  forall max v, v < max -> exists s, rand_int list_read 1 s (Z.of_N max) = ROk v [].
Proof. exact rand_int_surjective. Qed.
Print Assumptions C14_sampler_surjective.

(* whatever the reader, the sampler's value is below the bound *)
Theorem C14_sampler_in_range :
  forall (St : Type) (read : St -> N -> option (bytes * St)) fuel s max v s',
    rand_int read fuel s max = ROk v s' -> (Z.of_N v < max)%Z.
Proof. exact LibProofs.rand_int_lt. Qed.
Print Assumptions C14_sampler_in_range.

(* purity under concurrency: n selection calls on one station, any initial state
   of the global math/rand generator and of each call's own, any schedule: a
   call that has returned has returned the value of the pure function *)
Theorem C14_concurrent_eq_serial :
  forall g0 calls sched i l seed cfg lv f r,
    nth_error calls i = Some (l, (seed, cfg, lv, f)) ->
    result_of (run alfg_seed alfg_int63 (conc_init false g0 calls) sched) i = Some r ->
    r = select seed cfg lv f.
Proof. exact concurrent_eq_serial. Qed.
Print Assumptions C14_concurrent_eq_serial.

(* purity over histories: any sequence of calls of the two entry points on one selector leaves
   the generation's configuration as it was, and every call returns what it returns on a fresh
   selector, whatever was called before it *)
Theorem C14_history_pure :
  forall ops cfg, fst (hrun cfg ops) = cfg /\ snd (hrun cfg ops) = map (hresult cfg) ops.
Proof. exact hrun_pure. Qed.
Print Assumptions C14_history_pure.

Theorem C14_history_independent :
  forall pre post o cfg, nth_error (snd (hrun cfg (pre ++ o :: post))) (length pre) = Some (hresult cfg o).
Proof. exact history_independent. Qed.
Print Assumptions C14_history_independent.

(* run on its own, the code that used the shared generator (shared = true, before
   /repo 77e5dfb) and the current code (shared = false) return the same value,
   whatever state the generators are in: the fix preserves what clients compute *)
Theorem C14_serial_old_code_eq_new :
  forall shared g l seed cfg lv f,
    exec alfg_seed alfg_int63 g l (p_select alfg alfg_seed alfg_int63 isort_groups hmac_sha256 shared seed cfg lv f)
    = select seed cfg lv f.
Proof. exact serial_old_code_eq_new. Qed.
Print Assumptions C14_serial_old_code_eq_new.

Theorem C14_every_call_finishes :
  forall shared seed cfg lv f g l, exists n,
    match snd (snd (own_steps alfg alfg_seed alfg_int63 _ n
          (g, (l, p_select alfg alfg_seed alfg_int63 isort_groups hmac_sha256 shared seed cfg lv f)))) with
    | Ret _ => True | _ => False end.
Proof. exact every_call_finishes. Qed.
Print Assumptions C14_every_call_finishes.

(* the concrete primitives against their published vectors *)
Theorem C14_sha256_vectors :
  sha256 [] = unhex "e3b0c44298fc1c149afbf4c8996fb92427ae41e4649b934ca495991b7852b855" /\
  sha256 (unhex "616263") = unhex "ba7816bf8f01cfea414140de5dae2223b00361a396177a9cb410ff61f20015ad" /\
  sha256 (unhex "6162636462636465636465666465666765666768666768696768696a68696a6b696a6b6c6a6b6c6d6b6c6d6e6c6d6e6f6d6e6f706e6f7071")
    = unhex "248d6a61d20638b8e5c026930c3e6039a33ce45964ff2167f6ecedd419db06c1" /\
  sha256 (repeat 97 55) = unhex "9f4390f8d30c2dd92ec9f095b65e2b9ae9b0a925a5258e241c9f1e910f734318" /\
  sha256 (repeat 97 56) = unhex "b35439a4ac6f0948b6d6f9e3c6af0f5f590ce20f1bde7090ef7970686ec6738a" /\
  sha256 (repeat 97 64) = unhex "ffe054fe7ae0cb6dc65c3af9b61d5209f439851db43d0ba5997337df154668eb".
Proof. exact sha256_vectors. Qed.
Print Assumptions C14_sha256_vectors.

Theorem C14_hmac_hkdf_vectors :
  hmac_sha256 (unhex "4a656665") (unhex "7768617420646f2079612077616e7420666f72206e6f7468696e673f")
    = unhex "5bdcc146bf60754e6a042426089575c75a003f089d2739839dec58b964ec3843" /\
  hkdf_sha256 (repeat 11 22) (Some (unhex "000102030405060708090a0b0c")) (unhex "f0f1f2f3f4f5f6f7f8f9") 42
    = Some (unhex "3cb25f25faacd57a90434f64d0362f2a2d2d0a90cf1a5a4c5db02d56ecc4c5bf34007208d5b887185865") /\
  hkdf_sha256 [1; 2; 3] None [4] 8161 = None.
Proof. exact (conj (proj1 (proj2 hmac_sha256_vectors)) (conj (proj1 hkdf_sha256_vectors) (proj2 (proj2 hkdf_sha256_vectors)))). Qed.
Print Assumptions C14_hmac_hkdf_vectors.

(* ---------- the selector as the station and the registrar HOLD it (LifeModel.v) ---------- *)

(* loading a subnet file: the selector built by SubnetsFromTomlFile's AddGeneration loop gives every generation
   exactly the configuration the file gives it, in whatever order Go's map iteration presents the generations *)
Theorem C14_load_gives_file :
  forall f, wellkeyed f -> forall g, lookup (from_file f) g = file_lookup f g.
Proof. exact from_file_lookup. Qed.
Print Assumptions C14_load_gives_file.

(* the property over the station's (and the registrar's) lifetime.  After ANY history of reloads -- generations
   added, changed, retired, loads that fail -- and selections, a selection
     never panics,
     returns what a selector loaded FRESHLY from the configuration in force returns (purity across reloads),
     fails for a generation the configuration in force does not have,
     and otherwise returns a well-formed address of the requested family inside a subnet that the configuration in
     force configures for that generation, with that subnet's port-randomisation flag *)
Theorem C14_lifecycle_in_force :
  forall f0 pre seed g lv fam post r,
    wellkeyed f0 -> loads_wellkeyed pre ->
    nth_error (fst (station_run (from_file f0) (pre ++ ESelect seed g lv fam :: post))) (length pre) = Some (Some r) ->
    let F := in_force f0 pre in
    r <> Panic /\
    r = sel_select (from_file F) seed g lv fam /\
    (file_lookup F g = None -> exists e, r = Err e) /\
    (forall p, r = Ok p ->
       exists cfg grp c, file_lookup F g = Some cfg /\ In grp cfg /\ In c (group_cidrs grp) /\
                         contains c fam (be_to_N (p_bytes p)) /\ p_rand_port p = rand_port grp /\
                         blen (p_bytes p) * 8 = bits fam /\ ip_is4 (p_bytes p) = family_eqb fam V4).
Proof. exact lifecycle_sound. Qed.
Print Assumptions C14_lifecycle_in_force.

(* every selection of every history is the pure function applied to the configuration in force *)
Theorem C14_lifecycle_select_is_pure :
  forall pre f0 seed g lv fam post,
    wellkeyed f0 -> loads_wellkeyed pre ->
    nth_error (fst (station_run (from_file f0) (pre ++ ESelect seed g lv fam :: post))) (length pre)
    = Some (Some (select seed (file_lookup (in_force f0 pre) g) lv fam)).
Proof. exact station_select_pure0. Qed.
Print Assumptions C14_lifecycle_select_is_pure.

(* the selector held after any history answers, for EVERY generation (also retired ones and ones never configured),
   as the file of the last successful load *)
Theorem C14_lifecycle_held_selector :
  forall evs f0, wellkeyed f0 -> loads_wellkeyed evs ->
    forall g, lookup (snd (station_run (from_file f0) evs)) g = file_lookup (in_force f0 evs) g.
Proof. exact station_held_in_force0. Qed.
Print Assumptions C14_lifecycle_held_selector.

(* purity across reloads needs no hypothesis on the files at all *)
Theorem C14_lifecycle_fresh :
  forall pre f0 seed g lv fam post,
    nth_error (fst (station_run (from_file f0) (pre ++ ESelect seed g lv fam :: post))) (length pre)
    = Some (Some (sel_select (from_file (in_force f0 pre)) seed g lv fam)).
Proof. exact station_select_fresh. Qed.
Print Assumptions C14_lifecycle_fresh.

(* reloads while selections are in flight (the selector is fetched under the read lock, used afterwards): a
   selection answers from the configuration that was in force when it fetched the selector, whatever reloads and
   other selections are scheduled in between *)
Theorem C14_reload_linearizable :
  forall f0 t pre seed g lv fam post,
    nth_error (fst (crun false (cinit f0) (pre ++ CSelect t seed g lv fam :: post))) (length pre)
    = Some (match force_at_fetch f0 None t pre with
            | Some F => Some (sel_select (from_file F) seed g lv fam)
            | None => None
            end).
Proof. exact reload_linearizable. Qed.
Print Assumptions C14_reload_linearizable.

Theorem C14_reload_linearizable_sound :
  forall f0 t pre seed g lv fam post F r,
    force_at_fetch f0 None t pre = Some F -> wellkeyed F ->
    nth_error (fst (crun false (cinit f0) (pre ++ CSelect t seed g lv fam :: post))) (length pre) = Some (Some r) ->
    r = select seed (file_lookup F g) lv fam /\ r <> Panic /\
    (file_lookup F g = None -> exists e, r = Err e) /\
    (forall p, r = Ok p -> exists cfg grp c, file_lookup F g = Some cfg /\ In grp cfg /\ In c (group_cidrs grp) /\
                                            contains c fam (be_to_N (p_bytes p)) /\ p_rand_port p = rand_port grp).
Proof. exact reload_linearizable_sound. Qed.
Print Assumptions C14_reload_linearizable_sound.

(* the selector's exported API.  Any history of UpdateGeneration / RemoveGeneration / Select on one selector: a
   selection for generation g is the pure function applied to what was LAST written for g (nothing written: what
   the selector was created with); calls about other generations, and earlier selections, do not matter *)
Theorem C14_api_history :
  forall pre s seed g lv fam post, no_add pre ->
    nth_error (fst (arun s (pre ++ ASelect seed g lv fam :: post))) (length pre)
    = Some (OSel (select seed (gen_view (lookup s g) g pre) lv fam)).
Proof. exact api_history_view. Qed.
Print Assumptions C14_api_history.

(* AddGeneration never overwrites a configured (or removed-but-taken) generation: the index it returns was free,
   now holds the new configuration, and every other generation reads as before *)
Theorem C14_api_add_keeps_others :
  forall s gen v s' u, add_generation s gen v = (s', u) -> max_key s + 1 < uint_mod ->
    is_taken s u = false /\ lookup s' u = v /\ forall g, g <> u -> lookup s' g = lookup s g.
Proof. exact add_generation_fresh. Qed.
Print Assumptions C14_api_add_keeps_others.

Theorem C14_api_removed_generation_fails :
  forall s g seed lv fam, exists e, sel_select (remove_generation s g) seed g lv fam = Err e.
Proof. exact api_removed_generation_fails. Qed.
Print Assumptions C14_api_removed_generation_fails.

(* the ruled-out reload, in general: copying the reloaded generations into the held selector keeps every
   generation the new file dropped -- a selection for it is answered from the OLD file's subnets, where the code
   (and the property) say "generation number not recognized" *)
Theorem C14_merge_reload_refuted :
  forall f0 f1 g c seed lv fam,
    wellkeyed f0 -> wellkeyed f1 -> file_lookup f0 g = Some c -> file_lookup f1 g = None ->
    nth_error (fst (merge_run (from_file f0) [EReload (Some f1); ESelect seed g lv fam])) 1 = Some (Some (select seed (Some c) lv fam)) /\
    nth_error (fst (station_run (from_file f0) [EReload (Some f1); ESelect seed g lv fam])) 1 = Some (Some (Err EGeneration)).
Proof. exact merge_reload_refuted. Qed.
Print Assumptions C14_merge_reload_refuted.
