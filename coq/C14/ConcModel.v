(* C14, purity under concurrency.  The legacy (client library 0/1) selection
   paths are the only part of phantom selection that ever touched shared mutable
   state: the process-global math/rand generator, seeded in one step and read in
   the next.  Here those paths are written as programs over generator operations
   that are either GLOBAL (the shared generator: the code before /repo 77e5dfb)
   or LOCAL (a generator owned by the call: the code now), and run by an
   interleaving interpreter under an arbitrary schedule.  Definitions only. *)
From CJ Require Export Common.Base C14.Model.

Inductive gop := OSeed (s : Z) | OIntn (n : Z) | ORead (n : N).
Inductive gret := RUnit | RPanicked | RFueled | RVal (v : N) | RBytes (b : bytes).

(* a call: a tree of generator operations; `shared = true` addresses the global generator *)
Inductive prog (A : Type) : Type :=
| Ret (a : A)
| Op (shared : bool) (o : gop) (k : gret -> prog A).
Arguments Ret {A}. Arguments Op {A}.

Fixpoint bind {A B} (p : prog A) (f : A -> prog B) : prog B :=
  match p with
  | Ret a => f a
  | Op s o k => Op s o (fun r => bind (k r) f)
  end.

Section Conc.
  Variable src : Type.
  Variable src_seed : Z -> src.
  Variable src_int63 : src -> N * src.
  Variable sorter : list group -> list group.

  Definition gen := rnd src.

  (* one atomic generator operation (each holds the generator's lock in Go) *)
  Definition do_op (g : gen) (o : gop) : gen * gret :=
    match o with
    | OSeed s => (rnd_new (src_seed s), RUnit)
    | OIntn n => match rnd_intn src_int63 intn_fuel g n with
                 | IntnOk v g' => (g', RVal v)
                 | IntnPanic => (g, RPanicked)
                 | IntnFuel => (g, RFueled)
                 end
    | ORead n => let '(b, g') := rnd_read src_int63 g n in (g', RBytes b)
    end.

  (* getSubnetsVarint as a program: Seed, then Intn in a second step *)
  Definition p_get_subnets_varint (shared : bool) (cfg : config) (seed : bytes) : prog (sres (list pnet)) :=
    let '(sv, n) := varint seed in
    if (n =? 0)%Z then Ret (Err EVarint)
    else
      Op shared (OSeed sv) (fun _ =>
        let sorted := sorter (filter (fun g => match nets g with None => false | Some _ => true end) cfg) in
        let tot := fold_left (fun a g => a + weight g) sorted 0 in
        if tot <? 1 then Ret (Err EChooser)
        else
          Op shared (OIntn (Z.of_N tot)) (fun r =>
            match r with
            | RVal v => match search_totals sorted 0 (v + 1) with
                        | Some g => Ret (parse_subnets g)
                        | None => Ret Panic
                        end
            | RFueled => Ret (Err EFuel)
            | _ => Ret Panic
            end)).

  (* SelectAddrFromSubnet as a program: Seed, then Read in a second step *)
  Definition p_select_addr (shared : bool) (seed : bytes) (p : pnet) : prog (sres phantom) :=
    let c := fst p in
    let '(sv, n) := varint seed in
    if (n =? 0)%Z then Ret (Err EVarint)
    else
      Op shared (OSeed sv) (fun _ =>
        Op shared (ORead (bits (fam c) / 8)) (fun r =>
          match r with
          | RBytes rb =>
            let mask := N.shiftr (2 ^ bits (fam c) - 1) (ones c) in
            match addr_bytes c (eff_base c + N.land (be_to_N rb) mask) with
            | Ok b => Ret (Ok {| p_bytes := b; p_rand_port := snd p |})
            | Err e => Ret (Err e)
            | Panic => Ret Panic
            end
          | _ => Ret Panic
          end)).

  Fixpoint p_match_loop (hit : N -> N -> bool) (pick : N -> pnet -> prog (sres phantom))
           (l : list (N * N * pnet)) (acc : option phantom) : prog (sres (option phantom)) :=
    match l with
    | [] => Ret (Ok acc)
    | (mn, mx, p) :: r =>
      if hit mn mx then
        bind (pick mn p) (fun x =>
          match x with
          | Ok ph => p_match_loop hit pick r (Some ph)
          | Err e => Ret (Err e)
          | Panic => Ret Panic
          end)
      else p_match_loop hit pick r acc
    end.

  Definition p_select_impl_varint (shared : bool) (seed : bytes) (subnets : list pnet) : prog (sres phantom) :=
    let '(idn, total) := id_nets subnets 0 in
    if total =? 0 then Ret (Err ENoAddrs)
    else
      let id0 := be_to_N seed in
      let id := if total <=? id0 then id0 mod total else id0 in
      bind (p_match_loop (fun mn mx => (id <=? mx) && (mn <=? id)) (fun _ p => p_select_addr shared seed p) idn None)
           (fun r => Ret (finish_loop r)).

  Definition p_select_impl_v0 (shared : bool) (seed : bytes) (subnets : list pnet) : prog (sres phantom) :=
    let '(idn, total) := id_nets_v0 subnets 0 in
    if total =? 0 then Ret (Err ENoAddrs)
    else
      let id0 := be_to_N seed in
      let id := if total <? id0 then id0 mod total else id0 in
      bind (p_match_loop (fun mn mx => (id <=? mx) && (mn <? id)) (fun _ p => p_select_addr shared seed p) idn None)
           (fun r => Ret (finish_loop r)).

  (* PhantomIPSelector.Select as a program.  The HKDF path (libver >= 2) performs
     no generator operation at all: it is the pure function of Model.v. *)
  Variable hm : bytes -> bytes -> bytes.
  Definition p_select (shared : bool) (seed : bytes) (cfg : option config) (lv : N) (f : family) : prog (sres phantom) :=
    match cfg with
    | None => Ret (Err EGeneration)
    | Some c =>
      if lv <? 2 then
        bind (p_get_subnets_varint shared c seed) (fun r =>
          match r with
          | Ok subnets =>
            let fs := filter_family f subnets in
            if lv <? 1 then p_select_impl_v0 shared seed fs else p_select_impl_varint shared seed fs
          | Err e => Ret (Err e)
          | Panic => Ret Panic
          end)
      else Ret (select_gen hm src src_seed src_int63 sorter seed cfg lv f)
    end.

  (* ---------- the interleaving interpreter ---------- *)
  (* a thread: its own generator and the rest of its call *)
  Definition thread (A : Type) := (gen * prog A)%type.
  (* a configuration: the global generator and the threads *)
  Definition conf (A : Type) := (gen * list (thread A))%type.

  Definition step_thread {A} (g : gen) (t : thread A) : gen * thread A :=
    match snd t with
    | Ret _ => (g, t)
    | Op true o k => let '(g', r) := do_op g o in (g', (fst t, k r))
    | Op false o k => let '(l', r) := do_op (fst t) o in (g, (l', k r))
    end.

  Fixpoint set_nth {X} (l : list X) (i : nat) (x : X) : list X :=
    match l, i with
    | [], _ => []
    | _ :: r, O => x :: r
    | y :: r, S i' => y :: set_nth r i' x
    end.

  (* thread i performs its next operation (nothing happens if i is out of range or finished) *)
  Definition step {A} (c : conf A) (i : nat) : conf A :=
    match nth_error (snd c) i with
    | None => c
    | Some t => let '(g', t') := step_thread (fst c) t in (g', set_nth (snd c) i t')
    end.

  Definition run {A} (c : conf A) (sched : list nat) : conf A := fold_left step sched c.

  Definition result_of {A} (c : conf A) (i : nat) : option A :=
    match nth_error (snd c) i with
    | Some (_, Ret a) => Some a
    | _ => None
    end.

  (* a call evaluated on its own, to completion: final generators and the value *)
  Fixpoint exec_st {A} (g l : gen) (p : prog A) : gen * gen * A :=
    match p with
    | Ret a => (g, l, a)
    | Op true o k => let '(g', r) := do_op g o in exec_st g' l (k r)
    | Op false o k => let '(l', r) := do_op l o in exec_st g l' (k r)
    end.
  Definition exec {A} (g l : gen) (p : prog A) : A := snd (exec_st g l p).

  Inductive global_free {A} : prog A -> Prop :=
  | GF_ret : forall a, global_free (Ret a)
  | GF_op : forall o k, (forall r, global_free (k r)) -> global_free (Op false o k).
End Conc.

Arguments exec {src} src_seed src_int63 {A}. Arguments exec_st {src} src_seed src_int63 {A}.
Arguments run {src} src_seed src_int63 {A}. Arguments step {src} src_seed src_int63 {A}.
Arguments step_thread {src} src_seed src_int63 {A}. Arguments result_of {src A}.

(* the selection calls of one station: (seed, generation's configuration, libver, family) *)
Definition sel_args := (bytes * option config * N * family)%type.

(* ---------- histories on one selector ----------
   A selector object holds the generation's configuration; a history is any
   sequence of calls of the two entry points on it.  A step returns the
   configuration it leaves behind and the call's result. *)
Inductive hop :=
| HSelect (seed : bytes) (lv : N) (f : family)                      (* PhantomIPSelector.Select *)
| HSelPhantom (seed : bytes) (tr : option family) (weighted : bool). (* SelectPhantom on the same groups *)

Definition hresult (cfg : option config) (o : hop) : sres phantom :=
  match o with
  | HSelect seed lv f => select seed cfg lv f
  | HSelPhantom seed tr w => select_phantom seed (match cfg with Some c => c | None => [] end) tr w
  end.

Definition hstep (cfg : option config) (o : hop) : option config * sres phantom := (cfg, hresult cfg o).

Fixpoint hrun (cfg : option config) (ops : list hop) : option config * list (sres phantom) :=
  match ops with
  | [] => (cfg, [])
  | o :: r => let '(cfg1, x) := hstep cfg o in
              let '(cfg2, xs) := hrun cfg1 r in (cfg2, x :: xs)
  end.
