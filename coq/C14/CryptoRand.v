(* crypto/rand.Int(reader, max): Go's rejection sampler, generic in the reader.
   big.Int helpers: big-endian conversions with and without leading zeros.
   Definitions only. *)
From CJ Require Export Common.Base.

(* big.Int.SetBytes: big-endian bytes -> N *)
Definition be_to_N (b : bytes) : N := fold_left (fun acc x => acc * 256 + x) b 0.

(* big-endian, exactly n bytes (big.Int.FillBytes into a buffer of n bytes; the
   value is reduced mod 256^n, callers guard against that case) *)
Fixpoint N_to_be_aux (n : nat) (v : N) (acc : bytes) : bytes :=
  match n with
  | O => acc
  | S n' => N_to_be_aux n' (v / 256) (v mod 256 :: acc)
  end.
Definition N_to_be (n : N) (v : N) : bytes := N_to_be_aux (N.to_nat n) v [].

(* number of bytes of big.Int.Bytes(): minimal big-endian length (0 for 0) *)
Definition byte_len (v : N) : N := (N.size v + 7) / 8.
(* big.Int.Bytes(): minimal-length big-endian *)
Definition N_to_be_min (v : N) : bytes := N_to_be (byte_len v) v.

Inductive rand_res (St : Type) :=
| RPanic                       (* max <= 0 *)
| RErr                         (* the reader returned an error *)
| RFuel                        (* model fuel exhausted (Go would keep looping) *)
| ROk (v : N) (s : St).
Arguments RPanic {St}. Arguments RErr {St}. Arguments RFuel {St}. Arguments ROk {St}.

Section RandInt.
  Variable St : Type.
  Variable read : St -> N -> option (bytes * St).      (* io.ReadFull of n bytes *)

  (* the `for` loop of rand.Int: k bytes per draw, top byte masked to b bits *)
  Fixpoint rand_loop (fuel : nat) (s : St) (k b max : N) : rand_res St :=
    match fuel with
    | O => RFuel
    | S f =>
      match read s k with
      | None => RErr
      | Some (bs, s') =>
        let bs' := match bs with
                   | [] => []
                   | x :: r => N.land x (2 ^ b - 1) :: r
                   end in
        let n := be_to_N bs' in
        if n <? max then ROk n s' else rand_loop f s' k b max
      end
    end.

  (* max is a signed big.Int in Go; here Z so that max <= 0 is expressible *)
  Definition rand_int (fuel : nat) (s : St) (max : Z) : rand_res St :=
    if (max <=? 0)%Z then RPanic
    else
      let m := Z.to_N max in
      let bitlen := N.size (m - 1) in
      if bitlen =? 0 then ROk 0 s
      else
        let k := (bitlen + 7) / 8 in
        let b := if bitlen mod 8 =? 0 then 8 else bitlen mod 8 in
        rand_loop fuel s k b m.
End RandInt.
Arguments rand_int {St}. Arguments rand_loop {St}.

(* number of draws the HKDF reader can serve is at most 8160 (k >= 1) *)
Definition rand_fuel : nat := N.to_nat 8161.
