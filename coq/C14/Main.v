(* C14: the theorems for the concrete model (HMAC-SHA256, Go's math/rand source,
   insertion sort), obtained from the parametric ones. *)
From CJ Require Import Common.Base C14.Model C14.ConcModel C14.LibProofs C14.Proofs C14.SurjProofs C14.ConcProofs.
From Coq Require Import Lia ZifyN ZifyNat ZifyBool Permutation.

Lemma good_unfold : forall cfg p f ph, from_cfg cfg p -> eff_fam (fst p) = f -> good p ph ->
  exists g c, In g cfg /\ In c (group_cidrs g) /\ contains c f (be_to_N (p_bytes ph)) /\
              (blen (p_bytes ph) * 8 = bits f /\ ip_is4 (p_bytes ph) = family_eqb f V4) /\
              p_rand_port ph = rand_port g.
Proof.
  intros cfg p f ph (g & Hg & Hc & Hr) Hf (H1 & H2 & H3). exists g, (fst p). subst f.
  split; [exact Hg|]. split; [exact Hc|]. split; [exact H1|]. split; [exact H2|]. congruence.
Qed.

(* ---- parametric statement: any PRF, any math/rand source, any permutation as sorter ---- *)
Lemma selection_sound_parametric :
  forall (hm : bytes -> bytes -> bytes) (src : Type) (src_seed : Z -> src) (src_int63 : src -> N * src)
         (sorter : list group -> list group), (forall l, Permutation (sorter l) l) ->
  forall seed cfg lv f,
    select_gen hm src src_seed src_int63 sorter seed cfg lv f <> Panic /\
    (cfg = None -> exists e, select_gen hm src src_seed src_int63 sorter seed cfg lv f = Err e) /\
    forall c ph, cfg = Some c -> select_gen hm src src_seed src_int63 sorter seed cfg lv f = Ok ph ->
      exists g n, In g c /\ In n (group_cidrs g) /\ contains n f (be_to_N (p_bytes ph)) /\
                  (blen (p_bytes ph) * 8 = bits f /\ ip_is4 (p_bytes ph) = family_eqb f V4) /\
                  p_rand_port ph = rand_port g.
Proof.
  intros hm src src_seed src_int63 sorter Hperm seed cfg lv f. split; [|split].
  - apply select_gen_no_panic; assumption.
  - intros ->. exists EGeneration. reflexivity.
  - intros c ph -> H. destruct (select_gen_good hm src src_seed src_int63 sorter Hperm _ _ _ _ _ H) as (p & H1 & H2 & H3).
    eapply good_unfold; eauto.
Qed.

Lemma select_contained : forall seed cfg lv f p, select seed (Some cfg) lv f = Ok p ->
  exists g c, In g cfg /\ In c (group_cidrs g) /\ contains c f (be_to_N (p_bytes p)) /\ p_rand_port p = rand_port g.
Proof.
  intros seed cfg lv f p H.
  destruct (selection_sound_parametric hmac_sha256 alfg alfg_seed alfg_int63 isort_groups isort_groups_perm seed (Some cfg) lv f)
    as (_ & _ & Hs).
  destruct (Hs cfg p eq_refl H) as (g & c & H1 & H2 & H3 & H4 & H5). exists g, c. auto.
Qed.

Lemma select_wellformed : forall seed cfg lv f p, select seed cfg lv f = Ok p ->
  blen (p_bytes p) * 8 = bits f /\ ip_is4 (p_bytes p) = family_eqb f V4.
Proof.
  intros seed [cfg|] lv f p H; [|discriminate].
  destruct (selection_sound_parametric hmac_sha256 alfg alfg_seed alfg_int63 isort_groups isort_groups_perm seed (Some cfg) lv f)
    as (_ & _ & Hs).
  destruct (Hs cfg p eq_refl H) as (g & c & H1 & H2 & H3 & H4 & H5). exact H4.
Qed.

Lemma select_never_panics : forall seed cfg lv f, select seed cfg lv f <> Panic.
Proof. intros. apply select_gen_no_panic, isort_groups_perm. Qed.

Lemma select_unknown_generation : forall seed lv f, exists e, select seed None lv f = Err e.
Proof. intros. exists EGeneration. reflexivity. Qed.

(* the client entry point SelectPhantom *)
Lemma select_phantom_sound : forall seed cfg tr w,
  select_phantom seed cfg tr w <> Panic /\
  forall p, select_phantom seed cfg tr w = Ok p ->
    exists g c f, In g cfg /\ In c (group_cidrs g) /\ contains c f (be_to_N (p_bytes p)) /\
                  (forall f', tr = Some f' -> f = f') /\
                  (blen (p_bytes p) * 8 = bits f /\ ip_is4 (p_bytes p) = family_eqb f V4) /\
                  p_rand_port p = rand_port g.
Proof.
  intros seed cfg tr w. split; [apply select_phantom_gen_no_panic, isort_groups_perm|].
  intros p H. destruct (select_phantom_gen_good hmac_sha256 isort_groups isort_groups_perm _ _ _ _ _ H) as (q & H1 & H2 & H3).
  destruct (good_unfold cfg q (eff_fam (fst q)) p H1 eq_refl H3) as (g & c & G1 & G2 & G3 & G4 & G5).
  exists g, c, (eff_fam (fst q)). split; [exact G1|]. split; [exact G2|]. split; [exact G3|].
  split; [|split; assumption].
  intros f' Hf. apply H2. exact Hf.
Qed.

(* ---- concurrency, concrete ---- *)
Definition conc_init := init_conf alfg alfg_seed alfg_int63 isort_groups hmac_sha256.

Lemma concurrent_eq_serial : forall g0 calls sched i l seed cfg lv f r,
  nth_error calls i = Some (l, (seed, cfg, lv, f)) ->
  result_of (run alfg_seed alfg_int63 (conc_init false g0 calls) sched) i = Some r ->
  r = select seed cfg lv f.
Proof.
  intros g0 calls sched i l seed cfg lv f r Hn Hr.
  exact (concurrent_eq_serial_gen alfg alfg_seed alfg_int63 isort_groups hmac_sha256 g0 calls sched i l (seed, cfg, lv, f) r Hn Hr).
Qed.

Lemma serial_old_code_eq_new : forall shared g l seed cfg lv f,
  exec alfg_seed alfg_int63 g l (p_select alfg alfg_seed alfg_int63 isort_groups hmac_sha256 shared seed cfg lv f)
  = select seed cfg lv f.
Proof.
  intros. exact (serial_old_eq_new alfg alfg_seed alfg_int63 isort_groups hmac_sha256 shared g l (seed, cfg, lv, f)).
Qed.

Lemma every_call_finishes : forall shared seed cfg lv f g l, exists n,
  match snd (snd (own_steps alfg alfg_seed alfg_int63 _ n
        (g, (l, p_select alfg alfg_seed alfg_int63 isort_groups hmac_sha256 shared seed cfg lv f)))) with
  | Ret _ => True | _ => False end.
Proof. intros. apply thread_finishes. Qed.
