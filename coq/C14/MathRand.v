(* math/rand (Go 1.23): the *Rand methods the legacy selectors use (Intn, Read)
   over an abstract Source, and the concrete additive lagged Fibonacci source
   (rngSource) seeded as Go seeds it.  Definitions only. *)
From CJ Require Export Common.Base C14.RngCooked.

(* ---------- generic part: a *rand.Rand over a Source ---------- *)
Section Rand.
  Variable src : Type.
  Variable src_int63 : src -> N * src.          (* Source.Int63 *)

  (* r.src, r.readVal, r.readPos *)
  Record rnd := { r_src : src; r_val : N; r_pos : N }.
  Definition rnd_new (s : src) : rnd := {| r_src := s; r_val := 0; r_pos := 0 |}.

  Definition rnd_int63 (r : rnd) : N * rnd :=
    let '(v, s) := src_int63 (r_src r) in (v, {| r_src := s; r_val := r_val r; r_pos := r_pos r |}).
  Definition rnd_int31 (r : rnd) : N * rnd :=
    let '(v, r') := rnd_int63 r in (N.shiftr v 32, r').

  (* `for v > max { v = draw() }` *)
  Fixpoint redraw (fuel : nat) (draw : rnd -> N * rnd) (max : N) (v : N) (r : rnd) : option (N * rnd) :=
    if v <=? max then Some (v, r)
    else match fuel with
         | O => None
         | S f => let '(v', r') := draw r in redraw f draw max v' r'
         end.

  Definition is_pow2 (n : N) : bool := N.land n (n - 1) =? 0.

  (* Int31n / Int63n / Intn; None = model fuel exhausted; n >= 1 *)
  Definition rnd_int31n (fuel : nat) (r : rnd) (n : N) : option (N * rnd) :=
    if is_pow2 n then let '(v, r') := rnd_int31 r in Some (N.land v (n - 1), r')
    else
      let max := 2147483647 - 2147483648 mod n in
      let '(v, r') := rnd_int31 r in
      match redraw fuel rnd_int31 max v r' with
      | Some (v, r'') => Some (v mod n, r'')
      | None => None
      end.
  Definition rnd_int63n (fuel : nat) (r : rnd) (n : N) : option (N * rnd) :=
    if is_pow2 n then let '(v, r') := rnd_int63 r in Some (N.land v (n - 1), r')
    else
      let max := 9223372036854775807 - 9223372036854775808 mod n in
      let '(v, r') := rnd_int63 r in
      match redraw fuel rnd_int63 max v r' with
      | Some (v, r'') => Some (v mod n, r'')
      | None => None
      end.

  Inductive intn_res := IntnPanic | IntnFuel | IntnOk (v : N) (r : rnd).
  Definition rnd_intn (fuel : nat) (r : rnd) (n : Z) : intn_res :=
    if (n <=? 0)%Z then IntnPanic
    else
      let m := Z.to_N n in
      match (if m <=? 2147483647 then rnd_int31n fuel r m else rnd_int63n fuel r m) with
      | Some (v, r') => IntnOk v r'
      | None => IntnFuel
      end.

  (* Rand.Read(p), len(p) = n: seven bytes per Int63, least significant first *)
  Fixpoint rnd_read_aux (n : nat) (s : src) (val pos : N) (acc : bytes) : bytes * rnd :=
    match n with
    | O => (rev acc, {| r_src := s; r_val := val; r_pos := pos |})
    | S n' =>
      let '(val1, pos1, s1) :=
        if pos =? 0 then let '(v, s') := src_int63 s in (v, 7, s') else (val, pos, s) in
      rnd_read_aux n' s1 (N.shiftr val1 8) (pos1 - 1) (N.land val1 255 :: acc)
    end.
  Definition rnd_read (r : rnd) (n : N) : bytes * rnd :=
    rnd_read_aux (N.to_nat n) (r_src r) (r_val r) (r_pos r) [].
End Rand.
Arguments r_src {src}. Arguments r_val {src}. Arguments r_pos {src}.
Arguments rnd_new {src}. Arguments rnd_intn {src}. Arguments rnd_read {src}.
Arguments IntnPanic {src}. Arguments IntnFuel {src}. Arguments IntnOk {src}.

(* fuel for the rejection loops of Intn (each redraw is rejected with probability < 1/2) *)
Definition intn_fuel : nat := 512.

(* ---------- rngSource: x[n] = x[n-273] + x[n-607] mod 2^64 ---------- *)
Definition int32max : Z := 2147483647.
Definition mask64 : N := 18446744073709551615.
Definition mask63 : N := 9223372036854775807.

Definition seedrand (x : Z) : Z :=
  let hi := (x / 44488)%Z in
  let lo := (x mod 44488)%Z in
  let y := (48271 * lo - 3399 * hi)%Z in
  if (y <? 0)%Z then (y + int32max)%Z else y.

Record alfg := { a_vec : list N; a_tap : N; a_feed : N }.

Fixpoint alfg_fill (cooked : list N) (x : Z) : list N :=
  match cooked with
  | [] => []
  | c :: r =>
    let x1 := seedrand x in
    let x2 := seedrand x1 in
    let x3 := seedrand x2 in
    let u := N.land (N.shiftl (Z.to_N x1) 40) mask64 in
    let u := N.lxor u (N.shiftl (Z.to_N x2) 20) in
    let u := N.lxor u (Z.to_N x3) in
    N.lxor u c :: alfg_fill r x3
  end.

Definition alfg_seed (seed : Z) : alfg :=
  let s := (seed mod int32max)%Z in          (* Go: seed % m, then += m if negative *)
  let s := if (s =? 0)%Z then 89482311%Z else s in
  let x := Nat.iter 20 seedrand s in
  {| a_vec := alfg_fill rng_cooked x; a_tap := 0; a_feed := 607 - 273 |}.

Fixpoint list_set (l : list N) (i : nat) (v : N) : list N :=
  match l, i with
  | [], _ => []
  | _ :: r, O => v :: r
  | y :: r, S i' => y :: list_set r i' v
  end.

Definition alfg_int63 (g : alfg) : N * alfg :=
  let tap := if a_tap g =? 0 then 606 else a_tap g - 1 in
  let feed := if a_feed g =? 0 then 606 else a_feed g - 1 in
  let x := N.land (nth (N.to_nat feed) (a_vec g) 0 + nth (N.to_nat tap) (a_vec g) 0) mask64 in
  (N.land x mask63, {| a_vec := list_set (a_vec g) (N.to_nat feed) x; a_tap := tap; a_feed := feed |}).

(* rand.New(rand.NewSource(seed)) *)
Definition go_rand_new (seed : Z) : rnd alfg := rnd_new (alfg_seed seed).
