(* HMAC (RFC 2104) and the HKDF reader of golang.org/x/crypto/hkdf (RFC 5869),
   generic in the hash function, plus the SHA-256 instances.  Definitions only. *)
From CJ Require Export Common.Base C14.Sha256.

Definition xor_pad (p : N) (k : bytes) : bytes := map (fun b => N.lxor b p) k.

(* crypto/hmac.New(h, key) / Write(msg) / Sum(nil); bs = block size of the hash *)
Definition hmac_gen (H : bytes -> bytes) (bs : N) (key msg : bytes) : bytes :=
  let k0 := if bs <? blen key then H key else key in
  let k := k0 ++ repeat 0 (N.to_nat (bs - blen k0)) in
  H (xor_pad 92 k ++ H (xor_pad 54 k ++ msg)).

Definition hmac_sha256 : bytes -> bytes -> bytes := hmac_gen sha256 64.

(* ---- x/crypto/hkdf ----
   hm is the keyed PRF (HMAC); hsize is hash.Size(), the constant the reader's
   entropy accounting uses (32 for SHA-256). *)
Record hkdf_reader := { hk_prk : bytes; hk_info : bytes; hk_ctr : N; hk_prev : bytes; hk_buf : bytes }.

Definition hsize : N := 32.

Section HKDF.
  Variable hm : bytes -> bytes -> bytes.

  (* hkdf.New(hash, secret, salt, info); salt = None is Go's nil salt *)
  Definition hkdf_new (secret : bytes) (salt : option bytes) (info : bytes) : hkdf_reader :=
    let s := match salt with Some s => s | None => repeat 0 (N.to_nat hsize) end in
    {| hk_prk := hm s secret; hk_info := info; hk_ctr := 1; hk_prev := []; hk_buf := [] |}.

  (* the refill loop of hkdf.Read: produce blocks until `need` bytes are there.
     Returns (bytes so far, reader).  The counter is kept in 1..256 (Go's byte
     counter wraps to 0 after block 255; 256 stands for that state). *)
  Fixpoint hkdf_fill (fuel : nat) (r : hkdf_reader) (acc : bytes) (need : N) : bytes * hkdf_reader :=
    match fuel with
    | O => (acc, r)
    | S f =>
      if need =? 0 then (acc, r)
      else
        let blk := hm (hk_prk r) (hk_prev r ++ hk_info r ++ [hk_ctr r mod 256]) in
        let n := N.min need (blen blk) in
        let r' := {| hk_prk := hk_prk r; hk_info := hk_info r; hk_ctr := hk_ctr r + 1;
                     hk_prev := blk; hk_buf := drop n blk |} in
        hkdf_fill f r' (acc ++ take n blk) (need - n)
    end.

  (* hkdf.Read(p) with len(p) = n: None is the "entropy limit reached" error
     (nothing is consumed in that case). *)
  Definition hkdf_read (r : hkdf_reader) (n : N) : option (bytes * hkdf_reader) :=
    let remains := blen (hk_buf r) + (256 - hk_ctr r) * hsize in
    if remains <? n then None
    else
      let c := N.min n (blen (hk_buf r)) in
      let r0 := {| hk_prk := hk_prk r; hk_info := hk_info r; hk_ctr := hk_ctr r;
                   hk_prev := hk_prev r; hk_buf := drop c (hk_buf r) |} in
      if n - c =? 0 then Some (take c (hk_buf r), r0)
      else
        let '(out, r1) := hkdf_fill 256 r0 (take c (hk_buf r)) (n - c) in
        if blen out =? n then Some (out, r1) else None.
End HKDF.

Definition hkdf_sha256_new := hkdf_new hmac_sha256.
Definition hkdf_sha256_read := hkdf_read hmac_sha256.

(* the first n bytes of HKDF-SHA256(secret, salt, info), n <= 8160 *)
Definition hkdf_sha256 (secret : bytes) (salt : option bytes) (info : bytes) (n : N) : option bytes :=
  match hkdf_sha256_read (hkdf_sha256_new secret salt info) n with
  | Some (b, _) => Some b
  | None => None
  end.
