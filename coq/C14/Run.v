(* C14: evaluation of the model on recorded cases (correspondence check). *)
From CJ Require Import Common.Base C14.Model.

(* a network as the generator wrote it: family, (unmasked) address, prefix length;
   None = a string net.ParseCIDR rejects *)
Definition rnet := option (family * N * N).
Definition mk_net (n : rnet) : option cidr :=
  match n with Some (f, a, o) => Some (mk_cidr f a o) | None => None end.
Definition mk_group (w : N) (nets : option (list rnet)) (rp : bool) : group :=
  {| weight := w; nets := match nets with Some l => Some (map mk_net l) | None => None end; rand_port := rp |}.

(* observed outcome: 0 ok / 1 error / 2 panic, address bytes, supportRandomPort *)
Definition obs := (N * bytes * bool)%type.

Definition obs_matches (m : sres phantom) (o : obs) : bool :=
  let '(k, ip, rp) := o in
  match m with
  | Ok p => (k =? 0) && bytes_eqb (p_bytes p) ip && Bool.eqb (p_rand_port p) rp
  | Err EFuel => false
  | Err _ => k =? 1
  | Panic => k =? 2
  end.

(* op 0: PhantomIPSelector.Select seed cfg libver family
   op 1: SelectPhantom seed list transform weighted   (fam: 0 none / 4 / 6) *)
Record vcase := { v_op : N; v_seed : bytes; v_cfg : option (list group); v_lv : N; v_fam : N;
                  v_weighted : bool; v_obs : obs }.

Definition fam_of (n : N) : option family := match n with 4 => Some V4 | 6 => Some V6 | _ => None end.

Definition model (c : vcase) : sres phantom :=
  match v_op c with
  | 0 => select (v_seed c) (v_cfg c) (v_lv c) (match fam_of (v_fam c) with Some f => f | None => V4 end)
  | _ => select_phantom (v_seed c) (match v_cfg c with Some g => g | None => [] end) (fam_of (v_fam c)) (v_weighted c)
  end.

Definition chk (c : vcase) : bool := obs_matches (model c) (v_obs c).

(* what the model computes, for replay files *)
Definition show (c : vcase) : N * bytes * bool :=
  match model c with
  | Ok p => (0, p_bytes p, p_rand_port p)
  | Err EFuel => (9, [], false)
  | Err _ => (1, [], false)
  | Panic => (2, [], false)
  end.
