(* C14: evaluation of the model on recorded cases (correspondence check). *)
From CJ Require Import Common.Base C14.Model C14.LifeModel.

(* a network as the generator wrote it: family, (unmasked) address, prefix length;
   None = a string net.ParseCIDR rejects *)
Definition rnet := option (family * N * N).
Definition mk_net (n : rnet) : option cidr :=
  match n with Some (f, a, o) => Some (mk_cidr f a o) | None => None end.
Definition mk_group (w : N) (nets : option (list rnet)) (rp : bool) : group :=
  {| weight := w; nets := match nets with Some l => Some (map mk_net l) | None => None end; rand_port := rp |}.

(* observed outcome: 0 ok / 1 error / 2 panic, address bytes, supportRandomPort *)
Definition obs := (N * bytes * bool)%type.

Definition obs_matches (m : sres phantom) (o : obs) : bool :=
  let '(k, ip, rp) := o in
  match m with
  | Ok p => (k =? 0) && bytes_eqb (p_bytes p) ip && Bool.eqb (p_rand_port p) rp
  | Err EFuel => false
  | Err _ => k =? 1
  | Panic => k =? 2
  end.

(* op 0: PhantomIPSelector.Select seed cfg libver family
   op 1: SelectPhantom seed list transform weighted   (fam: 0 none / 4 / 6) *)
Record vcase := { v_op : N; v_seed : bytes; v_cfg : option (list group); v_lv : N; v_fam : N;
                  v_weighted : bool; v_obs : obs }.

Definition fam_of (n : N) : option family := match n with 4 => Some V4 | 6 => Some V6 | _ => None end.

Definition model (c : vcase) : sres phantom :=
  match v_op c with
  | 0 => select (v_seed c) (v_cfg c) (v_lv c) (match fam_of (v_fam c) with Some f => f | None => V4 end)
  | _ => select_phantom (v_seed c) (match v_cfg c with Some g => g | None => [] end) (fam_of (v_fam c)) (v_weighted c)
  end.

Definition chk (c : vcase) : bool := obs_matches (model c) (v_obs c).

(* what the model computes, for replay files *)
Definition show (c : vcase) : N * bytes * bool :=
  match model c with
  | Ok p => (0, p_bytes p, p_rand_port p)
  | Err EFuel => (9, [], false)
  | Err _ => (1, [], false)
  | Panic => (2, [], false)
  end.

(* ---------- lifecycle cases: a selection after a history of loads / reloads ---------- *)
(* a subnet file as the generator wrote it *)
Definition mk_file (l : list (Z * list group)) : file := l.

Definition fam_or4 (n : N) : family := match fam_of n with Some f => f | None => V4 end.

(* l_f0: the file the station started with; l_loads: what each later reload's load gave (None: failed);
   then ONE selection; l_obs: what the implementation's entry points returned for it (station, registrar, the
   selectors loaded freshly from the file in force) *)
Record lcase := { l_f0 : file; l_loads : list (option file); l_seed : bytes; l_gen : N; l_lv : N; l_fam : N;
                  l_obs : list obs }.

Definition lmodel (c : lcase) : sres phantom :=
  let evs := map EReload (l_loads c) ++ [ESelect (l_seed c) (l_gen c) (l_lv c) (fam_or4 (l_fam c))] in
  match nth_error (fst (station_run (from_file (l_f0 c)) evs)) (length (l_loads c)) with
  | Some (Some r) => r
  | _ => Err EFuel
  end.
Definition chk_life (c : lcase) : bool := forallb (obs_matches (lmodel c)) (l_obs c).
Definition show_res (m : sres phantom) : N * bytes * bool :=
  match m with
  | Ok p => (0, p_bytes p, p_rand_port p)
  | Err EFuel => (9, [], false)
  | Err _ => (1, [], false)
  | Panic => (2, [], false)
  end.
Definition show_life (c : lcase) : N * bytes * bool := show_res (lmodel c).

(* ---------- histories over the selector's API, then one selection ---------- *)
(* a_init: the generations the selector object was created with (a Go map literal); observed indices returned by
   AddGeneration are compared as well (a_idx: one per AAdd of the history, in order) *)
Record acase := { a_init : list (N * list group); a_ops : list aop; a_idx : list N;
                  a_seed : bytes; a_gen : N; a_lv : N; a_fam : N; a_obs : list obs }.

Definition init_selector (l : list (N * list group)) : selector :=
  fold_left (fun s kc => sset s (fst kc) (Some (snd kc))) l [].
Definition amodel (c : acase) : list aout :=
  fst (arun (init_selector (a_init c)) (a_ops c ++ [ASelect (a_seed c) (a_gen c) (a_lv c) (fam_or4 (a_fam c))])).
Fixpoint idx_of (l : list aout) : list N :=
  match l with
  | [] => []
  | OIdx u :: r => u :: idx_of r
  | _ :: r => idx_of r
  end.
Definition list_N_eqb (a b : list N) : bool :=
  (length a =? length b)%nat && forallb (fun p => fst p =? snd p) (combine a b).
Definition chk_api (c : acase) : bool :=
  let m := amodel c in
  list_N_eqb (idx_of m) (a_idx c) &&
  match last m ODone with
  | OSel r => forallb (obs_matches r) (a_obs c)
  | _ => false
  end.
Definition show_api (c : acase) : list N * (N * bytes * bool) :=
  let m := amodel c in (idx_of m, match last m ODone with OSel r => show_res r | _ => (9, [], false) end).
