(* SHA-256 (FIPS 180-4) as an executable Gallina function over bytes = list N.
   Definitions only.  Checked against the FIPS / RFC vectors in Vectors.v and
   against Go's crypto/sha256 on every run of the C14 / C01 checks. *)
From CJ Require Export Common.Base.

Definition mask32 : N := 4294967295.
Definition w32 (x : N) : N := N.land x mask32.
Definition rotr (n x : N) : N := N.lor (N.shiftr x n) (w32 (N.shiftl x (32 - n))).
Definition add32 (a b : N) : N := w32 (a + b).

Definition ch (x y z : N) : N := N.lxor (N.land x y) (N.land (N.lxor x mask32) z).
Definition maj (x y z : N) : N := N.lxor (N.lxor (N.land x y) (N.land x z)) (N.land y z).
Definition bsig0 (x : N) : N := N.lxor (N.lxor (rotr 2 x) (rotr 13 x)) (rotr 22 x).
Definition bsig1 (x : N) : N := N.lxor (N.lxor (rotr 6 x) (rotr 11 x)) (rotr 25 x).
Definition ssig0 (x : N) : N := N.lxor (N.lxor (rotr 7 x) (rotr 18 x)) (N.shiftr x 3).
Definition ssig1 (x : N) : N := N.lxor (N.lxor (rotr 17 x) (rotr 19 x)) (N.shiftr x 10).

Definition sha_k : list N :=
  [ 1116352408; 1899447441; 3049323471; 3921009573; 961987163; 1508970993; 2453635748; 2870763221;
    3624381080; 310598401; 607225278; 1426881987; 1925078388; 2162078206; 2614888103; 3248222580;
    3835390401; 4022224774; 264347078; 604807628; 770255983; 1249150122; 1555081692; 1996064986;
    2554220882; 2821834349; 2952996808; 3210313671; 3336571891; 3584528711; 113926993; 338241895;
    666307205; 773529912; 1294757372; 1396182291; 1695183700; 1986661051; 2177026350; 2456956037;
    2730485921; 2820302411; 3259730800; 3345764771; 3516065817; 3600352804; 4094571909; 275423344;
    430227734; 506948616; 659060556; 883997877; 958139571; 1322822218; 1537002063; 1747873779;
    1955562222; 2024104815; 2227730452; 2361852424; 2428436474; 2756734187; 3204031479; 3329325298 ].

Definition sha_h0 : list N :=
  [ 1779033703; 3144134277; 1013904242; 2773480762; 1359893119; 2600822924; 528734635; 1541459225 ].

Record regs := { ra : N; rb : N; rc : N; rd : N; re : N; rf : N; rg : N; rh : N }.

(* one round: window w holds W[t..t+15], oldest first *)
Definition sha_round (st : regs * list N) (k : N) : regs * list N :=
  let '(r, w) := st in
  let wt := nth 0 w 0 in
  let t1 := w32 (rh r + bsig1 (re r) + ch (re r) (rf r) (rg r) + k + wt) in
  let t2 := w32 (bsig0 (ra r) + maj (ra r) (rb r) (rc r)) in
  let nw := w32 (ssig1 (nth 14 w 0) + nth 9 w 0 + ssig0 (nth 1 w 0) + wt) in
  ({| ra := add32 t1 t2; rb := ra r; rc := rb r; rd := rc r;
      re := add32 (rd r) t1; rf := re r; rg := rf r; rh := rg r |},
   tl w ++ [nw]).

Definition regs_of (h : list N) : regs :=
  {| ra := nth 0 h 0; rb := nth 1 h 0; rc := nth 2 h 0; rd := nth 3 h 0;
     re := nth 4 h 0; rf := nth 5 h 0; rg := nth 6 h 0; rh := nth 7 h 0 |}.

(* compression of one 16-word block into the chaining value h (8 words) *)
Definition sha_compress (h : list N) (blk : list N) : list N :=
  let r0 := regs_of h in
  let '(r, _) := fold_left sha_round sha_k (r0, blk) in
  [ add32 (ra r0) (ra r); add32 (rb r0) (rb r); add32 (rc r0) (rc r); add32 (rd r0) (rd r);
    add32 (re r0) (re r); add32 (rf r0) (rf r); add32 (rg r0) (rg r); add32 (rh r0) (rh r) ].

Fixpoint words_of (b : bytes) : list N :=
  match b with
  | b0 :: b1 :: b2 :: b3 :: r => (((b0 * 256 + b1) * 256 + b2) * 256 + b3) :: words_of r
  | _ => []
  end.

Definition word_bytes (w : N) : bytes :=
  [ N.shiftr w 24; N.land (N.shiftr w 16) 255; N.land (N.shiftr w 8) 255; N.land w 255 ].

Definition be64 (n : N) : bytes :=
  word_bytes (w32 (N.shiftr n 32)) ++ word_bytes (w32 n).

(* padding: 0x80, zeros up to 56 mod 64, 64-bit big-endian bit length *)
Definition sha_pad (m : bytes) : bytes :=
  let l := blen m in
  let z := (119 - l mod 64) mod 64 in
  m ++ 128 :: repeat 0 (N.to_nat z) ++ be64 (8 * l).

Fixpoint sha_blocks (fuel : nat) (h : list N) (ws : list N) : list N :=
  match fuel with
  | O => h
  | S f => match ws with
           | [] => h
           | _ => sha_blocks f (sha_compress h (firstn 16 ws)) (skipn 16 ws)
           end
  end.

Definition sha256 (m : bytes) : bytes :=
  let ws := words_of (sha_pad m) in
  flat_map word_bytes (sha_blocks (S (length ws)) sha_h0 ws).
