(* C14: the concrete sorter is a permutation; every address of every eligible
   network is reachable (offset surjectivity); the sampler reaches every value. *)
From CJ Require Import Common.Base C14.Model C14.LibProofs C14.Proofs.
From Coq Require Import Lia ZifyN ZifyNat ZifyBool Permutation.

(* ---------- insertion sort ---------- *)
Lemma ins_group_perm : forall x l, Permutation (ins_group x l) (x :: l).
Proof.
  induction l as [|y l IH]; cbn [ins_group].
  - apply Permutation_refl.
  - destruct (weight x <? weight y); [apply Permutation_refl|].
    eapply perm_trans; [apply perm_skip, IH|apply perm_swap].
Qed.

Lemma isort_fold_perm : forall l acc, Permutation (fold_left (fun acc x => ins_group x acc) l acc) (acc ++ l).
Proof.
  induction l as [|x l IH]; intros acc; cbn [fold_left].
  - rewrite app_nil_r. apply Permutation_refl.
  - eapply perm_trans; [apply IH|].
    eapply perm_trans; [apply Permutation_app_tail, ins_group_perm|].
    change (x :: acc) with ([x] ++ acc). rewrite <- app_assoc.
    apply Permutation_app_swap_app.
Qed.

Lemma isort_groups_perm : forall l, Permutation (isort_groups l) l.
Proof. intros. unfold isort_groups. apply (isort_fold_perm l []). Qed.

(* ---------- id ranges ---------- *)
Definition csum (l : list pnet) : N := fold_right (fun p a => sel_count (fst p) + a) 0 l.

Lemma sel_count_pos : forall c, 1 <= sel_count c.
Proof.
  intros c. unfold sel_count.
  assert (H : forall k, 1 <= 2 ^ k) by (intros k; pose proof (N.pow_nonzero 2 k); lia).
  destruct (is4 c); [destruct (ones c <=? 32)|]; auto; lia.
Qed.

Lemma id_nets_snd : forall l t, snd (id_nets l t) = t + csum l.
Proof.
  induction l as [|p l IH]; intros t; cbn [id_nets csum fold_right].
  - cbn. lia.
  - specialize (IH (t + sel_count (fst p))). destruct (id_nets l (t + sel_count (fst p))) as [rest tot].
    cbn [snd] in *. fold (csum l). lia.
Qed.

Lemma id_nets_app : forall a b t,
  fst (id_nets (a ++ b) t) = fst (id_nets a t) ++ fst (id_nets b (t + csum a)).
Proof.
  induction a as [|p a IH]; intros b t.
  - cbn [app csum fold_right id_nets fst]. rewrite N.add_0_r. reflexivity.
  - cbn [app id_nets csum fold_right]. fold (csum a).
    specialize (IH b (t + sel_count (fst p))).
    destruct (id_nets (a ++ b) (t + sel_count (fst p))) as [r1 t1].
    destruct (id_nets a (t + sel_count (fst p))) as [r2 t2].
    cbn [fst] in *. rewrite IH. rewrite N.add_assoc. reflexivity.
Qed.

(* bounds of the ranges: all inside [t, t + csum l) *)
Lemma id_nets_bounds : forall l t mn mx p, In (mn, mx, p) (fst (id_nets l t)) -> t <= mn /\ mx < t + csum l.
Proof.
  induction l as [|q l IH]; intros t mn mx p H.
  - destruct H.
  - cbn [id_nets csum fold_right] in *. fold (csum l).
    pose proof (sel_count_pos (fst q)) as Hq.
    destruct (id_nets l (t + sel_count (fst q))) as [rest tot] eqn:E. cbn [fst] in H.
    destruct H as [H|H].
    + inversion H; subst. lia.
    + assert (H' : In (mn, mx, p) (fst (id_nets l (t + sel_count (fst q))))) by (rewrite E; exact H).
      apply IH in H'. lia.
Qed.

Section Loop.
  Variable hit : N -> N -> bool.
  Variable pick : N -> pnet -> sres phantom.

  Lemma match_loop_nohit : forall l acc,
    (forall mn mx p, In (mn, mx, p) l -> hit mn mx = false) -> match_loop hit pick l acc = Ok acc.
  Proof.
    induction l as [|[[mn mx] p] l IH]; intros acc H.
    - reflexivity.
    - cbn [match_loop]. rewrite (H mn mx p) by (left; reflexivity).
      apply IH. intros. eapply H. right; eassumption.
  Qed.

  Lemma match_loop_app_nohit : forall l1 l2 acc,
    (forall mn mx p, In (mn, mx, p) l1 -> hit mn mx = false) ->
    match_loop hit pick (l1 ++ l2) acc = match_loop hit pick l2 acc.
  Proof.
    induction l1 as [|[[mn mx] p] l1 IH]; intros l2 acc H.
    - reflexivity.
    - cbn [app match_loop]. rewrite (H mn mx p) by (left; reflexivity).
      apply IH. intros. eapply H. right; eassumption.
  Qed.
End Loop.

(* every offset below the count of every listed network is produced by some id below the total *)
Lemma locate_hkdf_surjective : forall pre p post off,
  off < sel_count (fst p) ->
  let subnets := pre ++ p :: post in
  exists id, id < snd (id_nets subnets 0) /\
             locate_hkdf (fst (id_nets subnets 0)) id = addr_from_offset p off.
Proof.
  intros pre p post off Hoff subnets. exists (csum pre + off).
  pose proof (sel_count_pos (fst p)) as Hp.
  split.
  - rewrite id_nets_snd. unfold subnets.
    assert (H : csum (pre ++ p :: post) = csum pre + (sel_count (fst p) + csum post)).
    { clear. induction pre as [|q pre IH]; cbn [app csum fold_right]; [reflexivity|]. fold (csum (pre ++ p :: post)). fold (csum pre). rewrite IH. lia. }
    rewrite H. lia.
  - unfold subnets, locate_hkdf. rewrite id_nets_app.
    rewrite match_loop_app_nohit.
    2:{ intros mn mx q Hin. apply id_nets_bounds in Hin. lia. }
    cbn [id_nets].
    destruct (id_nets post (0 + csum pre + sel_count (fst p))) as [rest tot] eqn:E. cbn [fst match_loop].
    replace ((csum pre + off <=? 0 + csum pre + sel_count (fst p) - 1) && (0 + csum pre <=? csum pre + off)) with true by lia.
    replace (csum pre + off - (0 + csum pre)) with off by lia.
    destruct (addr_from_offset p off) as [ph|e|] eqn:Ea; try reflexivity.
    rewrite match_loop_nohit; [reflexivity|].
    intros mn mx q Hin.
    assert (H' : In (mn, mx, q) (fst (id_nets post (0 + csum pre + sel_count (fst p))))) by (rewrite E; exact Hin).
    apply id_nets_bounds in H'. lia.
Qed.

(* for a well-formed network that is not v4-mapped the count is the size of the
   network, so every address of the network is selected for some id *)
Lemma size_lt_pow : forall a n, a < 2 ^ n -> N.size a <= n.
Proof.
  intros a n H. destruct (N.le_gt_cases (N.size a) n) as [|Hgt]; [assumption|exfalso].
  pose proof (N.size_le a) as Hs. rewrite N.succ_double_spec in Hs.
  assert (2 ^ (n + 1) <= 2 ^ N.size a) by (apply N.pow_le_mono_r; lia).
  rewrite N.pow_add_r, N.pow_1_r in *. lia.
Qed.

Lemma sel_count_wf : forall c, wf_cidr c -> v4mapped c = false -> sel_count c = net_size c.
Proof.
  intros c (H1 & H2 & H3) Hm. unfold sel_count, net_size, host_bits, is4, v4mapped in *.
  destruct (fam c); cbn [bits] in *.
  - replace (ones c <=? 32) with true by lia. reflexivity.
  - rewrite Hm. reflexivity.
Qed.

Lemma wf_top : forall c, wf_cidr c -> base c + net_size c <= 2 ^ bits (fam c).
Proof.
  intros c (H1 & H2 & H3). unfold net_size, host_bits.
  set (h := bits (fam c) - ones c) in *.
  assert (Hh : 2 ^ bits (fam c) = 2 ^ ones c * 2 ^ h).
  { rewrite <- N.pow_add_r. f_equal. unfold h. lia. }
  assert (Hp : 2 ^ h <> 0) by (apply N.pow_nonzero; lia).
  apply N.div_exact in H3; [|assumption].
  rewrite Hh in *. set (q := base c / 2 ^ h) in *. rewrite H3 in *.
  assert (q < 2 ^ ones c) by nia. nia.
Qed.

Lemma every_address_reachable : forall subnets c rp a,
  In (c, rp) subnets -> wf_cidr c -> v4mapped c = false -> contains c (eff_fam c) a ->
  a / 2 ^ 32 <> 65535 ->
  exists id ph, id < snd (id_nets subnets 0) /\
                locate_hkdf (fst (id_nets subnets 0)) id = Ok ph /\
                be_to_N (p_bytes ph) = a /\ p_rand_port ph = rp /\ blen (p_bytes ph) * 8 = bits (eff_fam c).
Proof.
  intros subnets c rp a Hin Hwf Hm (_ & Hlo & Hhi) Hnm.
  apply in_split in Hin. destruct Hin as (pre & post & ->).
  assert (Heb : eff_base c = base c) by (unfold eff_base; rewrite Hm; reflexivity).
  assert (Hef : eff_fam c = fam c).
  { unfold eff_fam, is4. rewrite Hm. destruct (fam c); reflexivity. }
  rewrite Heb in *.
  set (off := a - base c).
  assert (Hoff : off < sel_count (fst (c, rp))) by (cbn [fst]; rewrite sel_count_wf by assumption; unfold off; lia).
  destruct (locate_hkdf_surjective pre (c, rp) post off Hoff) as (id & Hid & Hloc).
  pose proof (wf_top c Hwf) as Htop.
  assert (Ha : addr_from_offset (c, rp) off = Ok {| p_bytes := N_to_be (addr_len c) a; p_rand_port := rp |}).
  { unfold addr_from_offset. cbn [fst snd]. replace (net_size c <=? off) with false by (unfold off; lia).
    rewrite Heb. replace (base c + off) with a by (unfold off; lia).
    unfold addr_bytes. 
    assert (Hsz : N.size a <= 8 * addr_len c).
    { apply size_lt_pow. replace (8 * addr_len c) with (bits (eff_fam c)) by (rewrite <- addr_len_bits; lia).
      rewrite Hef. lia. }
    replace (N.size a <=? 8 * addr_len c) with true by lia.
    replace (a / 2 ^ 32 =? 65535) with false by lia. rewrite andb_false_r. reflexivity. }
  exists id, {| p_bytes := N_to_be (addr_len c) a; p_rand_port := rp |}.
  split; [assumption|]. split; [rewrite Hloc; exact Ha|]. cbn [p_bytes p_rand_port].
  split; [|split; [reflexivity|rewrite N_to_be_length; apply addr_len_bits]].
  apply be_to_N_to_be. rewrite pow256.
  replace (8 * addr_len c) with (bits (eff_fam c)) by (rewrite <- addr_len_bits; lia).
  rewrite Hef. lia.
Qed.

(* ---------- the sampler reaches every value below max ---------- *)
(* a reader over a given byte string *)
Definition list_read (s : bytes) (n : N) : option (bytes * bytes) :=
  if blen s <? n then None else Some (take n s, drop n s).

Lemma N_to_be_head : forall k v, 0 < k -> v < 256 ^ k ->
  exists r, N_to_be k v = (v / 256 ^ (k - 1)) :: r.
Proof.
  intros k v Hk Hv. unfold N_to_be.
  destruct (N.to_nat k) as [|n] eqn:En; [lia|].
  assert (Hk' : k - 1 = N.of_nat n) by lia. rewrite Hk'. clear Hk'.
  assert (Hv' : v < 256 ^ N.of_nat (S n)) by (replace (N.of_nat (S n)) with k by lia; exact Hv).
  clear Hv En Hk k. revert v Hv'. 
  assert (G : forall m v acc, v < 256 ^ N.of_nat (S m) -> exists r, N_to_be_aux (S m) v acc = (v / 256 ^ N.of_nat m) :: r).
  { induction m as [|m IH]; intros v acc Hv.
    - cbn [N_to_be_aux]. change (N.of_nat 0) with 0. rewrite N.pow_0_r, N.div_1_r.
      change (N.of_nat 1) with 1 in Hv. rewrite N.pow_1_r in Hv. rewrite N.mod_small by exact Hv. eauto.
    - cbn [N_to_be_aux]. 
      assert (Hd : v / 256 < 256 ^ N.of_nat (S m)).
      { rewrite (Nat2N.inj_succ (S m)), N.pow_succ_r' in Hv. apply N.div_lt_upper_bound; lia. }
      destruct (IH (v / 256) (v mod 256 :: acc) Hd) as [r Hr]. cbn [N_to_be_aux] in Hr. rewrite Hr.
      exists r. f_equal. rewrite N.div_div by (try apply N.pow_nonzero; lia).
      rewrite (Nat2N.inj_succ m), N.pow_succ_r'. reflexivity. }
  intros v Hv. apply G. exact Hv.
Qed.

Lemma rand_int_surjective : forall max v, v < max ->
  exists s, rand_int list_read 1 s (Z.of_N max) = ROk v [].
Proof.
  intros max v Hv. unfold rand_int.
  replace (Z.of_N max <=? 0)%Z with false by lia. rewrite N2Z.id.
  destruct (N.size (max - 1) =? 0) eqn:E0.
  - exists []. assert (max - 1 = 0) by (destruct (max - 1); [reflexivity|cbn in E0; lia]).
    replace v with 0 by lia. reflexivity.
  - set (bl := N.size (max - 1)) in *.
    set (k := (bl + 7) / 8).
    assert (Hk : 0 < k) by (unfold k; assert (1 <= (bl + 7) / 8) by (apply N.div_le_lower_bound; lia); lia).
    assert (Hm : max - 1 < 2 ^ bl) by apply N.size_gt.
    assert (Hvb : v < 2 ^ bl) by lia.
    assert (Hk8 : bl <= 8 * k) by (unfold k; pose proof (N.div_mod (bl + 7) 8); pose proof (N.mod_lt (bl + 7) 8); lia).
    assert (Hv256 : v < 256 ^ k).
    { rewrite pow256. eapply N.lt_le_trans; [exact Hvb|]. apply N.pow_le_mono_r; lia. }
    exists (N_to_be k v). cbn [rand_loop]. unfold list_read.
    rewrite N_to_be_length. replace (k <? k) with false by lia.
    unfold take, drop. 
    assert (Hlen : length (N_to_be k v) = N.to_nat k) by (pose proof (N_to_be_length k v); unfold blen in *; lia).
    rewrite firstn_all2 by lia. rewrite skipn_all2 by lia.
    destruct (N_to_be_head k v Hk Hv256) as [r Hr].
    set (b := if bl mod 8 =? 0 then 8 else bl mod 8).
    assert (Hb : bl = 8 * (k - 1) + b).
    { unfold b, k. pose proof (N.div_mod (bl + 7) 8). pose proof (N.mod_lt (bl + 7) 8).
      pose proof (N.div_mod bl 8). pose proof (N.mod_lt bl 8).
      destruct (bl mod 8 =? 0) eqn:Eb; lia. }
    assert (Htop : v / 256 ^ (k - 1) < 2 ^ b).
    { apply N.div_lt_upper_bound; [apply N.pow_nonzero; lia|].
      rewrite pow256, <- N.pow_add_r, <- Hb. exact Hvb. }
    assert (Hland : N.land (v / 256 ^ (k - 1)) (2 ^ b - 1) = v / 256 ^ (k - 1)).
    { replace (2 ^ b - 1) with (N.ones b) by (rewrite N.ones_equiv; lia). rewrite N.land_ones. apply N.mod_small. exact Htop. }
    rewrite Hr. cbv iota. rewrite Hland, <- Hr, be_to_N_to_be by exact Hv256.
    replace (v <? max) with true by lia. reflexivity.
Qed.
