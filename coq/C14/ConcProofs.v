(* C14: selections scheduled concurrently return the serial results. *)
From CJ Require Import Common.Base C14.Model C14.ConcModel.
From Coq Require Import Lia ZifyN ZifyNat ZifyBool.

Section Conc.
  Variable src : Type.
  Variable src_seed : Z -> src.
  Variable src_int63 : src -> N * src.
  Variable sorter : list group -> list group.
  Variable hm : bytes -> bytes -> bytes.

  Notation gen := (rnd src).
  Notation exec_st := (exec_st src_seed src_int63).
  Notation exec := (exec src_seed src_int63).
  Notation do_op := (do_op src src_seed src_int63).
  Notation step := (step src_seed src_int63).
  Notation run := (run src_seed src_int63).
  Notation step_thread := (step_thread src_seed src_int63).

  (* the value of a call does not depend on the generators it starts from *)
  Definition pure_val {A} (p : prog A) (v : A) : Prop := forall g l, snd (exec_st g l p) = v.

  Lemma exec_st_bind : forall A B (p : prog A) (f : A -> prog B) g l,
    exec_st g l (bind p f) = let '(g', l', a) := exec_st g l p in exec_st g' l' (f a).
  Proof.
    induction p as [a|sh o k IH]; intros f g l.
    - reflexivity.
    - cbn [bind ConcModel.exec_st]. destruct sh.
      + destruct (do_op g o) as [g' r]. apply IH.
      + destruct (do_op l o) as [l' r]. apply IH.
  Qed.

  Lemma pure_val_bind : forall A B (p : prog A) (f : A -> prog B) v w,
    pure_val p v -> pure_val (f v) w -> pure_val (bind p f) w.
  Proof.
    intros A B p f v w Hp Hf g l. rewrite exec_st_bind.
    specialize (Hp g l). destruct (exec_st g l p) as [[g' l'] a]. cbn [snd] in Hp. subst. apply Hf.
  Qed.

  Lemma pure_val_ret : forall A (a : A), pure_val (Ret a) a.
  Proof. intros A a g l. reflexivity. Qed.

  (* Seed followed by Intn on the same generator, shared or not *)
  Lemma p_get_subnets_varint_val : forall sh cfg seed,
    pure_val (p_get_subnets_varint sorter sh cfg seed) (get_subnets_varint src src_seed src_int63 sorter cfg seed).
  Proof.
    intros sh cfg seed g l. unfold p_get_subnets_varint, get_subnets_varint.
    destruct (varint seed) as [sv n]. destruct (n =? 0)%Z; [reflexivity|].
    destruct sh; cbn [ConcModel.exec_st ConcModel.do_op].
    - match goal with |- context [if ?c then _ else _] => destruct c end; [reflexivity|].
      cbn [ConcModel.exec_st ConcModel.do_op].
      destruct (rnd_intn _ _ _ _) as [| |v r]; try reflexivity.
      cbn [ConcModel.exec_st]. destruct (search_totals _ _ _); reflexivity.
    - match goal with |- context [if ?c then _ else _] => destruct c end; [reflexivity|].
      cbn [ConcModel.exec_st ConcModel.do_op].
      destruct (rnd_intn _ _ _ _) as [| |v r]; try reflexivity.
      cbn [ConcModel.exec_st]. destruct (search_totals _ _ _); reflexivity.
  Qed.

  Lemma p_select_addr_val : forall sh seed p,
    pure_val (p_select_addr sh seed p) (select_addr_from_subnet src src_seed src_int63 seed p).
  Proof.
    intros sh seed p g l. unfold p_select_addr, select_addr_from_subnet.
    destruct (varint seed) as [sv n]. destruct (n =? 0)%Z; [reflexivity|].
    destruct sh; cbn [ConcModel.exec_st ConcModel.do_op].
    - destruct (rnd_read _ _ _) as [rb r']. cbn [ConcModel.exec_st].
      destruct (addr_bytes _ _); reflexivity.
    - destruct (rnd_read _ _ _) as [rb r']. cbn [ConcModel.exec_st].
      destruct (addr_bytes _ _); reflexivity.
  Qed.

  Lemma p_match_loop_val : forall hit ppick pick,
    (forall mn p, pure_val (ppick mn p) (pick mn p)) ->
    forall l acc, pure_val (p_match_loop hit ppick l acc) (match_loop hit pick l acc).
  Proof.
    intros hit ppick pick Hp. induction l as [|[[mn mx] p] l IH]; intros acc.
    - apply pure_val_ret.
    - cbn [p_match_loop match_loop]. destruct (hit mn mx); [|apply IH].
      eapply pure_val_bind; [apply Hp|].
      destruct (pick mn p); [apply IH|apply pure_val_ret|apply pure_val_ret].
  Qed.

  Lemma p_select_impl_varint_val : forall sh seed subnets,
    pure_val (p_select_impl_varint sh seed subnets) (select_impl_varint src src_seed src_int63 seed subnets).
  Proof.
    intros. unfold p_select_impl_varint, select_impl_varint.
    destruct (id_nets subnets 0) as [idn total]. destruct (total =? 0); [apply pure_val_ret|].
    eapply pure_val_bind; [apply p_match_loop_val; intros; apply p_select_addr_val|apply pure_val_ret].
  Qed.

  Lemma p_select_impl_v0_val : forall sh seed subnets,
    pure_val (p_select_impl_v0 sh seed subnets) (select_impl_v0 src src_seed src_int63 seed subnets).
  Proof.
    intros. unfold p_select_impl_v0, select_impl_v0.
    destruct (id_nets_v0 subnets 0) as [idn total]. destruct (total =? 0); [apply pure_val_ret|].
    eapply pure_val_bind; [apply p_match_loop_val; intros; apply p_select_addr_val|apply pure_val_ret].
  Qed.

  (* a call run on its own returns the value of the pure model function, whether
     it uses the shared generator (old code) or its own (current code), and
     whatever state the generators are in when it starts *)
  Lemma p_select_val : forall sh seed cfg lv f,
    pure_val (p_select src src_seed src_int63 sorter hm sh seed cfg lv f)
             (select_gen hm src src_seed src_int63 sorter seed cfg lv f).
  Proof.
    intros sh seed [cfg|] lv f; [|apply pure_val_ret].
    unfold p_select, select_gen. destruct (lv <? 2) eqn:E2; [|apply pure_val_ret].
    eapply pure_val_bind; [apply p_get_subnets_varint_val|].
    destruct (get_subnets_varint _ _ _ _ _ _) as [subnets|e|]; try apply pure_val_ret.
    destruct (lv <? 1); [apply p_select_impl_v0_val|apply p_select_impl_varint_val].
  Qed.

  (* ---------- global-free programs ---------- *)
  Lemma global_free_bind : forall A B (p : prog A) (f : A -> prog B),
    global_free p -> (forall a, global_free (f a)) -> global_free (bind p f).
  Proof.
    intros A B p f Hp Hf. induction Hp as [a|o k Hk IH]; cbn [bind].
    - apply Hf.
    - constructor. intros r. apply IH.
  Qed.

  Lemma p_get_subnets_varint_gf : forall cfg seed, global_free (p_get_subnets_varint sorter false cfg seed).
  Proof.
    intros. unfold p_get_subnets_varint. destruct (varint seed) as [sv n].
    destruct (n =? 0)%Z; [constructor|]. constructor. intros _.
    match goal with |- context [if ?c then _ else _] => destruct c end; [constructor|].
    constructor. intros r. destruct r; try constructor. destruct (search_totals _ _ _); constructor.
  Qed.

  Lemma p_select_addr_gf : forall seed p, global_free (p_select_addr false seed p).
  Proof.
    intros. unfold p_select_addr. destruct (varint seed) as [sv n].
    destruct (n =? 0)%Z; [constructor|]. constructor. intros _. constructor. intros r.
    destruct r; try constructor. destruct (addr_bytes _ _); constructor.
  Qed.

  Lemma p_match_loop_gf : forall hit ppick, (forall mn p, global_free (ppick mn p)) ->
    forall l acc, global_free (p_match_loop hit ppick l acc).
  Proof.
    intros hit ppick Hp. induction l as [|[[mn mx] p] l IH]; intros acc; cbn [p_match_loop].
    - constructor.
    - destruct (hit mn mx); [|apply IH]. apply global_free_bind; [apply Hp|].
      intros [ph|e|]; [apply IH|constructor|constructor].
  Qed.

  (* the selection call of the current code performs no operation on shared state *)
  Lemma p_select_gf : forall seed cfg lv f, global_free (p_select src src_seed src_int63 sorter hm false seed cfg lv f).
  Proof.
    intros seed [cfg|] lv f; [|constructor]. unfold p_select.
    destruct (lv <? 2); [|constructor].
    apply global_free_bind; [apply p_get_subnets_varint_gf|].
    intros [subnets|e|]; try constructor.
    destruct (lv <? 1).
    - unfold p_select_impl_v0. destruct (id_nets_v0 _ 0) as [idn total]. destruct (total =? 0); [constructor|].
      apply global_free_bind; [apply p_match_loop_gf; intros; apply p_select_addr_gf|intros; constructor].
    - unfold p_select_impl_varint. destruct (id_nets _ 0) as [idn total]. destruct (total =? 0); [constructor|].
      apply global_free_bind; [apply p_match_loop_gf; intros; apply p_select_addr_gf|intros; constructor].
  Qed.

  (* ---------- the scheduler ---------- *)
  Section Sched.
    Variable A : Type.

    (* the value a thread will return, seen from any point of its execution *)
    Definition tval (t : thread src A) : A := snd (exec_st (rnd_new (src_seed 0%Z)) (fst t) (snd t)).

    Lemma set_nth_same : forall (l : list (thread src A)) i x t, nth_error l i = Some t -> nth_error (set_nth l i x) i = Some x.
    Proof.
      induction l as [|y l IH]; intros i x t H; destruct i; cbn in *; try discriminate; [reflexivity|eauto].
    Qed.

    Lemma set_nth_other : forall (l : list (thread src A)) i j x, i <> j -> nth_error (set_nth l i x) j = nth_error l j.
    Proof.
      induction l as [|y l IH]; intros i j x H; destruct i, j; cbn; try reflexivity; try lia.
      apply IH. lia.
    Qed.

    (* a global-free thread: one step of its own keeps it global-free and keeps its value,
       and does not touch the global generator *)
    Lemma step_thread_gf : forall g (t : thread src A), global_free (snd t) ->
      let '(g', t') := step_thread g t in g' = g /\ global_free (snd t') /\ tval t' = tval t.
    Proof.
      intros g [l p] H. cbn [snd] in H. unfold ConcModel.step_thread. cbn [snd fst].
      destruct H as [a|o k Hk].
      - repeat split. constructor.
      - unfold tval. cbn [snd fst ConcModel.exec_st].
        destruct (do_op l o) as [l' r]. repeat split. apply Hk.
    Qed.

    (* steps of the other threads leave a thread alone; its own steps keep its value *)
    Lemma run_preserves : forall sched (c : conf src A) i t,
      nth_error (snd c) i = Some t -> global_free (snd t) ->
      exists t', nth_error (snd (run c sched)) i = Some t' /\ global_free (snd t') /\ tval t' = tval t.
    Proof.
      induction sched as [|j sched IH]; intros c i t Hn Hg.
      - exists t. repeat split; assumption.
      - unfold ConcModel.run. cbn [fold_left]. fold (run (step c j) sched).
        unfold ConcModel.step at 1. destruct (nth_error (snd c) j) as [tj|] eqn:Ej; [|eapply IH; eauto].
        destruct (step_thread (fst c) tj) as [g' tj'] eqn:Es.
        destruct (Nat.eq_dec j i) as [->|Hne].
        + rewrite Hn in Ej. inversion Ej; subst tj.
          pose proof (step_thread_gf (fst c) t Hg) as Hst. rewrite Es in Hst. destruct Hst as (_ & Hg' & Hv).
          destruct (IH (g', set_nth (snd c) i tj') i tj') as (t' & H1 & H2 & H3).
          * cbn [snd]. eapply set_nth_same; eauto.
          * assumption.
          * exists t'. repeat split; auto. congruence.
        + eapply IH; [|exact Hg]. cbn [snd]. rewrite set_nth_other by assumption. exact Hn.
    Qed.

    Lemma run_result : forall sched (c : conf src A) i t a,
      nth_error (snd c) i = Some t -> global_free (snd t) ->
      result_of (run c sched) i = Some a -> a = tval t.
    Proof.
      intros sched c i t a Hn Hg Hr.
      destruct (run_preserves sched c i t Hn Hg) as (t' & H1 & _ & H3).
      unfold result_of in Hr. rewrite H1 in Hr. destruct t' as [l' p']. destruct p' as [a'|]; [|discriminate].
      inversion Hr; subst. rewrite <- H3. reflexivity.
    Qed.

    (* every thread finishes after enough steps of its own *)
    Fixpoint own_steps (n : nat) (gt : gen * thread src A) : gen * thread src A :=
      match n with O => gt | S n' => own_steps n' (step_thread (fst gt) (snd gt)) end.

    Lemma thread_finishes : forall (p : prog A) g l, exists n,
      match snd (snd (own_steps n (g, (l, p)))) with Ret _ => True | _ => False end.
    Proof.
      induction p as [a|sh o k IH]; intros g l.
      - exists O. exact I.
      - destruct sh.
        + destruct (do_op g o) as [g' r] eqn:E. destruct (IH r g' l) as [n Hn].
          exists (S n). cbn [own_steps]. unfold ConcModel.step_thread. cbn [snd fst]. rewrite E. exact Hn.
        + destruct (do_op l o) as [l' r] eqn:E. destruct (IH r g l') as [n Hn].
          exists (S n). cbn [own_steps]. unfold ConcModel.step_thread. cbn [snd fst]. rewrite E. exact Hn.
    Qed.
  End Sched.

  (* ---------- the theorem ---------- *)
  Definition sel_prog (sh : bool) (a : sel_args) : prog (sres phantom) :=
    let '(seed, cfg, lv, f) := a in p_select src src_seed src_int63 sorter hm sh seed cfg lv f.
  Definition sel_fun (a : sel_args) : sres phantom :=
    let '(seed, cfg, lv, f) := a in select_gen hm src src_seed src_int63 sorter seed cfg lv f.

  (* initial configuration: any state of the global generator, any state of each thread's own *)
  Definition init_conf (sh : bool) (g0 : gen) (calls : list (gen * sel_args)) : conf src (sres phantom) :=
    (g0, map (fun x => (fst x, sel_prog sh (snd x))) calls).

  Theorem concurrent_eq_serial_gen : forall g0 calls sched i l a r,
    nth_error calls i = Some (l, a) ->
    result_of (run (init_conf false g0 calls) sched) i = Some r ->
    r = sel_fun a.
  Proof.
    intros g0 calls sched i l a r Hn Hr.
    assert (Ht : nth_error (snd (init_conf false g0 calls)) i = Some (l, sel_prog false a)).
    { unfold init_conf. cbn [snd]. rewrite nth_error_map, Hn. reflexivity. }
    assert (Hg : global_free (sel_prog false a)).
    { destruct a as [[[seed cfg] lv] f]. apply p_select_gf. }
    rewrite (run_result _ sched _ i _ r Ht Hg Hr).
    unfold tval. cbn [fst snd]. destruct a as [[[seed cfg] lv] f]. apply p_select_val.
  Qed.

  (* serial execution, old code or new: call after call on the same generators *)
  Theorem serial_old_eq_new : forall sh g l a, exec g l (sel_prog sh a) = sel_fun a.
  Proof. intros sh g l [[[seed cfg] lv] f]. apply p_select_val. Qed.
End Conc.

(* ---------- histories: the configuration is invariant, every result is the fresh one ---------- *)
Lemma hrun_pure : forall ops cfg,
  fst (hrun cfg ops) = cfg /\ snd (hrun cfg ops) = map (hresult cfg) ops.
Proof.
  induction ops as [|o ops IH]; intros cfg.
  - split; reflexivity.
  - cbn [hrun hstep map]. destruct (IH cfg) as [H1 H2]. destruct (hrun cfg ops) as [cfg2 xs].
    cbn [fst snd] in *. subst. split; reflexivity.
Qed.

(* a call's result does not depend on what was called before it on the same selector *)
Lemma history_independent : forall pre post o cfg,
  nth_error (snd (hrun cfg (pre ++ o :: post))) (length pre) = Some (hresult cfg o).
Proof.
  intros. destruct (hrun_pure (pre ++ o :: post) cfg) as [_ H]. rewrite H, map_app.
  rewrite nth_error_app2 by (rewrite map_length; apply le_n).
  rewrite map_length, Nat.sub_diag. reflexivity.
Qed.
