(* IP networks as Go's net.ParseCIDR / net.IPNet present them to the phantom
   selectors.  Definitions only. *)
From CJ Require Export Common.Base C14.CryptoRand.

Inductive family := V4 | V6.
Definition family_eqb (a b : family) : bool :=
  match a, b with V4, V4 => true | V6, V6 => true | _, _ => false end.
Definition bits (f : family) : N := match f with V4 => 32 | V6 => 128 end.

(* a parsed CIDR: the textual family, the (masked) network number and the
   prefix length as written *)
Record cidr := { fam : family; base : N; ones : N }.

(* net.ParseCIDR: the network number is the address with the host bits cleared *)
Definition mask_base (f : family) (addr ones : N) : N :=
  let h := bits f - ones in (addr / 2 ^ h) * 2 ^ h.
Definition mk_cidr (f : family) (addr ones : N) : cidr :=
  {| fam := f; base := mask_base f addr ones; ones := ones |}.
Definition wf_cidr (c : cidr) : Prop :=
  ones c <= bits (fam c) /\ base c < 2 ^ bits (fam c) /\ base c mod 2 ^ (bits (fam c) - ones c) = 0.
Definition wf_cidrb (c : cidr) : bool :=
  (ones c <=? bits (fam c)) && (base c <? 2 ^ bits (fam c)) && (base c mod 2 ^ (bits (fam c) - ones c) =? 0).

(* IP.To4() != nil on the network number: a 4-byte address, or a 16-byte one
   inside ::ffff:0:0/96 (which survives masking only for prefixes >= 96) *)
Definition v4mapped (c : cidr) : bool :=
  match fam c with V4 => false | V6 => base c / 2 ^ 32 =? 65535 end.
Definition is4 (c : cidr) : bool :=
  match fam c with V4 => true | V6 => v4mapped c end.

(* how the selectors see the network: family by To4, the number they add the
   offset to (To4() bytes resp. To16() bytes) *)
Definition eff_fam (c : cidr) : family := if is4 c then V4 else V6.
Definition eff_base (c : cidr) : N := if v4mapped c then base c mod 2 ^ 32 else base c.
(* host bits of the network as an IPNet (Mask.Size(): ones, bits) *)
Definition host_bits (c : cidr) : N := bits (fam c) - ones c.
(* number of addresses of the network *)
Definition net_size (c : cidr) : N := 2 ^ host_bits c.

(* the address count the selectors use:  2^(32-ones) resp. 2^(128-ones) with
   big.Int.Exp's convention that a negative exponent gives 1 (only reachable
   for v4-mapped networks, whose prefix length counts 128-bit positions) *)
Definition sel_count (c : cidr) : N :=
  if is4 c then (if ones c <=? 32 then 2 ^ (32 - ones c) else 1)
  else 2 ^ (128 - ones c).

(* IPNet.Contains, on (effective family, address number) *)
Definition contains (c : cidr) (f : family) (a : N) : Prop :=
  f = eff_fam c /\ eff_base c <= a < eff_base c + net_size c.
Definition containsb (c : cidr) (f : family) (a : N) : bool :=
  family_eqb f (eff_fam c) && (eff_base c <=? a) && (a <? eff_base c + net_size c).
