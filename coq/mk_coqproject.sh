#!/bin/sh
# Regenerate a coq_makefile project from the files on disk.
#   mk_coqproject.sh                -> _CoqProject / Makefile over every directory (setup_cmd)
#   mk_coqproject.sh C08 [C02 ...]  -> _CoqProject.C08 / Makefile.C08 over Common + the named directories
# gen/ (generated case files) is compiled separately with plain coqc.
cd "$(dirname "$0")"
if [ $# -eq 0 ]; then name=""; dirs="Common $(ls -d C[0-9][0-9] 2>/dev/null)"; else name=".$1"; dirs="Common $*"; fi
{ echo "-R . CJ"; echo "-arg -w -arg -notation-overridden,-deprecated-hint-without-locality,-deprecated-hint-rewrite-without-locality"
  for d in $dirs; do find "$d" -name '*.v' | sort; done; } > "_CoqProject$name"
coq_makefile -f "_CoqProject$name" -o "Makefile$name" >/dev/null
