#!/bin/sh
# regenerate _CoqProject from the files on disk (gen/ is compiled separately)
cd "$(dirname "$0")"
{ echo "-R . CJ"; echo "-arg -w -arg -notation-overridden,-deprecated-hint-without-locality,-deprecated-hint-rewrite-without-locality"; find Common C?? -name '*.v' | sort; } > _CoqProject
coq_makefile -f _CoqProject -o Makefile >/dev/null
